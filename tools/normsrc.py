#!/venv/bin/python
"""normsrc.py <file.py> <function name> : print the normal form (sa.normalize) of a function -- development aid"""
import ast, sys
sys.path.insert(0, '/verif')
from sa.normalize import normalise
t = normalise(ast.parse(open(sys.argv[1]).read()))
for n in ast.walk(t):
    if isinstance(n, ast.FunctionDef) and n.name == sys.argv[2]:
        if n.body and isinstance(n.body[0], ast.Expr) and isinstance(n.body[0].value, ast.Constant):
            n.body = n.body[1:]
        print(ast.unparse(n)); print('-----')
