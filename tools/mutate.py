#!/venv/bin/python
"""mutate.py list|apply ...   -- mechanical mutation of the package (development aid for measuring the sensitivity of the checks)

  mutate.py list <pkg dir> [--seed N] [--max M]        print candidate mutants, one JSON object per line
  mutate.py apply <pkg dir> <out dir> '<json>'         write a copy of the package with that one mutant applied

Operators (each a one-node edit of the AST, the rest of the file is regenerated with ast.unparse):
  matswap  a @ b -> b @ a          subswap  a - b -> b - a        neg  -x -> x            dropT  x.T -> x
  cmp      < <-> <=, > <-> >=, == <-> !=                          boolop and <-> or       dropnot  not x -> x
  idx      integer constant in a subscript +1 / -1               argswap  f(a, b) -> f(b, a) for 2-positional-argument calls
  dropkw   remove one keyword argument (unit= / check= / order= / tol= / twist= ...)
  name     one occurrence of left/right, x/y, v/w, R/T, q1/q2, l1/l2 replaced by its twin
  dropcopy x.copy() -> x, np.array(x) -> x
  delstmt  delete one simple statement (assignment / augmented assignment / expression) that is not the only one of its block"""
import ast, json, os, random, shutil, sys

SKIP_FILES = ('animate.py', 'graphics.py', 'timing.py', '__init__.py')
SKIP_FUNCS = ('trplot', 'trplot2', 'tranimate', 'tranimate2', 'trprint', 'trprint2', 'qprint', 'plot', 'animate', 'printline', 'print', '__repr__',
              '__str__', '_repr_pretty_', '_string_matrix', '_string_color', 'plot_box', 'plot_sphere', 'plot_circle', 'plot_point', 'plotvol2', 'plotvol3')
TWINS = {'left': 'right', 'right': 'left', 'x': 'y', 'y': 'x', 'v': 'w', 'w': 'v', 'q1': 'q2', 'q2': 'q1', 'l1': 'l2', 'l2': 'l1', 'T0': 'T1', 'T1': 'T0',
         'q0': 'q1', 's0': 's1', 's1': 's0', 'R': 'T'}
CMP = {ast.Lt: ast.LtE, ast.LtE: ast.Lt, ast.Gt: ast.GtE, ast.GtE: ast.Gt, ast.Eq: ast.NotEq, ast.NotEq: ast.Eq}


def functions(tree):
    out = []

    def walk(node, prefix):
        for ch in ast.iter_child_nodes(node):
            if isinstance(ch, ast.ClassDef):
                walk(ch, prefix + ch.name + '.')
            elif isinstance(ch, (ast.FunctionDef, ast.AsyncFunctionDef)):
                out.append((prefix + ch.name, ch))
                walk(ch, prefix + ch.name + '.<locals>.')
            elif isinstance(ch, (ast.If, ast.Try, ast.With)):
                walk(ch, prefix)
    walk(tree, '')
    return out


def body_nodes(fn):
    """nodes of the function body without its docstring, with a stable pre-order index"""
    nodes = []
    body = fn.body[1:] if fn.body and isinstance(fn.body[0], ast.Expr) and isinstance(fn.body[0].value, ast.Constant) and isinstance(fn.body[0].value.value, str) else fn.body
    for st in body:
        for n in ast.walk(st):
            nodes.append(n)
    return nodes


def candidates(fn):
    out = []
    nodes = body_nodes(fn)
    parents = {}
    for n in nodes:
        for ch in ast.iter_child_nodes(n):
            parents[id(ch)] = n
    for i, n in enumerate(nodes):
        if isinstance(n, ast.BinOp) and isinstance(n.op, ast.MatMult):
            out.append((i, 'matswap'))
        if isinstance(n, ast.BinOp) and isinstance(n.op, ast.Sub):
            out.append((i, 'subswap'))
        if isinstance(n, ast.UnaryOp) and isinstance(n.op, ast.USub) and not isinstance(n.operand, ast.Constant):
            out.append((i, 'neg'))
        if isinstance(n, ast.Attribute) and n.attr == 'T' and isinstance(n.ctx, ast.Load):
            out.append((i, 'dropT'))
        if isinstance(n, ast.Compare) and len(n.ops) == 1 and type(n.ops[0]) in CMP:
            out.append((i, 'cmp'))
        if isinstance(n, ast.BoolOp):
            out.append((i, 'boolop'))
        if isinstance(n, ast.UnaryOp) and isinstance(n.op, ast.Not):
            out.append((i, 'dropnot'))
        if isinstance(n, ast.Constant) and isinstance(n.value, int) and not isinstance(n.value, bool):
            p = parents.get(id(n))
            while p is not None and isinstance(p, (ast.Tuple, ast.Slice, ast.UnaryOp)):
                p = parents.get(id(p))
            if isinstance(p, ast.Subscript):
                out.append((i, 'idx+'))
                if n.value > 0:
                    out.append((i, 'idx-'))
        if isinstance(n, ast.Call) and len(n.args) == 2 and not any(isinstance(a, ast.Starred) for a in n.args) and ast.dump(n.args[0]) != ast.dump(n.args[1]):
            out.append((i, 'argswap'))
        if isinstance(n, ast.Call):
            for k, kw in enumerate(n.keywords):
                if kw.arg in ('unit', 'units', 'check', 'order', 'tol', 'twist', 'norm', 'out', 'dim', 'dtype', 'axis', 'shortest', 'unitq', 't', 'list1', 'matrix'):
                    out.append((i, 'dropkw:%d' % k))
        if isinstance(n, ast.Name) and isinstance(n.ctx, ast.Load) and n.id in TWINS:
            out.append((i, 'name'))
        if isinstance(n, ast.Call) and isinstance(n.func, ast.Attribute) and n.func.attr == 'copy' and not n.args:
            out.append((i, 'dropcopy'))
        if isinstance(n, (ast.Assign, ast.AugAssign, ast.Expr)) and not (isinstance(n, ast.Expr) and isinstance(n.value, ast.Constant)):
            p = parents.get(id(n))
            blk = None
            for fld in ('body', 'orelse', 'finalbody'):
                v = getattr(p, fld, None) if p is not None else (fn.body if fld == 'body' else None)
                if isinstance(v, list) and n in v:
                    blk = v
            if blk is None and n in fn.body:
                blk = fn.body
            if blk is not None and sum(1 for s in blk if not (isinstance(s, ast.Expr) and isinstance(s.value, ast.Constant))) > 1:
                out.append((i, 'delstmt'))
    return out


class Apply(ast.NodeTransformer):
    def __init__(self, target, op):
        self.target, self.op, self.done = target, op, False

    def visit(self, n):
        if n is self.target and not self.done:
            self.done = True
            op = self.op
            if op == 'matswap' or op == 'subswap':
                n.left, n.right = n.right, n.left
                return n
            if op == 'neg':
                return n.operand
            if op == 'dropT':
                return n.value
            if op == 'cmp':
                n.ops = [CMP[type(n.ops[0])]()]
                return n
            if op == 'boolop':
                n.op = ast.Or() if isinstance(n.op, ast.And) else ast.And()
                return n
            if op == 'dropnot':
                return n.operand
            if op == 'idx+':
                return ast.Constant(value=n.value + 1)
            if op == 'idx-':
                return ast.Constant(value=n.value - 1)
            if op == 'argswap':
                n.args = [n.args[1], n.args[0]]
                return n
            if op.startswith('dropkw:'):
                del n.keywords[int(op.split(':')[1])]
                return n
            if op == 'name':
                return ast.Name(id=TWINS[n.id], ctx=n.ctx)
            if op == 'dropcopy':
                return n.func.value
            if op == 'delstmt':
                return None
        return self.generic_visit(n)


def main():
    cmd = sys.argv[1]
    pkg = sys.argv[2]
    if cmd == 'list':
        seed = int(sys.argv[sys.argv.index('--seed') + 1]) if '--seed' in sys.argv else 1
        mx = int(sys.argv[sys.argv.index('--max') + 1]) if '--max' in sys.argv else 10 ** 9
        allc = []
        for dp, _, files in os.walk(pkg):
            for fnm in sorted(files):
                if not fnm.endswith('.py') or fnm in SKIP_FILES:
                    continue
                p = os.path.join(dp, fnm)
                rel = os.path.relpath(p, pkg)
                tree = ast.parse(open(p).read())
                for q, fn in functions(tree):
                    if q.split('.')[-1] in SKIP_FUNCS or '<locals>' in q:
                        continue
                    for (i, op) in candidates(fn):
                        allc.append({'file': rel, 'func': q, 'node': i, 'op': op})
        random.Random(seed).shuffle(allc)
        for c in allc[:mx]:
            print(json.dumps(c))
        print('# %d candidates in total' % len(allc), file=sys.stderr)
    elif cmd == 'apply':
        out, spec = sys.argv[3], json.loads(sys.argv[4])
        if os.path.exists(out):
            shutil.rmtree(out)
        shutil.copytree(pkg, out)
        p = os.path.join(out, spec['file'])
        tree = ast.parse(open(p).read())
        for q, fn in functions(tree):
            if q == spec['func']:
                nodes = body_nodes(fn)
                target = nodes[spec['node']]
                before = ast.unparse(target)[:80] if not isinstance(target, ast.stmt) else ast.unparse(target).split('\n')[0][:80]
                Apply(target, spec['op']).visit(fn)
                ast.fix_missing_locations(tree)
                open(p, 'w').write(ast.unparse(tree) + '\n')
                print(json.dumps({'before': before, 'line': getattr(target, 'lineno', None)}))
                return
        print('function not found', file=sys.stderr)
        sys.exit(3)


main()
