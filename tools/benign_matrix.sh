#!/bin/sh
# benign_matrix.sh: run EVERY property check against every behaviour-preserving refactor (scratch copies); print the
# (refactor, property) pairs that are not silent (VIOLATION / ANALYSIS-ERROR) and a count of UNRECOGNISED notices
cd /verif/seeded_benign
for id in $(ls); do
  D=$(mktemp -d /tmp/benall.XXXXXX)
  cp -r /repo/spatialmath "$D/spatialmath"
  ( cd "$D" && patch -s -p1 < /verif/seeded_benign/$id/patch.diff ) || { echo "$id patch failed"; rm -rf "$D"; continue; }
  # ALPHA=1: additionally rename every local variable of every function (tools/alpha_rename.py) on top of the refactoring
  if [ "$ALPHA" = 1 ]; then mv "$D/spatialmath" "$D/sm0"; /venv/bin/python /verif/tools/alpha_rename.py "$D/sm0" "$D/spatialmath" _q >/dev/null 2>&1; rm -rf "$D/sm0"; fi
  for p in C01 C02 C03 C04 C05 C06 C07 C08 C09 C10 C11 C12 C13 C14 C15 C16 C17 C18 C19 C20; do echo $p; done | \
    xargs -P 10 -I{} sh -c 'out=$(VERIF_EVIDENCE_DIR='"$D"'/ev_{} /verif/check {} --repo '"$D"' 2>&1); v=$(echo "$out" | grep -c "^VIOLATION"); e=$(echo "$out" | grep -c "^ANALYSIS-ERROR"); u=$(echo "$out" | grep -c "^UNRECOGNISED"); if [ "$v" != 0 ] || [ "$e" != 0 ] || [ "$u" != 0 ]; then echo "'"$id"' {} violations=$v errors=$e unrecognised=$u"; fi'
  rm -rf "$D"
done | sort
