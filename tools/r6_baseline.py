"""Regenerate design/r6_baseline.json from the CURRENT /repo tree (run by hand after reviewing the table)."""
import json, os, sys
sys.path.insert(0, os.path.dirname(os.path.dirname(os.path.abspath(__file__))))
from sa.report import Run
from sa.rules import r6_dispatch
from sa.rules.r6_dispatch import expected
run = Run('R6BASE')
table = r6_dispatch.run_r6(run)
cells = {}
for c, st in table.items():
    L, op, R = c.split(' ')
    if expected(op, L, R)[0] in ('raise', 'obj', 'plain') and st in ('holds', 'undecided'):
        cells[c] = st
json.dump({'_comment': 'must-raise and documented-result cells of the operator table as decided on the repaired tree; holds = decided by type dispatch alone; undecided = numeric kernel decides (reviewed by hand)', 'cells': cells}, open(os.path.join(os.path.dirname(os.path.dirname(os.path.abspath(__file__))), 'design', 'r6_baseline.json'), 'w'), indent=0, sort_keys=True)
print(len(cells), 'cells;', sum(1 for v in cells.values() if v == 'undecided'), 'undecided')
