#!/venv/bin/python
"""gen_locals.py: write design/locals.json -- for every function of the reviewed /repo tree, its locals in order of first binding with
their name-free fingerprints (see sa/localnames.py).  Run after a /repo change that was reviewed (a fix: commit); never at check time."""
import ast, json, os, sys
sys.path.insert(0, '/verif')
from sa.localnames import local_sequence
root = sys.argv[1] if len(sys.argv) > 1 else '/repo/spatialmath'
out = {}
for dp, _, files in os.walk(root):
    for fn in sorted(files):
        if not fn.endswith('.py'):
            continue
        p = os.path.join(dp, fn)
        short = os.path.relpath(p, root)[:-3]
        try:
            tree = ast.parse(open(p).read())
        except SyntaxError:
            continue

        def walk(node, prefix):
            for ch in ast.iter_child_nodes(node):
                if isinstance(ch, ast.ClassDef):
                    walk(ch, prefix + ch.name + '.')
                elif isinstance(ch, (ast.FunctionDef, ast.AsyncFunctionDef)):
                    seq = local_sequence(ch)
                    if seq:
                        out['%s:%s%s' % (short, prefix, ch.name)] = seq
                    walk(ch, prefix + ch.name + '.<locals>.')
                elif isinstance(ch, (ast.If, ast.Try, ast.With)):
                    walk(ch, prefix)
        walk(tree, '')
json.dump(out, open('/verif/design/locals.json', 'w'), indent=0, sort_keys=True)
print('%d functions with locals' % len(out))
