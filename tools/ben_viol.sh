#!/bin/sh
# ben_viol.sh <benign id> <property>: print the violation / unrecognised records the check produces on that refactor
ID="$1"; P="$2"
D=$(mktemp -d /tmp/benrun.XXXXXX)
cp -r /repo/spatialmath "$D/spatialmath"
( cd "$D" && patch -s -p1 < /verif/seeded_benign/$ID/patch.diff ) || { echo "patch failed"; rm -rf "$D"; exit 3; }
VERIF_EVIDENCE_DIR="$D/evidence" /verif/check $P --repo "$D" 2>&1 | grep "^UNRECOG\|^ANALYSIS" | cut -c1-400
for f in "$D"/evidence/replay/$P/*.json; do [ -f "$f" ] && /venv/bin/python -c "
import json,sys
d=json.load(open(sys.argv[1]))
print('VIOL', d.get('rule'), d.get('subject'), '|', d.get('construct'), '|', (d.get('msg') or '')[:700], '|', d.get('where'))
" "$f"; done
rm -rf "$D"
