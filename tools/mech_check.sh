#!/bin/sh
# mech_check.sh <mode>: apply one mechanical behaviour-preserving rewrite (tools/mech_refactor.py) to a scratch copy of the package,
# run the fast test subset on it (must be 2 failed, 224 passed) and all 20 checks; prints every non-silent line.
MODE="$1"
D=$(mktemp -d /tmp/mech.XXXXXX)
/venv/bin/python /verif/tools/mech_refactor.py "$MODE" /repo/spatialmath "$D/spatialmath" | tail -1
cp -r /repo/tests "$D/tests"
( cd "$D" && PYTHONPATH="$D" /venv/bin/python -W ignore -m pytest -q -p no:cacheprovider tests -k "not plot and not graphics and not animate" 2>&1 | tail -1 )
for p in C01 C02 C03 C04 C05 C06 C07 C08 C09 C10 C11 C12 C13 C14 C15 C16 C17 C18 C19 C20; do echo $p; done | \
  xargs -P 10 -I{} sh -c 'out=$(VERIF_EVIDENCE_DIR='"$D"'/ev_{} /verif/check {} --repo '"$D"' 2>&1); echo "$out" | grep "^UNRECOG\|^ANALYSIS" | cut -c1-230; for f in '"$D"'/ev_{}/replay/{}/*.json; do [ -f "$f" ] && /venv/bin/python -c "
import json,sys
d=json.load(open(sys.argv[1])); print(\"VIOL\", d[\"property\"], d[\"rule\"], d[\"subject\"], \"|\", d[\"construct\"][:60], \"|\", d[\"msg\"][:160])" "$f"; done' | sort | uniq
rm -rf "$D"
