#!/bin/sh
# run_seed.sh <seed-id> <check args...>: run ./check against a scratch copy of /repo with the seeded patch applied
ID="$1"; shift
D=$(mktemp -d /tmp/seedrun.XXXXXX)
cp -r /repo/spatialmath "$D/spatialmath"
( cd "$D" && git init -q . 2>/dev/null; patch -s -p1 < /verif/seeded/$ID/patch.diff ) || { echo "patch failed for $ID"; rm -rf "$D"; exit 3; }
VERIF_EVIDENCE_DIR="$D/evidence" /verif/check "$@" --repo "$D"; rc=$?
rm -rf "$D"
exit $rc
