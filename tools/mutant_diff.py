"""mutant_diff.py '<mutant json>': show the statement-level difference a mechanical mutant makes (development aid)."""
import ast, difflib, json, os, shutil, subprocess, sys, tempfile, warnings
warnings.simplefilter('ignore')
spec = sys.argv[1]
d = tempfile.mkdtemp(prefix='md.', dir='/tmp')
try:
    subprocess.run(['/venv/bin/python', '/verif/tools/mutate.py', 'apply', '/repo/spatialmath', d + '/spatialmath', spec], capture_output=True)
    rel = json.loads(spec)['file']
    a = ast.unparse(ast.parse(open('/repo/spatialmath/' + rel).read())).splitlines()
    b = ast.unparse(ast.parse(open(d + '/spatialmath/' + rel).read())).splitlines()
    for l in difflib.unified_diff(a, b, lineterm='', n=1):
        if l[:1] in '+-' and l[:3] not in ('+++', '---'):
            print(l[:220])
finally:
    shutil.rmtree(d, ignore_errors=True)
