"""Regenerate /verif/MANIFEST.json from the table below and the registered checks (sa.props.CHECKS)."""
import json
import os
import sys

V = os.path.dirname(os.path.dirname(os.path.abspath(__file__)))
sys.path.insert(0, V)
os.environ.setdefault('VERIF_REPO', '/repo')
from sa import props  # noqa

GEN = ('static analysis of the current source: %s. Each rule instance is a necessary structural condition of the '
       'property, decided on all paths of the analysed construct; the numerically quantified clauses of the property '
       '(tolerances, "for all angles") are not decided.')

META = {
    'C01': dict(text=GEN % 'closed-producer / normaliser / rotation-table rules (R12, R13, R15, R16); the transpose of a member is closed only where no SE(n) receiver is possible, also through the reaching definitions of a local list; a copy that keeps the dtype of one operand does not receive a product with another (R11c)', sec='4 C01',
                tech='AST term-table matching, must-pass-through (normaliser) dataflow, closed-producer rule at unchecked constructor sites'),
    'C02': dict(text=GEN % 'operand order of composition lambdas, division = product with inverse, structured-inverse tables, power/prod folds, information dependence of the logarithm used by twist composition, no hidden state in the classes involved (R15, R16, R17, R7, R9); a sum arm of the twist product needs commutation, which the angular parts alone do not decide', sec='4 C02',
                tech='AST term/word normalisation against mathematical tables, abstract interpretation of operator dispatch'),
    'C03': dict(text='static analysis of the structural core of the property only: abstract dispatch of every documented argument form of the Exp constructors to the whole-argument or per-element route; the general branch of the SO(3) logarithm composed with Rodrigues\' formula is the identity term by term; twist=True/False result pairs are vee/hat of each other; series terms of Ginv; closed forms of rodrigues/trexp/trexp2; half-turn axis depends on off-diagonals; routing with options; the division by sin(theta) lies behind a test of the divisor itself and behind the half-turn test (the identity test does not exclude acos(..) == 0: this found nan logarithms below 1e-8 rad); the planar logarithm is the closed form (atan2 through the writer table of rot2, theta V^-1 t divided by theta only under a test of theta) and never a general matrix logarithm (complex at a half turn: found and repaired); block tables of rt2tr/Ab2M/r2t/t2r/tr2rt. NOT decided: the accuracy statements as numbers (thresholds, 1e-7 agreement).', sec='5',
                tech='abstract interpretation of argument-form guards, writer/reader composition over polynomial normal forms, term tables, information-dependence rule'),
    'C04': dict(text=GEN % 'sibling constructors reduce to the same primitive, conversion routing, double-cover equality form, r2q composed with the q2r table, dual-quaternion pair integrity (R13, R16, R17, R19)', sec='4 C04',
                tech='sibling cross-check over resolved callees, term tables, symbolic writer/reader composition over polynomial normal forms'),
    'C05': dict(text=GEN % 'documented axis orders as rotation words, order-name tables agree, unit/flip/order threading, singular-branch agreement, term-by-term composition of tr2rpy/tr2eul with the rpy2r/eul2r words, double-cover parity of the quaternion accessors (R12, R10, R8, R16, R19)', sec='4 C05',
                tech='rotation-word abstract evaluation, writer/reader composition over polynomial normal forms (no evaluation, no solver), option-threading dataflow, parity analysis'),
    'C06': dict(text=GEN % 'lift-multiply-project and sandwich routes, operand integrity in the array branches, pose-left/point-right operand roles of every @, the unit-dual-quaternion route composed in the non-commutative quaternion algebra equals r p r~ + t over the pair (r, t r / 2) the constructor is shown to store and SE3() to read back, no hidden state in the classes involved (R16, R22, R9, R2, R1); the sign-normalised vector part q.vec3 is never paired with the stored scalar part of the same quaternion (R16s)', sec='4 C06',
                tech='routing patterns over resolved calls, reaching-definition check of operands'),
    'C07': dict(text=GEN % 'predicate atoms (R4), validation dominates every store into data (R5), constructors define state on every exit (R3), dual-mode transl/transl2 calls reached only with a vector argument (R20), caller data reaches no construction that skips the check (R15c transporters), a constructor argument that may be left out is used as a value only where it is known to be given (R10m), no silent None (R2)', sec='4 C07',
                tech='pattern-matched predicate atoms, must-pass-through dataflow on the CFG, typestate of constructors'),
    'C08': dict(text='static analysis: the finite operator x class x class table (10 operators, 21 kinds) is enumerated completely and each cell is decided by abstract interpretation of the resolved dunder bodies over the class-kind lattice, against the documented table; cells that depend on numeric shape tests are reported as undecided. Plus R6d (every value return of the pose x array branch is guarded by the pose dimension, which is what rejects coefficient arrays forwarded by unguarded reflected operators), R6g (every value return of a reflected operator is dominated by a type test of its left operand or hands the pair to the forward method), R6s (a same-class test written as isinstance(self, other.__class__) does not admit a base-class operand of the same element shape where that pair must raise) and R2/R1/R7 over every binary dunder.', sec='4 C08',
                tech='abstract interpretation of operator dispatch (MRO, reflected methods, three-valued isinstance) over class kinds; exhaustive table'),
    'C09': dict(text=GEN % 'four-case broadcasting structure of the two helpers, every vectorised operator reaches a helper, length guards and element kinds in per-value accessors, branch agreement, accessor slot table, element slices per concrete class, results built from the values of the receiver, two-operand zip under a length-equality fact (R8z), specialised arms of an operator compute the element operation of its general arm (R8f), list-valued accessors as truth values only under len(self) == 1 (R8t), comparison/arithmetic operators return the helper result, helper calls receive (left, right) in order (R7o), unit conversion reaches scalar and vector motion parameters alike (R10u) (R7, R8)', sec='4 C09',
                tech='guard-fact (must) dataflow on the CFG, element-kind abstract domain, call-graph reachability'),
    'C10': dict(text='static analysis: list equivalence by delegation -- index/slice delegate to list or slice.indices, class-equality and single-value guards dominate every list mutation, no list primitive overridden below UserList, Empty/Alloc/pop shapes; with CPython list/UserList trusted this implies equality with a Python list for every operation history.; an object never binds its element list to the element list of another object (container freshness)', sec='4 C10',
                tech='dominance (must-fact) analysis of guards before mutations, who-defines check over the MRO, delegation patterns'),
    'C11': dict(text=GEN % 'range guard on every value path, routing, shortest-arc block ordering, endpoint returns, norm-preserving return forms, linear translation form, the shortest test on every path to the angle, shape typestate of the branches (R14, R16, R20, R2)', sec='4 C11',
                tech='must-pass-through and ordering analysis on the CFG, return-form classification'),
    'C12': dict(text=GEN % 'product / conjugate / matrix / rate / dual-product / minimal-vector-product term tables, sum and difference forms, power fold shape, sign dependence of the logarithm every quaternion class resolves to, operand order of the broadcasting helper calls (R16, R15, R17, R7o)', sec='4 C12',
                tech='polynomial/term-table normalisation of literal matrices and vector expressions'),
    'C13': dict(text=GEN % 'skew/vex/skewa/vexa writer-reader tables, adjoint/Jacobian blocks in 3D and the SE(2) adjoint table with each shape tested once, differential-motion group words, closed group inverse/power, dtype source of allocated results (R16, R7, R15c, R1, R11a)', sec='4 C13',
                tech='term tables, group-word abstract evaluation (inverse/transposition/product order)'),
    'C14': dict(text=GEN % 'normaliser forms and selectors, every stacked column normalised after the cross products, planar frame table of trnorm2, definitions of the zero/unit predicates the selectors branch on, routing of norm()/unit (R16, R13, R4, R1)', sec='4 C14',
                tech='return-form classification, must-pass-through (unitvec) on constructed columns'),
    'C15': dict(text=GEN % 'normaliser dominance for every array_like parameter (a raw argument as the return value included), dimension enforced, the contract of the normaliser root getvector itself (conversion dtype, default, length test before every return: R10g), unit/order option threading with single conversion, sibling arms forward the same options (R10c), None-belief (R10m), else-raise, no unconstrained-length vector reaches a broadcasting slice store (R10, R2, R3); after the getunit conversion no branch on the unit option computes anything (R10v), also for a unit forwarded positionally', sec='4 C15',
                tech='taint/must-pass-through dataflow from documented array_like parameters, option-threading and double-conversion analysis'),
    'C16': dict(text=GEN % 'no numeric-only primitive on symbol-tainted values in SymPy-marked call trees; object-dtype-aware conversion in the vector normaliser; a vectorize kernel returns one kind on every path reachable with SymPy available (R11v); shared SO/SE methods treat elements uniformly; closed-form determinant equals the Leibniz expansion (R11, R18, R16)', sec='4 C16',
                tech='interprocedural taint analysis from :SymPy: supported marks to numeric-only sinks'),
    'C17': dict(text='static analysis: whole-package may-alias effect analysis with function summaries to a fixpoint; no in-place write can reach storage that may alias a parameter, the receiver of a non-mutating method or module state; random sources only in the documented random constructors. This is the structural content of the property; nothing is executed.', sec='4 C17',
                tech='interprocedural may-alias / effect (purity) dataflow analysis'),
    'C18': dict(text=GEN % 'twist constructor/accessor tables, unit conversion reaches every use of theta in exp, element slices of the prismatic/revolute/unit predicates per concrete class, those list-valued predicates used as a truth value only under len(self) == 1 (R8t), definitions of the zero/unit predicates, reflected scalar product (R16, R10, R6, R8, R4)', sec='4 C18',
                tech='term tables, must-pass-through (getunit) dataflow, operator table'),
    'C19': dict(text=GEN % 'one moment convention and one plane convention across writers and readers, sign-invariance of the parallelism test, point/column branch agreement with the caller tolerance, line-plane intersection point and parameter and line-line distance composed with the class conventions in component-wise vector algebra, no hidden state (R16, R23, R10r, R9); the layout of a point array is not chosen from one dimension (R20t)', sec='4 C19',
                tech='term tables with sign (parity) analysis under negation of an operand'),
    'C20': dict(text=GEN % 'typed guards dominate the arithmetic, cross/adjoint/inertia tables, constructor form tests on the raw argument, no hidden state in the pose/twist classes whose adjoint is applied (R16, R7, R9)', sec='4 C20',
                tech='guard dominance, literal 6x6 table comparison, operator table'),
}
NA = {}

props_all = [json.loads(l)['id'] for l in open(os.path.join(V, 'properties.jsonl'))]
checks = []
na = []
for pid in props_all:
    if pid in props.CHECKS and pid in META:
        m = META[pid]
        checks.append({
            'property_id': pid,
            'quick_cmd': './check %s --tier quick' % pid,
            'thorough_cmd': './check %s --tier thorough' % pid,
            'evidence_file': 'evidence/%s.json' % pid,
            'replay_cmd_template': './check --replay {path}',
            'engine': 'sa',
            'level_claimed': {'category': 'other', 'text': m['text'], 'design_ref': 'DESIGN.md section ' + m['sec']},
            'level_note': 'trusted: CPython ast parser; the analyser\'s model of Python scoping/MRO/operator dispatch; numpy view/copy table (C17); frozen tables in sa/rules (each entry with its reason). Assumes the numerical kernels are exercised elsewhere: a clean run means the structural preconditions hold on every path, not that the property holds numerically.',
            'technique': m['tech'],
        })
    else:
        na.append({'property_id': pid, 'reason': NA.get(pid, 'rules for this property are not built yet (DESIGN.md section 9); not claimed')})

fixes = os.popen("git -C /repo log --format=%h --grep='^fix:' 9631893..HEAD").read().split()
man = {
    'version': 1,
    'setup_cmd': './check --selfcheck',
    'hooks': {
        'guard': 'SPATIALMATH_VERIF',
        'enable': 'none needed: the checks read /repo\'s source with ast; nothing from the repository is imported or executed, so no instrumentation exists',
        'baseline_off_cmd': 'cd /repo && /venv/bin/python -m pytest -ra -q -p no:cacheprovider --timeout=900 --continue-on-collection-errors',
        'source_commits': list(reversed(fixes)),
        'add_only': False,
    },
    'engines': [{'name': 'sa', 'path': 'sa/', 'serves_properties': [c['property_id'] for c in checks],
                 'kind_free_text': 'repository-specific static analyser in pure stdlib Python: source model with star-import closure and MRO, statement CFG, reaching-definition / must-fact / may-alias dataflow, abstract interpretation of operator dispatch, expression pattern and term-table matcher'}],
    'checks': checks,
    'not_applicable': na,
    'notes': 'All checks are static (family: static analysis). hooks.source_commits lists the unguarded "fix:" repairs of genuine defects found by the checks (see known_findings.json); there are no guarded hooks. A construct whose shape no rule recognises is reported as an UNRECOGNISED line and counted as undecided (exit code unchanged; VERIF_STRICT_FORMS=1 makes it fatal); a broken analysis (vanished anchor, instance floor, lost twin) exits 2 with an ANALYSIS-ERROR line, never a VIOLATION line.',
}
json.dump(man, open(os.path.join(V, 'MANIFEST.json'), 'w'), indent=1)
print('checks:', [c['property_id'] for c in checks], 'na:', [n['property_id'] for n in na], 'fix commits:', len(fixes))
