"""try_edit.py <relative file under spatialmath> <old> <new> [Cxx ...]: development aid.  Apply one textual edit to a scratch copy of
/repo/spatialmath, run the given checks (default all 20) against it and print their report lines; the copy is removed afterwards."""
import os, shutil, subprocess, sys, tempfile
from concurrent.futures import ThreadPoolExecutor
rel, old, new = sys.argv[1:4]
pids = sys.argv[4:] or ['C%02d' % i for i in range(1, 21)]
d = tempfile.mkdtemp(prefix='try.', dir='/tmp')
try:
    shutil.copytree('/repo/spatialmath', d + '/spatialmath')
    p = os.path.join(d, 'spatialmath', rel)
    s = open(p).read()
    old = old.encode().decode('unicode_escape'); new = new.encode().decode('unicode_escape')
    if s.count(old) != 1:
        sys.exit('old text occurs %d times' % s.count(old))
    open(p, 'w').write(s.replace(old, new))
    compile(open(p).read(), p, 'exec')

    def run(pid):
        env = dict(os.environ, VERIF_EVIDENCE_DIR=d + '/ev_' + pid)
        r = subprocess.run(['/verif/check', pid, '--repo', d], capture_output=True, text=True, env=env)
        return pid, r.returncode, [l[:260] for l in (r.stdout + r.stderr).splitlines() if l.startswith(('UNRECOG', 'ANALYSIS')) or ('[R' in l and not l.startswith('KNOWN-FINDING'))]
    with ThreadPoolExecutor(8) as ex:
        for pid, rc, lines in ex.map(run, pids):
            if rc or lines:
                print(pid, 'exit', rc)
                for l in lines:
                    print('   ', l)
finally:
    shutil.rmtree(d, ignore_errors=True)
