#!/bin/sh
# reverify_seed.sh <seed-id> [tests]: does the stored seed still apply to /repo's HEAD and still break the property there?
# The demo is run from <scratch>/seed/demo.py so that demos which locate the package relative to themselves find the scratch copy.
ID="$1"
D=$(mktemp -d /tmp/reverify.XXXXXX)
cp -r /repo/spatialmath /repo/tests "$D/" 2>/dev/null
mkdir -p "$D/seed"; cp /verif/seeded/$ID/demo.py "$D/seed/demo.py"
cd "$D"
PYTHONPATH="$D" /venv/bin/python -W ignore seed/demo.py >/dev/null 2>&1; C=$?
if patch -s -p1 < /verif/seeded/$ID/patch.diff >/dev/null 2>&1; then A=applies; else A=CONFLICT; fi
PYTHONPATH="$D" /venv/bin/python -W ignore seed/demo.py >/dev/null 2>&1; B=$?
T=""
if [ "$2" = "tests" ]; then T=$(cd "$D" && /venv/bin/python -W ignore -m pytest -q -p no:cacheprovider tests -k "not plot and not graphics and not animate" 2>&1 | tail -1); fi
echo "$ID: patch $A; demo on HEAD exit=$C; demo with seed exit=$B $T"
cd /; rm -rf "$D"
