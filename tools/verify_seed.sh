#!/bin/sh
# verify_seed.sh <worktree> <seed-id>: confirm a seeded change (tests unchanged, demo fails with / passes without),
# store it under /verif/seeded/<seed-id>/ and remove the worktree.
WT="$1"; ID="$2"
set -e
[ -f "$WT/seed/patch.diff" ] || { echo "no patch in $WT"; exit 3; }
cd "$WT"
git checkout -q -- spatialmath 2>/dev/null || true
git apply --check seed/patch.diff
export PYTHONPATH="$WT"
/venv/bin/python -W ignore seed/demo.py >/tmp/vs_$ID.clean 2>&1 && C=0 || C=$?
git apply seed/patch.diff
/venv/bin/python -W ignore seed/demo.py >/tmp/vs_$ID.bad 2>&1 && B=0 || B=$?
T=$(/venv/bin/python -W ignore -m pytest -q -p no:cacheprovider tests -k "not plot and not graphics and not animate" 2>&1 | tail -1)
FAILS=$(/venv/bin/python -W ignore -m pytest -q -p no:cacheprovider tests -k "not plot and not graphics and not animate" 2>&1 | grep "^FAILED" | sort | tr '\n' ' ')
echo "$ID: demo clean exit=$C, demo with change exit=$B, tests: $T"
echo "   failing: $FAILS"
OK=0
[ "$C" = 0 ] && [ "$B" = 1 ] && echo "$T" | grep -q "2 failed, 224 passed" && OK=1
mkdir -p /verif/seeded/$ID
cp seed/patch.diff seed/demo.py /verif/seeded/$ID/
/venv/bin/python - "$ID" "$C" "$B" "$T" "$OK" <<'P'
import json,sys
i,c,b,t,ok=sys.argv[1:6]
try: m=json.load(open('seed/meta.json'))
except Exception as e: m={'meta_error':str(e)}
m['verified']={'demo_exit_without_change':int(c),'demo_exit_with_change':int(b),'fast_tests_with_change':t.strip(),
  'confirmed':ok=='1','how':'tools/verify_seed.sh: demo run with PYTHONPATH=<scratch worktree> before/after git apply; pytest -k "not plot and not graphics and not animate"'}
json.dump(m,open('/verif/seeded/%s/meta.json'%i,'w'),indent=1)
P
rm -f /tmp/vs_$ID.clean /tmp/vs_$ID.bad
cd /; git -C /repo worktree remove --force "$WT"; rm -f "$WT.prompt"
[ "$OK" = 1 ] || { echo "   NOT CONFIRMED"; exit 1; }
