#!/bin/sh
# mutation_run.sh <N> [seed] [outfile]: development aid.  For the first N mechanical mutants (tools/mutate.py, shuffled with the seed):
#   1. fast test subset on the mutant -- killed by the tests => not a "realistic change that passes the tests", skipped;
#   2. all 20 quick checks on the survivor -- which properties report a VIOLATION;
#   3. if no check fires: the stored demos (seeded/*/demo.py, seeded_benign/*/demo.py; all exit 0 on the clean tree) are run on the
#      mutant as behavioural oracles -- a failing demo of property P on a mutant that no check flags is a concrete miss to look at.
# One JSON line per mutant is appended to the outfile.  Nothing here is part of a registered check.
N="$1"; SEED="${2:-1}"; OUT="${3:-/tmp/mut/results.jsonl}"
export OMP_NUM_THREADS=1 OPENBLAS_NUM_THREADS=1 MKL_NUM_THREADS=1
mkdir -p /tmp/mut
# FUNC=<regex>: only mutants of functions whose qualified name matches (all of them, shuffled, then the first N)
if [ -n "$FUNC" ]; then
  /venv/bin/python /verif/tools/mutate.py list /repo/spatialmath --seed "$SEED" 2>/dev/null | grep '^{' | grep -E "\"func\": \"($FUNC)\"" | head -n "$N" > /tmp/mut/list_$SEED.jsonl
else
  /venv/bin/python /verif/tools/mutate.py list /repo/spatialmath --seed "$SEED" --max "$N" 2>/dev/null | grep '^{' > /tmp/mut/list_$SEED.jsonl
fi
awk '$3<8 {print $1}' /tmp/mut/demo_times.txt > /tmp/mut/fast_demos.txt
i=0
while IFS= read -r spec; do
  i=$((i+1))
  D=$(mktemp -d /tmp/mut/m.XXXXXX)
  info=$(/venv/bin/python /verif/tools/mutate.py apply /repo/spatialmath "$D/spatialmath" "$spec" 2>/dev/null) || { rm -rf "$D"; continue; }
  cp -r /repo/tests "$D/tests"
  T=$(cd "$D" && PYTHONPATH="$D" timeout 300 /venv/bin/python -W ignore -m pytest -q -x -p no:cacheprovider tests -k "not plot and not graphics and not animate" --deselect tests/base/test_symbolic.py::Test_symbolic::test_constants --deselect tests/base/test_symbolic.py::Test_symbolic::test_functions 2>&1 | tail -1)
  case "$T" in
    *"224 passed"*) ;;
    *) echo "{\"spec\": $spec, \"info\": $info, \"tests\": \"killed\"}" >> "$OUT"; rm -rf "$D"; continue;;
  esac
  fired=$(for p in C01 C02 C03 C04 C05 C06 C07 C08 C09 C10 C11 C12 C13 C14 C15 C16 C17 C18 C19 C20; do echo $p; done | \
    xargs -P 16 -I{} sh -c 'out=$(VERIF_EVIDENCE_DIR='"$D"'/ev_{} /verif/check {} --repo '"$D"' 2>&1); rc=$?; v=$(echo "$out" | grep -c "^VIOLATION"); e=$(echo "$out" | grep -c "^ANALYSIS-ERROR"); u=$(echo "$out" | grep -c "^UNRECOGNISED"); [ "$v" != 0 ] && echo "{}:V"; [ "$e" != 0 ] && echo "{}:E"; [ "$u" != 0 ] && echo "{}:U"; true' | sort | tr '\n' ' ')
  failing=""
  case "$fired" in
    *:V*) ;;
    *) failing=$(cat /tmp/mut/fast_demos.txt | xargs -P 16 -I{} sh -c 'id={}; if [ -f /verif/seeded/$id/demo.py ]; then d=/verif/seeded/$id/demo.py; else d=/verif/seeded_benign/$id/demo.py; fi; S=$(mktemp -d '"$D"'/s.XXXXXX); mkdir $S/seed; cp $d $S/seed/demo.py; ln -s '"$D"'/spatialmath $S/spatialmath; (cd $S && PYTHONPATH=$S timeout 60 /venv/bin/python -W ignore seed/demo.py >/dev/null 2>&1) || echo $id; rm -rf $S' | sort | tr '\n' ' ');;
  esac
  echo "{\"spec\": $spec, \"info\": $info, \"tests\": \"survived\", \"fired\": \"$fired\", \"failing_demos\": \"$failing\"}" >> "$OUT"
  rm -rf "$D"
done < /tmp/mut/list_$SEED.jsonl
echo "done $i mutants"
