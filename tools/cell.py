import sys; sys.path.insert(0,'/verif')
from sa.model import program
from sa.rules.r6_dispatch import *
p=program(); I=Interp(p)
for spec in sys.argv[1:]:
    L,op,R=spec.split(',')
    lv=V('obj',L) if L in LIB else PRIMV[L]; rv=V('obj',R) if R in LIB else PRIMV[R]
    ocs=dispatch(I,op,lv,rv)
    print(spec, expected(op,L,R)[:-1], ocs, verdict(op,L,R,expected(op,L,R),ocs))
