#!/venv/bin/python
"""alpha_rename.py <src package dir> <dst package dir> [suffix] [only-file-substring]
Mechanical negative control: writes a copy of the package in which every local variable of every function (assigned names, loop and
comprehension variables; not parameters, not global/nonlocal names) is consistently renamed to <name><suffix>.  Behaviour is unchanged
(alpha-conversion); every check must stay silent on the result."""
import ast, os, sys, shutil

src, dst = sys.argv[1], sys.argv[2]
suffix = sys.argv[3] if len(sys.argv) > 3 else '_r'
only = sys.argv[4] if len(sys.argv) > 4 else ''


def local_names(fn):
    params = {a.arg for a in fn.args.args + fn.args.kwonlyargs + fn.args.posonlyargs}
    if fn.args.vararg:
        params.add(fn.args.vararg.arg)
    if fn.args.kwarg:
        params.add(fn.args.kwarg.arg)
    banned = set(params)
    stored = set()
    for n in ast.walk(fn):
        if isinstance(n, (ast.Global, ast.Nonlocal)):
            banned |= set(n.names)
        if n is not fn and isinstance(n, (ast.FunctionDef, ast.AsyncFunctionDef, ast.Lambda)):
            a = n.args
            banned |= {x.arg for x in a.args + a.kwonlyargs + a.posonlyargs}
            if isinstance(n, ast.FunctionDef):
                banned.add(n.name)
                # locals of nested functions are handled when that function is visited; do not touch names they store
                for m in ast.walk(n):
                    if isinstance(m, ast.Name) and isinstance(m.ctx, ast.Store):
                        banned.add(m.id)
        if isinstance(n, ast.ClassDef):
            banned.add(n.name)
        if isinstance(n, (ast.Import, ast.ImportFrom)):
            for al in n.names:
                banned.add((al.asname or al.name).split('.')[0])
        if isinstance(n, ast.ExceptHandler) and n.name:
            banned.add(n.name)
    for n in ast.walk(fn):
        if isinstance(n, ast.Name) and isinstance(n.ctx, (ast.Store, ast.Del)):
            stored.add(n.id)
    return {x for x in stored - banned if not x.startswith('__')}


class Ren(ast.NodeTransformer):
    def __init__(self, names):
        self.names = names

    def visit_Name(self, n):
        if n.id in self.names:
            n.id = n.id + suffix
        return n


count = 0
if os.path.exists(dst):
    shutil.rmtree(dst)
shutil.copytree(src, dst)
for root, _, files in os.walk(dst):
    for fnm in files:
        if not fnm.endswith('.py'):
            continue
        p = os.path.join(root, fnm)
        if only and only not in p:
            continue
        try:
            tree = ast.parse(open(p).read())
        except SyntaxError:
            continue
        # innermost functions first
        fns = [n for n in ast.walk(tree) if isinstance(n, (ast.FunctionDef, ast.AsyncFunctionDef))]
        for fn in reversed(fns):
            names = local_names(fn)
            if names:
                Ren(names).visit(fn)
                count += len(names)
        open(p, 'w').write(ast.unparse(tree) + '\n')
print('renamed %d locals' % count)
