"""fix.py <file> <<< JSON [{"old":..., "new":...}]  -- exact single replacement(s) in /repo file"""
import sys, json
path = sys.argv[1]
edits = json.load(sys.stdin)
s = open(path).read()
for e in edits:
    assert s.count(e['old']) == 1, (s.count(e['old']), e['old'])
    s = s.replace(e['old'], e['new'])
open(path, 'w').write(s)
