"""Emit the prompt given to an independent sub-agent that seeds a property-breaking change.
usage: seed_prompt.py C07 /tmp/wt/C07a   (prints prompt; contains ONLY the property text + worktree)"""
import json,sys
pid,wt=sys.argv[1],sys.argv[2]
extra=sys.argv[3] if len(sys.argv)>3 else ''
p=[json.loads(l) for l in open('/verif/properties.jsonl') if json.loads(l)['id']==pid][0]
print(f"""You are helping to evaluate a verification tool. Your job is to act as a realistic source of bugs.

You have your own scratch git worktree of the Python library `spatialmath-python` at `{wt}` (a checkout of the library's current HEAD; package source under `{wt}/spatialmath/`, tests under `{wt}/tests/`). Work ONLY inside `{wt}`. Never read or write anything under /repo or /verif, never commit, never create branches.

Here is a semantic property that the library is supposed to satisfy:

  Property {p['id']}: {p['title']}
  Statement: {p['statement']}
  Quantified over: {p['quantifier']['text']}

TASK. Make ONE small, realistic change to the library source under `{wt}/spatialmath/` (the kind of slip a maintainer could make in a refactor, optimisation, "cleanup" or feature commit: a few lines, one or two sites) such that:
  1. the library still imports and the existing test suite still passes exactly as before;
  2. the property above is now violated for SOME input/sequence, where it held before your change (the current code is not perfect: part of the behaviour described by the property may already be broken at HEAD -- pick behaviour that demonstrably WORKS at HEAD, and break it);
  3. the violation needs something specific to manifest -- an unusual input (special angle, particular container form, multi-valued object, negative index, particular operand-class pair, particular option value ...), a multi-step sequence of operations, a rarely taken branch, or two cooperating sites that each look fine alone -- NOT something that ordinary use or the existing tests would expose at once. Avoid changes that only alter a numeric tolerance/epsilon constant; prefer changes in logic, structure, ordering, sign, operand, option handling, validation, aliasing/in-place mutation, dispatch, or bookkeeping, whichever suits this property.{extra}

HOW TO RUN THINGS (no network; do not pip install anything):
  * interpreter: /venv/bin/python . Run everything with `{wt}` as the current directory so that `import spatialmath` picks up YOUR worktree (check with `/venv/bin/python -c "import spatialmath; print(spatialmath.__file__)"`).
  * test suite (fast subset, ~8 s; the 6 deselected plotting tests take 30 minutes and are irrelevant):
      cd {wt} && /venv/bin/python -m pytest -q -p no:cacheprovider tests -k "not plot and not graphics and not animate"
    At HEAD this gives `2 failed, 224 passed` -- the 2 failures (tests/base/test_symbolic.py test_constants, test_functions) are pre-existing. With your change the result must be identical (same 224 passing, same 2 failing).
  * do not edit anything under `{wt}/tests/`.

DELIVERABLES -- create the directory `{wt}/seed/` containing exactly:
  * `patch.diff`  : output of `git -C {wt} diff -- spatialmath` (your change to the library only);
  * `demo.py`     : a small standalone program (no pytest needed) that exercises the library and exits 0 when the property holds for the inputs it tries and exits 1 (printing what went wrong) when it is violated. It MUST exit 0 on the unmodified HEAD source and exit 1 with your change applied. Run it as `cd {wt} && /venv/bin/python seed/demo.py`. Verify both directions yourself (use `git apply -R seed/patch.diff` then `git apply seed/patch.diff`; do NOT use `git stash`: the stash is shared between worktrees and other agents run concurrently), and leave the worktree WITH your change applied at the end.
  * `meta.json`   : {{"property": "{p['id']}", "summary": "<one sentence: what you changed>", "needs": "<what specific input / sequence / condition is needed for the violation to manifest>", "files": ["spatialmath/..."], "ran": ["<the exact commands you ran to confirm: tests with change, demo with change (exit 1), demo without change (exit 0)>"], "test_result_with_change": "<pytest summary line>"}}

Finish by reporting, in a few lines: the change, why tests do not notice, and the outputs of the three confirmations. Do not write anything else outside `{wt}`.""")
