#!/bin/sh
# mutant_check.sh '<mutant json>' [Cxx ...]: apply one mechanical mutant (tools/mutate.py) to a scratch copy and run the given checks (default all)
SPEC="$1"; shift
D=$(mktemp -d /tmp/mut1.XXXXXX)
/venv/bin/python /verif/tools/mutate.py apply /repo/spatialmath "$D/spatialmath" "$SPEC" 2>/dev/null
[ $# = 0 ] && set -- C01 C02 C03 C04 C05 C06 C07 C08 C09 C10 C11 C12 C13 C14 C15 C16 C17 C18 C19 C20
for p in "$@"; do VERIF_EVIDENCE_DIR="$D/ev" /verif/check $p --repo "$D" 2>&1 | grep "^UNRECOG\|^ANALYSIS\|\[R" | grep -v "^KNOWN-FINDING" | cut -c1-260; done
rm -rf "$D"
