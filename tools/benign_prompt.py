"""Emit the prompt for an independent sub-agent that makes a BEHAVIOUR-PRESERVING refactor in the code behind a property
(a negative control: the checks must stay silent on it).  usage: benign_prompt.py C07 /tmp/wt/C07n"""
import json,sys
pid,wt=sys.argv[1],sys.argv[2]
extra=sys.argv[3] if len(sys.argv)>3 else ""
p=[json.loads(l) for l in open('/verif/properties.jsonl') if json.loads(l)['id']==pid][0]
print(f"""You are helping to evaluate a verification tool. Your job is to act as a careful maintainer doing a harmless cleanup.

You have your own scratch git worktree of the Python library `spatialmath-python` at `{wt}` (package source under `{wt}/spatialmath/`, tests under `{wt}/tests/`). Work ONLY inside `{wt}`. Never read or write anything under /repo or /verif, never commit, never create branches.

Here is a semantic property that the library satisfies and MUST STILL SATISFY after your change:

  Property {p['id']}: {p['title']}
  Statement: {p['statement']}

TASK. Make ONE realistic, BEHAVIOUR-PRESERVING refactoring commit (10-40 changed lines, one to three functions) in the library code that implements the behaviour described by this property -- the kind of cleanup a maintainer really does: rename local variables, reorder independent statements, introduce or inline a local variable, extract a small private helper or inline one, replace an idiom by an exactly equivalent one (e.g. an if/elif chain by early returns, a loop by a comprehension, `a if c else b`, De Morgan on a condition, `np.r_[...]` by `np.array([...])`, `x @ y` by `np.matmul(x, y)`, a tuple membership test for an `or` of equalities), tidy comments and docstrings, split a long expression into named parts. The change must NOT alter any observable behaviour: same results (bit-for-bit or to rounding), same exceptions for the same inputs, same mutation/aliasing behaviour, same accepted argument forms. Do not fix bugs, do not change tolerances, do not add features.{extra}

HOW TO RUN THINGS (no network; do not pip install anything):
  * interpreter: /venv/bin/python . A script under `{wt}/seed/` must insert the worktree root into sys.path itself (sys.path.insert(0, <worktree root>)) so that `import spatialmath` picks up YOUR worktree.
  * test suite (fast subset, ~8 s): cd {wt} && /venv/bin/python -m pytest -q -p no:cacheprovider tests -k "not plot and not graphics and not animate"
    At HEAD this gives `2 failed, 224 passed` (2 pre-existing failures in tests/base/test_symbolic.py). With your change the result must be identical.
  * do not edit anything under `{wt}/tests/`.

DELIVERABLES -- create the directory `{wt}/seed/` containing exactly:
  * `patch.diff`  : output of `git -C {wt} diff -- spatialmath`;
  * `demo.py`     : a standalone program that exercises the refactored functions on MANY inputs (random and edge cases, all argument forms and branches you touched, including error cases) and compares the results with reference values computed independently of the refactored code (for example with numpy/scipy formulas, or with values recorded as literals); it exits 0 when everything agrees and 1 otherwise. It must exit 0 both WITHOUT and WITH your change (run it both ways with `git diff -- spatialmath > seed/patch.diff; git apply -R seed/patch.diff; ...; git apply seed/patch.diff`; do NOT use `git stash`: the stash is shared between worktrees and other agents run concurrently). Leave the worktree WITH your change applied.
  * `meta.json`   : {{"property": "{p['id']}", "summary": "<what you refactored and how>", "files": ["spatialmath/..."], "why_equivalent": "<argument that behaviour is unchanged>", "test_result_with_change": "<pytest summary line>"}}

Finish by reporting in a few lines what you changed and the outputs of the confirmations.""")
