#!/bin/sh
# run_benign.sh <id> <check args...>: run ./check against a scratch copy of /repo with the behaviour-preserving patch applied
ID="$1"; shift
D=$(mktemp -d /tmp/benrun.XXXXXX)
cp -r /repo/spatialmath "$D/spatialmath"
( cd "$D" && patch -s -p1 < /verif/seeded_benign/$ID/patch.diff ) || { echo "patch failed for $ID"; rm -rf "$D"; exit 3; }
VERIF_EVIDENCE_DIR="$D/evidence" /verif/check "$@" --repo "$D"; rc=$?
rm -rf "$D"
exit $rc
