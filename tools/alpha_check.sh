#!/bin/sh
# alpha_check.sh [suffix] [only-file-substring]: mechanical negative control -- rename every local variable of every function
# (tools/alpha_rename.py) in a scratch copy of /repo/spatialmath and run all 20 checks on it; prints every non-silent line.
SUF="${1:-_r}"; ONLY="$2"
D=$(mktemp -d /tmp/alpha.XXXXXX)
/venv/bin/python /verif/tools/alpha_rename.py /repo/spatialmath "$D/spatialmath" "$SUF" "$ONLY" | tail -1
for p in C01 C02 C03 C04 C05 C06 C07 C08 C09 C10 C11 C12 C13 C14 C15 C16 C17 C18 C19 C20; do echo $p; done | \
  xargs -P 10 -I{} sh -c 'out=$(VERIF_EVIDENCE_DIR='"$D"'/ev_{} /verif/check {} --repo '"$D"' 2>&1); echo "$out" | grep "^UNRECOG\|^ANALYSIS" | cut -c1-230; for f in '"$D"'/ev_{}/replay/{}/*.json; do [ -f "$f" ] && /venv/bin/python -c "
import json,sys
d=json.load(open(sys.argv[1])); print(\"VIOL\", d[\"property\"], d[\"rule\"], d[\"subject\"], \"|\", d[\"construct\"][:60], \"|\", d[\"msg\"][:160])" "$f"; done' | sort | uniq
rm -rf "$D"
