"""kf_add.py <status> <commit|-> <properties,comma> <what> <key>  : add/update an entry of known_findings.json"""
import json, sys, os
p = os.path.join(os.path.dirname(os.path.dirname(os.path.abspath(__file__))), 'known_findings.json')
d = json.load(open(p)) if os.path.exists(p) else {"_comment": "Committed list of genuine defects found by the checks. status=known: reported as KNOWN-FINDING (exit 0); status=fixed: repaired in /repo by the given fix: commit, suppresses nothing. Never written at run time.", "findings": []}
status, commit, props, what, key = sys.argv[1:6]
e = [x for x in d['findings'] if x['key'] == key]
ent = e[0] if e else {}
ent.update({'key': key, 'properties': sorted(set(ent.get('properties', []) + props.split(','))), 'what': what, 'status': status})
if commit != '-':
    ent['commit'] = commit
    ent['record'] = 'fixed: property=%s %s %s' % (ent['properties'][0], commit, what)
if not e:
    d['findings'].append(ent)
json.dump(d, open(p, 'w'), indent=1)
