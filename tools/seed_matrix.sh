#!/bin/sh
# seed_matrix.sh [tier]: run every seeded change against the check of its own property (scratch copies, 8 at a time)
TIER="${1:-quick}"
cd /verif/seeded
ls | xargs -P 8 -I{} sh -c 'id={}; p=$(echo $id | cut -c1-3); out=$(/verif/tools/run_seed.sh $id $p --tier '"$TIER"' 2>&1); rc=$?; v=$(echo "$out" | grep -c "^VIOLATION"); e=$(echo "$out" | grep -c "^ANALYSIS-ERROR"); rules=$(echo "$out" | grep -o "\[R[0-9A-Za-z]*/[^]]*\]" | sort -u | tr "\n" " "); echo "$id exit=$rc violations=$v errors=$e $rules"' | sort
