#!/venv/bin/python
"""mech_refactor.py <mode> <src package dir> <dst package dir>
Mechanical behaviour-preserving rewrites of the WHOLE package (negative controls; every check must stay silent on the result):
  ifswap    if c: A else: B          ->  if not c: B else: A            (plain else, not an elif chain)
  early     if c: ..return else: B   ->  if c: ..return ; B             (the if-arm always leaves the block)
  matmul    a @ b                    ->  np.matmul(a, b)                 (modules that import numpy as np)
  transpose x.T                      ->  np.transpose(x)
  tmp       return E                 ->  result_ = E; return result_     (E not a name / constant)
  kw2pos    f(a, k=b)                ->  f(a, b)     when k is the next positional parameter of the unique package function f
  pos2kw    f(a, b)                  ->  f(a, k=b)   for parameters of f that have a default
  neq       a != b / a is not b      ->  not a == b / not a is b
  elif      elif chains              ->  nested else: if
  comp2loop name = [E for t in it]   ->  name = []; for t in it: name.append(E)   (also for a comprehension that is the first argument of a returned call)
  isinst    isinstance(x, (A, B))    ->  isinstance(x, A) or isinstance(x, B)
  nestand   if a and b: X            ->  if a: if b: X                    (no else)
  intuple   x == 'a' or x == 'b'     ->  x in ('a', 'b')
  typeself  x.__class__              ->  type(x)
  ternary   if c: x = A else: x = B   ->  x = A if c else B      (also for two returns)
  extract   return F(G(..), ..)      ->  arg_ = G(..); return F(arg_, ..)
  inline    x = E; S(x)              ->  S(E)       (single-assignment, single-use local read in the next statement)
  all       every mode above, one after the other"""
import ast, os, sys, shutil

mode, src, dst = sys.argv[1], sys.argv[2], sys.argv[3]


def package_signatures(root):
    sigs = {}
    for dp, _, files in os.walk(root):
        for fn in files:
            if fn.endswith('.py'):
                try:
                    t = ast.parse(open(os.path.join(dp, fn)).read())
                except SyntaxError:
                    continue
                for n in t.body:
                    if isinstance(n, ast.FunctionDef) and n.args.vararg is None and n.args.kwarg is None:
                        sigs.setdefault(n.name, []).append(([a.arg for a in n.args.args], len(n.args.defaults)))
    return {k: v[0] for k, v in sigs.items() if len(v) == 1}


def exits(body):
    if not body:
        return False
    last = body[-1]
    if isinstance(last, (ast.Return, ast.Raise, ast.Continue, ast.Break)):
        return True
    if isinstance(last, ast.If) and last.orelse:
        return exits(last.body) and exits(last.orelse)
    return False


class IfSwap(ast.NodeTransformer):
    def visit_If(self, n):
        self.generic_visit(n)
        if n.orelse and not (len(n.orelse) == 1 and isinstance(n.orelse[0], ast.If)):
            n.test, n.body, n.orelse = ast.UnaryOp(op=ast.Not(), operand=n.test), n.orelse, n.body
        return n


class Early(ast.NodeTransformer):
    def _block(self, stmts):
        out = []
        for st in stmts:
            if isinstance(st, ast.If) and st.orelse and exits(st.body) and not (len(st.orelse) == 1 and isinstance(st.orelse[0], ast.If)):
                tail = st.orelse
                st.orelse = []
                out.append(st)
                out.extend(tail)
            else:
                out.append(st)
        return out

    def generic_visit(self, n):
        super().generic_visit(n)
        for fld in ('body', 'orelse', 'finalbody'):
            v = getattr(n, fld, None)
            if isinstance(v, list) and v and isinstance(v[0], ast.stmt):
                setattr(n, fld, self._block(v))
        return n


class MatMul(ast.NodeTransformer):
    def visit_BinOp(self, n):
        self.generic_visit(n)
        if isinstance(n.op, ast.MatMult):
            return ast.Call(func=ast.Attribute(value=ast.Name(id='np', ctx=ast.Load()), attr='matmul', ctx=ast.Load()), args=[n.left, n.right], keywords=[])
        return n


class Transpose(ast.NodeTransformer):
    def visit_Attribute(self, n):
        self.generic_visit(n)
        if n.attr == 'T' and isinstance(n.ctx, ast.Load):
            return ast.Call(func=ast.Attribute(value=ast.Name(id='np', ctx=ast.Load()), attr='transpose', ctx=ast.Load()), args=[n.value], keywords=[])
        return n


class Tmp(ast.NodeTransformer):
    def _block(self, stmts):
        out = []
        for st in stmts:
            if isinstance(st, ast.Return) and st.value is not None and not isinstance(st.value, (ast.Name, ast.Constant)):
                out.append(ast.Assign(targets=[ast.Name(id='result_', ctx=ast.Store())], value=st.value))
                out.append(ast.Return(value=ast.Name(id='result_', ctx=ast.Load())))
            else:
                out.append(st)
        return out

    def generic_visit(self, n):
        super().generic_visit(n)
        if isinstance(n, ast.Lambda):
            return n
        for fld in ('body', 'orelse', 'finalbody'):
            v = getattr(n, fld, None)
            if isinstance(v, list) and v and isinstance(v[0], ast.stmt):
                setattr(n, fld, self._block(v))
        return n


class Kw2Pos(ast.NodeTransformer):
    def __init__(self, sigs):
        self.sigs = sigs

    def visit_Call(self, c):
        self.generic_visit(c)
        nm = c.func.attr if isinstance(c.func, ast.Attribute) else (c.func.id if isinstance(c.func, ast.Name) else None)
        # only module-qualified or bare calls of package functions (base.f / tr.f / f), never methods on objects
        if isinstance(c.func, ast.Attribute) and not (isinstance(c.func.value, ast.Name) and c.func.value.id in ('base', 'tr', 'argcheck', 'sm', 'smb')):
            return c
        if nm in self.sigs and not any(isinstance(a, ast.Starred) for a in c.args) and all(k.arg for k in c.keywords):
            params, _ = self.sigs[nm]
            by = {k.arg: k for k in c.keywords}
            while len(c.args) < len(params) and params[len(c.args)] in by:
                k = by.pop(params[len(c.args)])
                c.args.append(k.value)
                c.keywords.remove(k)
        return c


class Pos2Kw(ast.NodeTransformer):
    def __init__(self, sigs):
        self.sigs = sigs

    def visit_Call(self, c):
        self.generic_visit(c)
        nm = c.func.attr if isinstance(c.func, ast.Attribute) else (c.func.id if isinstance(c.func, ast.Name) else None)
        if isinstance(c.func, ast.Attribute) and not (isinstance(c.func.value, ast.Name) and c.func.value.id in ('base', 'tr', 'argcheck', 'sm', 'smb')):
            return c
        if nm in self.sigs and not any(isinstance(a, ast.Starred) for a in c.args) and all(k.arg for k in c.keywords):
            params, ndef = self.sigs[nm]
            first_def = len(params) - ndef
            if len(c.args) <= len(params):
                keep = c.args[:first_def]
                for i, a in enumerate(c.args[first_def:]):
                    c.keywords.insert(i, ast.keyword(arg=params[first_def + i], value=a))
                c.args = keep
        return c


class Neq(ast.NodeTransformer):
    def visit_Compare(self, n):
        self.generic_visit(n)
        if len(n.ops) == 1 and isinstance(n.ops[0], (ast.NotEq, ast.IsNot)):
            op = ast.Eq() if isinstance(n.ops[0], ast.NotEq) else ast.Is()
            return ast.UnaryOp(op=ast.Not(), operand=ast.Compare(left=n.left, ops=[op], comparators=n.comparators))
        return n


class Elif(ast.NodeTransformer):
    def visit_If(self, n):
        self.generic_visit(n)
        if len(n.orelse) == 1 and isinstance(n.orelse[0], ast.If):
            # `elif` is already `else: if` in the AST; make it explicit with a harmless statement so that unparse keeps the nesting
            n.orelse = [ast.Pass(), n.orelse[0]]
        return n


class Comp2Loop(ast.NodeTransformer):
    """name = [E for t in it]  ->  name = []; for t in it: name.append(E)        (single generator, no condition; the loop variable is
    renamed so that it cannot clash with a name of the enclosing function)
    return F([E for t in it], ..)  ->  acc_ = []; for ..: acc_.append(E); return F(acc_, ..)   (the comprehension a direct argument)"""
    n = 0

    def _loop(self, name, comp):
        g = comp.generators[0]
        return [ast.Assign(targets=[ast.Name(id=name, ctx=ast.Store())], value=ast.List(elts=[], ctx=ast.Load())),
                ast.For(target=g.target, iter=g.iter, body=[ast.Expr(value=ast.Call(func=ast.Attribute(value=ast.Name(id=name, ctx=ast.Load()), attr='append', ctx=ast.Load()),
                                                                                     args=[comp.elt], keywords=[]))], orelse=[])]

    def _simple(self, c):
        return isinstance(c, ast.ListComp) and len(c.generators) == 1 and not c.generators[0].ifs and not c.generators[0].is_async

    def _block(self, stmts, fn_names):
        out = []
        for st in stmts:
            if isinstance(st, ast.Assign) and len(st.targets) == 1 and isinstance(st.targets[0], ast.Name) and self._simple(st.value):
                tn = {x.id for x in ast.walk(st.value.generators[0].target) if isinstance(x, ast.Name)}
                selfref = any(isinstance(x, ast.Name) and x.id == st.targets[0].id for x in ast.walk(st.value))
                if not (tn & fn_names) and not selfref:
                    out.extend(self._loop(st.targets[0].id, st.value))
                    continue
            if isinstance(st, ast.Return) and isinstance(st.value, ast.Call) and st.value.args and self._simple(st.value.args[0]):
                tn = {x.id for x in ast.walk(st.value.args[0].generators[0].target) if isinstance(x, ast.Name)}
                if not (tn & fn_names):
                    out.extend(self._loop('acc_', st.value.args[0]))
                    st.value.args[0] = ast.Name(id='acc_', ctx=ast.Load())
                    out.append(st)
                    continue
            out.append(st)
        return out

    def visit_FunctionDef(self, fn):
        # names bound outside comprehensions in this function: a comprehension variable of the same name must stay private
        outside = set()
        def walk(n, incomp):
            if isinstance(n, (ast.ListComp, ast.SetComp, ast.DictComp, ast.GeneratorExp)):
                incomp = True
            if isinstance(n, ast.Name) and not incomp:
                outside.add(n.id)
            if isinstance(n, ast.arg):
                outside.add(n.arg)
            for ch in ast.iter_child_nodes(n):
                walk(ch, incomp)
        walk(fn, False)
        self.generic_visit(fn)

        def rec(node):
            for fld in ('body', 'orelse', 'finalbody'):
                v = getattr(node, fld, None)
                if isinstance(v, list) and v and isinstance(v[0], ast.stmt):
                    setattr(node, fld, self._block(v, outside))
                    for ch in getattr(node, fld):
                        if not isinstance(ch, (ast.FunctionDef, ast.ClassDef)):
                            rec(ch)
        rec(fn)
        return fn


class IsInst(ast.NodeTransformer):
    def visit_Call(self, c):
        self.generic_visit(c)
        if isinstance(c.func, ast.Name) and c.func.id == 'isinstance' and len(c.args) == 2 and isinstance(c.args[1], ast.Tuple) and len(c.args[1].elts) >= 2 \
                and isinstance(c.args[0], ast.Name):
            return ast.BoolOp(op=ast.Or(), values=[ast.Call(func=ast.Name(id='isinstance', ctx=ast.Load()), args=[c.args[0], e], keywords=[]) for e in c.args[1].elts])
        return c


class NestAnd(ast.NodeTransformer):
    def visit_If(self, n):
        self.generic_visit(n)
        if not n.orelse and isinstance(n.test, ast.BoolOp) and isinstance(n.test.op, ast.And) and len(n.test.values) == 2:
            a, b = n.test.values
            return ast.If(test=a, body=[ast.If(test=b, body=n.body, orelse=[])], orelse=[])
        return n


class InTuple(ast.NodeTransformer):
    def visit_BoolOp(self, n):
        self.generic_visit(n)
        if isinstance(n.op, ast.Or) and len(n.values) >= 2 and all(isinstance(v, ast.Compare) and len(v.ops) == 1 and isinstance(v.ops[0], ast.Eq)
                                                                    and isinstance(v.comparators[0], ast.Constant) for v in n.values):
            lefts = {ast.dump(v.left) for v in n.values}
            if len(lefts) == 1 and isinstance(n.values[0].left, (ast.Name, ast.Attribute)):
                return ast.Compare(left=n.values[0].left, ops=[ast.In()], comparators=[ast.Tuple(elts=[v.comparators[0] for v in n.values], ctx=ast.Load())])
        return n


class TypeSelf(ast.NodeTransformer):
    def visit_Attribute(self, n):
        self.generic_visit(n)
        if n.attr == '__class__' and isinstance(n.ctx, ast.Load) and isinstance(n.value, ast.Name):
            return ast.Call(func=ast.Name(id='type', ctx=ast.Load()), args=[n.value], keywords=[])
        return n


class Ternary(ast.NodeTransformer):
    """if c: x = A else: x = B   ->   x = A if c else B       (both arms a single assignment to the same plain name)
       if c: return A else: return B   ->   return A if c else B"""
    def visit_If(self, n):
        self.generic_visit(n)
        if len(n.body) == 1 and len(n.orelse) == 1:
            a, b = n.body[0], n.orelse[0]
            if isinstance(a, ast.Assign) and isinstance(b, ast.Assign) and len(a.targets) == 1 and len(b.targets) == 1 and \
                    isinstance(a.targets[0], ast.Name) and isinstance(b.targets[0], ast.Name) and a.targets[0].id == b.targets[0].id:
                return ast.Assign(targets=[a.targets[0]], value=ast.IfExp(test=n.test, body=a.value, orelse=b.value))
            if isinstance(a, ast.Return) and isinstance(b, ast.Return) and a.value is not None and b.value is not None:
                return ast.Return(value=ast.IfExp(test=n.test, body=a.value, orelse=b.value))
        return n


class Extract(ast.NodeTransformer):
    """return F(G(..), ..)  ->  arg_ = G(..); return F(arg_, ..)    (the first positional argument of a returned call, when it is a call itself)"""
    def _block(self, stmts):
        out = []
        for st in stmts:
            if isinstance(st, ast.Return) and isinstance(st.value, ast.Call) and st.value.args and isinstance(st.value.args[0], ast.Call):
                out.append(ast.Assign(targets=[ast.Name(id='arg_', ctx=ast.Store())], value=st.value.args[0]))
                st.value.args[0] = ast.Name(id='arg_', ctx=ast.Load())
            out.append(st)
        return out

    def generic_visit(self, n):
        super().generic_visit(n)
        if isinstance(n, ast.Lambda):
            return n
        for fld in ('body', 'orelse', 'finalbody'):
            v = getattr(n, fld, None)
            if isinstance(v, list) and v and isinstance(v[0], ast.stmt):
                setattr(n, fld, self._block(v))
        return n


class Inline(ast.NodeTransformer):
    """x = E; S(x)  ->  S(E)   for a local assigned once in the function, read exactly once, in the very next statement, E free of calls
    with side effects as far as can be seen (names, attributes, subscripts, arithmetic, calls of module functions)"""
    def visit_FunctionDef(self, fn):
        self.generic_visit(fn)
        stores, loads = {}, {}
        for x in ast.walk(fn):
            if isinstance(x, ast.Name):
                d = stores if isinstance(x.ctx, ast.Store) else loads
                d[x.id] = d.get(x.id, 0) + 1
        params = {a.arg for a in fn.args.args + fn.args.kwonlyargs}

        def block(stmts):
            out = []
            i = 0
            while i < len(stmts):
                st = stmts[i]
                nxt = stmts[i + 1] if i + 1 < len(stmts) else None
                if isinstance(st, ast.Assign) and len(st.targets) == 1 and isinstance(st.targets[0], ast.Name) and nxt is not None and \
                        isinstance(nxt, (ast.Return, ast.Assign, ast.Expr)) and not isinstance(st.value, (ast.List, ast.ListComp, ast.Lambda, ast.Dict)):
                    nm = st.targets[0].id
                    uses = [y for y in ast.walk(nxt) if isinstance(y, ast.Name) and y.id == nm and isinstance(y.ctx, ast.Load)]
                    in_comp = any(isinstance(c, (ast.ListComp, ast.GeneratorExp, ast.Lambda)) and any(y is uses[0] for y in ast.walk(c)) for c in ast.walk(nxt)) if uses else True
                    if nm not in params and stores.get(nm, 0) == 1 and loads.get(nm, 0) == 1 and len(uses) == 1 and not in_comp and \
                            not any(isinstance(t, (ast.Subscript, ast.Attribute)) and any(y is uses[0] for y in ast.walk(t)) for t in getattr(nxt, 'targets', [])):
                        class R(ast.NodeTransformer):
                            def visit_Name(s2, y):
                                return st.value if y is uses[0] else y
                        out.append(R().visit(nxt))
                        i += 2
                        continue
                out.append(st)
                i += 1
            return out

        def rec(node):
            for fld in ('body', 'orelse', 'finalbody'):
                v = getattr(node, fld, None)
                if isinstance(v, list) and v and isinstance(v[0], ast.stmt):
                    setattr(node, fld, block(v))
                    for ch in getattr(node, fld):
                        if not isinstance(ch, (ast.FunctionDef, ast.ClassDef)):
                            rec(ch)
        rec(fn)
        return fn


MODES = {'ifswap': lambda s: IfSwap(), 'early': lambda s: Early(), 'matmul': lambda s: MatMul(), 'transpose': lambda s: Transpose(),
         'tmp': lambda s: Tmp(), 'kw2pos': lambda s: Kw2Pos(s), 'pos2kw': lambda s: Pos2Kw(s), 'neq': lambda s: Neq(), 'elif': lambda s: Elif(),
         'comp2loop': lambda s: Comp2Loop(), 'isinst': lambda s: IsInst(), 'nestand': lambda s: NestAnd(), 'intuple': lambda s: InTuple(),
         'typeself': lambda s: TypeSelf(), 'ternary': lambda s: Ternary(), 'extract': lambda s: Extract(), 'inline': lambda s: Inline()}

if os.path.exists(dst):
    shutil.rmtree(dst)
shutil.copytree(src, dst)
sigs = package_signatures(src)
modes = list(MODES) if mode == 'all' else mode.split(',')
n = 0
for dp, _, files in os.walk(dst):
    for fn in files:
        if not fn.endswith('.py'):
            continue
        p = os.path.join(dp, fn)
        text = open(p).read()
        try:
            tree = ast.parse(text)
        except SyntaxError:
            continue
        has_np = 'import numpy as np' in text
        for m in modes:
            if m in ('matmul', 'transpose') and not has_np:
                continue
            tree = MODES[m](sigs).visit(tree)
        ast.fix_missing_locations(tree)
        open(p, 'w').write(ast.unparse(tree) + '\n')
        n += 1
print('rewrote %d files with %s' % (n, ','.join(modes)))
