#!/bin/sh
# verify_benign.sh <worktree> <id>: confirm a behaviour-preserving refactor (tests unchanged, demo passes with and without), store it under
# /verif/seeded_benign/<id>/ and remove the worktree.
WT="$1"; ID="$2"
set -e
[ -f "$WT/seed/patch.diff" ] || { echo "no patch in $WT"; exit 3; }
cd "$WT"
git checkout -q -- spatialmath 2>/dev/null || true
git apply --check seed/patch.diff
export PYTHONPATH="$WT"
/venv/bin/python -W ignore seed/demo.py >/dev/null 2>&1 && C=0 || C=$?
git apply seed/patch.diff
/venv/bin/python -W ignore seed/demo.py >/dev/null 2>&1 && B=0 || B=$?
T=$(/venv/bin/python -W ignore -m pytest -q -p no:cacheprovider tests -k "not plot and not graphics and not animate" 2>&1 | tail -1)
echo "$ID: demo clean exit=$C, demo with change exit=$B, tests: $T"
OK=0
[ "$C" = 0 ] && [ "$B" = 0 ] && echo "$T" | grep -q "2 failed, 224 passed" && OK=1
mkdir -p /verif/seeded_benign/$ID
cp seed/patch.diff seed/demo.py /verif/seeded_benign/$ID/
/venv/bin/python - "$ID" "$C" "$B" "$T" "$OK" <<'P'
import json,sys
i,c,b,t,ok=sys.argv[1:6]
try: m=json.load(open('seed/meta.json'))
except Exception as e: m={'meta_error':str(e)}
m['verified']={'demo_exit_without_change':int(c),'demo_exit_with_change':int(b),'fast_tests_with_change':t.strip(),'confirmed':ok=='1'}
json.dump(m,open('/verif/seeded_benign/%s/meta.json'%i,'w'),indent=1)
P
cd /; git -C /repo worktree remove --force "$WT"; rm -f "$WT.prompt"
[ "$OK" = 1 ] || { echo "   NOT CONFIRMED"; exit 1; }
