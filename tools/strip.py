"""Print a source file without long docstrings and blank lines (reading aid)."""
import ast,sys
def strip(path):
    src=open(path).read()
    tree=ast.parse(src)
    lines=src.split('\n')
    kill=set()
    for n in ast.walk(tree):
        if isinstance(n,(ast.FunctionDef,ast.ClassDef,ast.Module)):
            b=n.body
            if b and isinstance(b[0],ast.Expr) and isinstance(b[0].value,ast.Constant) and isinstance(b[0].value.value,str):
                d=b[0]
                if d.end_lineno-d.lineno>3:
                    for i in range(d.lineno+1,d.end_lineno): kill.add(i)
    out=[]
    for i,l in enumerate(lines,1):
        if i in kill: continue
        if l.strip()=='' : continue
        if l.strip().startswith('#'): continue
        out.append(f"{i}\t{l}")
    return '\n'.join(out)
print(strip(sys.argv[1]))
