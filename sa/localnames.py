"""N16 -- restoring the local-variable names the rules know.

Several table rules find the pieces of a function through the names its author gave to the locals (`angles`, `vcross`, `den`, ...).
A consistent renaming of locals is the most common harmless edit, so before anything else the locals of a function are renamed
BACK to the names recorded for that function in design/locals.json (written by tools/gen_locals.py from the reviewed tree), whenever
the correspondence is evident:

  * every local gets a fingerprint that does not mention any local name: (kind of its first binding, sorted names of the functions
    called / attributes read in the bound expression, number of names bound together);
  * the recorded sequence and the current sequence (both in order of first binding) are aligned by longest common subsequence on the
    fingerprints; an aligned pair with different names is a renaming current -> recorded;
  * the renaming is applied only if it is a bijection on the renamed locals and captures nothing (a recorded name that is used for
    something else in the current function blocks the pair).

Alpha-conversion of locals never changes behaviour, whatever pairs are chosen; a wrong pairing could only confuse a rule, and pairs
are only made between locals whose defining expressions call the same things in the same order of definition.  Locals that are not
aligned (added, removed, or redefined differently) keep their names.  VERIF_NO_LOCALNAMES=1 disables the step."""
import ast
import json
import os

_TABLE = None


def table():
    global _TABLE
    if _TABLE is None:
        p = os.path.join(os.path.dirname(os.path.dirname(os.path.abspath(__file__))), 'design', 'locals.json')
        try:
            _TABLE = json.load(open(p))
        except Exception:
            _TABLE = {}
    return _TABLE


def _params(fn):
    ps = {a.arg for a in fn.args.args + fn.args.kwonlyargs + fn.args.posonlyargs}
    if fn.args.vararg:
        ps.add(fn.args.vararg.arg)
    if fn.args.kwarg:
        ps.add(fn.args.kwarg.arg)
    return ps


def _callees(e):
    out = []
    for x in ast.walk(e):
        if isinstance(x, ast.Call):
            f = x.func
            out.append(f.attr if isinstance(f, ast.Attribute) else (f.id if isinstance(f, ast.Name) else '?'))
        elif isinstance(x, ast.Attribute) and not isinstance(getattr(x, 'ctx', None), ast.Store):
            out.append('.' + x.attr)
        elif isinstance(x, ast.Subscript):
            out.append('[]')
    return sorted(set(out))


def local_sequence(fn):
    """[(name, fingerprint)] in order of first binding; nested function bodies are not entered (they have their own entry)"""
    params = _params(fn)
    banned = set(params)
    seq = []
    seen = set()

    def bind(name, kind, value, arity):
        if name in seen or name in banned or name.startswith('__'):
            return
        seen.add(name)
        seq.append((name, [kind, _callees(value) if value is not None else [], arity]))

    def targets(t):
        return [x.id for x in ast.walk(t) if isinstance(x, ast.Name) and isinstance(x.ctx, ast.Store)]

    def visit(n):
        if isinstance(n, (ast.FunctionDef, ast.AsyncFunctionDef, ast.ClassDef)) and n is not fn:
            banned.add(n.name)
            return
        if isinstance(n, (ast.Global, ast.Nonlocal)):
            banned.update(n.names)
        if isinstance(n, (ast.Import, ast.ImportFrom)):
            for al in n.names:
                banned.add((al.asname or al.name).split('.')[0])
        if isinstance(n, ast.ExceptHandler) and n.name:
            banned.add(n.name)
        if isinstance(n, ast.Lambda):
            banned.update(a.arg for a in n.args.args + n.args.kwonlyargs + n.args.posonlyargs)
        if isinstance(n, ast.Assign):
            visit(n.value)
            for t in n.targets:
                ns = targets(t)
                for nm in ns:
                    bind(nm, 'assign', n.value, len(ns))
            return
        if isinstance(n, ast.AugAssign):
            visit(n.value)
            for nm in targets(n.target):
                bind(nm, 'aug', n.value, 1)
            return
        if isinstance(n, (ast.For, ast.AsyncFor)):
            visit(n.iter)
            ns = targets(n.target)
            for nm in ns:
                bind(nm, 'for', n.iter, len(ns))
            for st in n.body + n.orelse:
                visit(st)
            return
        if isinstance(n, (ast.ListComp, ast.SetComp, ast.GeneratorExp, ast.DictComp)):
            for g in n.generators:
                visit(g.iter)
                ns = targets(g.target)
                for nm in ns:
                    bind(nm, 'comp', g.iter, len(ns))
                for c in g.ifs:
                    visit(c)
            if isinstance(n, ast.DictComp):
                visit(n.key)
                visit(n.value)
            else:
                visit(n.elt)
            return
        if isinstance(n, (ast.With, ast.AsyncWith)):
            for it in n.items:
                visit(it.context_expr)
                if it.optional_vars is not None:
                    for nm in targets(it.optional_vars):
                        bind(nm, 'with', it.context_expr, 1)
            for st in n.body:
                visit(st)
            return
        if isinstance(n, ast.NamedExpr):
            visit(n.value)
            bind(n.target.id, 'walrus', n.value, 1)
            return
        for ch in ast.iter_child_nodes(n):
            visit(ch)
    for st in fn.body:
        visit(st)
    return [(nm, fp) for (nm, fp) in seq if nm not in banned]


def _lcs(a, b):
    n, m = len(a), len(b)
    L = [[0] * (m + 1) for _ in range(n + 1)]
    for i in range(n - 1, -1, -1):
        for j in range(m - 1, -1, -1):
            L[i][j] = L[i + 1][j + 1] + 1 if a[i] == b[j] else max(L[i + 1][j], L[i][j + 1])
    i = j = 0
    pairs = []
    while i < n and j < m:
        if a[i] == b[j]:
            pairs.append((i, j))
            i += 1
            j += 1
        elif L[i + 1][j] >= L[i][j + 1]:
            i += 1
        else:
            j += 1
    return pairs


class _Rename(ast.NodeTransformer):
    def __init__(self, fn, ren):
        self.fn, self.ren = fn, ren

    def visit_FunctionDef(self, n):
        if n is not self.fn:
            # a nested function that reads an enclosing local sees the new name too, unless it rebinds the name itself
            own = _params(n) | {x.id for x in ast.walk(n) if isinstance(x, ast.Name) and isinstance(x.ctx, ast.Store)}
            sub = {k: v for k, v in self.ren.items() if k not in own}
            if sub:
                _Rename(n, sub).generic_visit(n)
            return n
        return self.generic_visit(n)

    def visit_Lambda(self, n):
        own = {a.arg for a in n.args.args + n.args.kwonlyargs + n.args.posonlyargs}
        sub = {k: v for k, v in self.ren.items() if k not in own}
        if sub:
            _Rename(self.fn, sub).generic_visit(n)
        return n

    def visit_Name(self, n):
        if n.id in self.ren:
            n.id = self.ren[n.id]
        return n


def restore(fn, key):
    """rename the locals of fn back to the recorded names where the correspondence is evident; returns the renaming applied"""
    rec = table().get(key)
    if not rec:
        return {}
    cur = local_sequence(fn)
    if [c[0] for c in cur] == [r[0] for r in rec]:
        return {}
    cur_names = {c[0] for c in cur}
    pairs = _lcs([json.dumps(r[1]) for r in rec], [json.dumps(c[1]) for c in cur])
    ren = {}
    for (i, j) in pairs:
        if rec[i][0] != cur[j][0]:
            ren[cur[j][0]] = rec[i][0]
    if not ren:
        return {}
    # bijection, no capture: a recorded name must not already be in use for something that is not renamed away
    used = {x.id for x in ast.walk(fn) if isinstance(x, ast.Name)} | _params(fn) | {a.arg for x in ast.walk(fn) if isinstance(x, ast.Lambda) for a in x.args.args}
    ok = {}
    for src_, dst in ren.items():
        if list(ren.values()).count(dst) != 1:
            continue
        if dst in used and dst not in ren:
            continue
        if dst in cur_names and dst not in ren:
            continue
        ok[src_] = dst
    # drop chains that would need a temporary (a -> b while b -> c is not applied)
    ok = {s: d for s, d in ok.items() if d not in used or d in ok}
    if not ok:
        return {}
    # two-phase to allow swaps
    tmp = {s: '__ln_%d__' % i for i, s in enumerate(ok)}
    _Rename(fn, tmp).visit(fn)
    _Rename(fn, {tmp[s]: d for s, d in ok.items()}).visit(fn)
    return ok


def restore_module(tree, short):
    if os.environ.get('VERIF_NO_LOCALNAMES') == '1' or not table():
        return tree

    def walk(node, prefix):
        for ch in ast.iter_child_nodes(node):
            if isinstance(ch, ast.ClassDef):
                walk(ch, prefix + ch.name + '.')
            elif isinstance(ch, (ast.FunctionDef, ast.AsyncFunctionDef)):
                restore(ch, '%s:%s%s' % (short, prefix, ch.name))
                walk(ch, prefix + ch.name + '.<locals>.')
            elif isinstance(ch, (ast.If, ast.Try, ast.With)):
                walk(ch, prefix)
    walk(tree, '')
    return tree
