"""Source model of /repo/spatialmath: modules, namespaces (with star-import closure),
classes (MRO, members), functions.  Nothing from the repository is imported or executed.
"""
import ast
import hashlib
import os
import sys

PKG = 'spatialmath'


class AnalysisError(Exception):
    """A required decision cannot be made (missing anchor, unrecognised shape)."""


def repo_root():
    return os.environ.get('VERIF_REPO', '/repo')


class Binding:
    __slots__ = ('kind', 'node', 'module', 'name', 'target', 'lineno')
    # kind: func | class | var | import_module | import_from | star

    def __init__(self, kind, node, module, name, target=None):
        self.kind = kind
        self.node = node
        self.module = module
        self.name = name
        self.target = target  # import_module: dotted; import_from: (dotted module, name)
        self.lineno = getattr(node, 'lineno', 0)


class Target:
    """Result of resolving a reference."""
    __slots__ = ('kind', 'obj', 'name')
    # kind: func | class | module | var | external | builtin | unresolved | method | local

    def __init__(self, kind, obj=None, name=None):
        self.kind = kind
        self.obj = obj
        self.name = name

    def __repr__(self):
        o = self.obj
        if isinstance(o, (Function, Class, Module)):
            o = o.key if hasattr(o, 'key') else o.name
        return 'Target(%s,%s,%s)' % (self.kind, o, self.name)


class Module:
    def __init__(self, name, path, relpath, src):
        self.name = name            # dotted, e.g. spatialmath.base.vectors
        self.path = path
        self.relpath = relpath      # e.g. spatialmath/base/vectors.py
        self.src = src
        self.lines = src.split('\n')
        import warnings
        with warnings.catch_warnings():
            warnings.simplefilter('ignore')
            self.tree = ast.parse(src, filename=path)
        from .normalize import normalise
        from .localnames import restore_module
        self.tree = restore_module(self.tree, relpath[len(PKG) + 1:-3])
        self.tree = normalise(self.tree)
        self.digest = hashlib.sha256(src.encode()).hexdigest()[:16]
        self.bindings = {}          # own top-level bindings: name -> Binding (last wins)
        self.stars = []             # dotted module names star-imported
        self.all = None
        self.is_package = os.path.basename(path) == '__init__.py'
        self.functions = {}         # qualname -> Function
        self.classes = {}           # name -> Class
        self.short = self._short()

    def _short(self):
        # 'base/transforms3d', 'super_pose', 'base/__init__'
        r = self.relpath[len(PKG) + 1:]
        return r[:-3]

    def __repr__(self):
        return 'Module(%s)' % self.name


class Function:
    def __init__(self, module, qualname, node, cls=None, parent=None):
        self.module = module
        self.qualname = qualname
        self.node = node
        self.cls = cls
        self.parent = parent        # enclosing Function for nested defs
        self.key = '%s:%s' % (module.short, qualname)
        self.decorators = [_dec_name(d) for d in node.decorator_list]
        if cls is not None and parent is None:
            if 'staticmethod' in self.decorators or 'abstractstaticmethod' in self.decorators:
                self.kind = 'static'
            elif 'classmethod' in self.decorators:
                self.kind = 'class'
            elif 'property' in self.decorators or 'abstractproperty' in self.decorators:
                self.kind = 'property'
            else:
                self.kind = 'method'
        else:
            self.kind = 'function'
        a = node.args
        self.params = [x.arg for x in a.posonlyargs + a.args]
        self.kwonly = [x.arg for x in a.kwonlyargs]
        self.vararg = a.vararg.arg if a.vararg else None
        self.kwarg = a.kwarg.arg if a.kwarg else None
        self.doc = ast.get_docstring(node) or ''

    @property
    def name(self):
        return self.node.name

    @property
    def selfname(self):
        """Name of the receiver parameter for methods/properties/classmethods."""
        if self.kind in ('method', 'property', 'class') and self.params:
            return self.params[0]
        return None

    @property
    def allparams(self):
        r = list(self.params) + list(self.kwonly)
        if self.vararg:
            r.append(self.vararg)
        if self.kwarg:
            r.append(self.kwarg)
        return r

    def defaults(self):
        """param name -> default AST (or absent)."""
        a = self.node.args
        pos = a.posonlyargs + a.args
        d = {}
        for p, v in zip(pos[len(pos) - len(a.defaults):], a.defaults):
            d[p.arg] = v
        for p, v in zip(a.kwonlyargs, a.kw_defaults):
            if v is not None:
                d[p.arg] = v
        return d

    def loc(self, node=None):
        n = node if node is not None else self.node
        return '%s:%d' % (self.module.relpath, getattr(n, 'lineno', 0))

    def __repr__(self):
        return 'Function(%s)' % self.key


class Class:
    def __init__(self, module, node):
        self.module = module
        self.node = node
        self.name = node.name
        self.key = '%s:%s' % (module.short, node.name)
        self.base_exprs = node.bases
        self.bases = []             # Class objects or ExternalClass
        self.members = {}           # name -> Function | ('attr', node)
        self.mro = []
        self.external = False

    def __repr__(self):
        return 'Class(%s)' % self.name


class ExternalClass:
    """A base class outside the repository (object, ABC, UserList...)."""
    external = True

    def __init__(self, name, members=None, bases=()):
        self.name = name
        self.key = 'ext:' + name
        self.members = members or {}
        self.bases = list(bases)
        self.mro = []
        self.module = None
        self.node = None

    def __repr__(self):
        return 'ExternalClass(%s)' % self.name


def _dec_name(d):
    if isinstance(d, ast.Name):
        return d.id
    if isinstance(d, ast.Attribute):
        return d.attr
    if isinstance(d, ast.Call):
        return _dec_name(d.func)
    return '?'


EXTERNAL_MODULES = {'numpy', 'math', 'scipy', 'sympy', 'matplotlib', 'collections', 'abc', 'copy',
                    'sys', 'os', 'typing', 'colored', 'ansitable', 'pathlib', 'mpl_toolkits', 'time',
                    'timeit', 'random', 'numpy.testing'}


class Program:
    def __init__(self, root=None):
        self.root = root or repo_root()
        self.modules = {}
        self.functions = {}   # key -> Function
        self.classes = {}     # name -> Class (class names are unique in this package; checked)
        self._ns_cache = {}
        self._load()
        self._collect()
        self._userlist()
        self._link_classes()

    # ------------------------------------------------------------------ loading
    def _load(self):
        pk = os.path.join(self.root, PKG)
        if not os.path.isdir(pk):
            raise AnalysisError('package directory %s not found' % pk)
        for dp, dn, fn in os.walk(pk):
            dn[:] = [d for d in dn if d != '__pycache__']
            for f in sorted(fn):
                if not f.endswith('.py'):
                    continue
                path = os.path.join(dp, f)
                rel = os.path.relpath(path, self.root)
                parts = rel[:-3].split(os.sep)
                if parts[-1] == '__init__':
                    parts = parts[:-1]
                name = '.'.join(parts)
                with open(path, encoding='utf-8') as fh:
                    src = fh.read()
                try:
                    m = Module(name, path, rel, src)
                except SyntaxError as e:
                    raise AnalysisError('cannot parse %s: %s' % (rel, e))
                self.modules[name] = m

    def _collect(self):
        for m in self.modules.values():
            self._collect_top(m, m.tree.body)
            self._collect_defs(m, m.tree.body, prefix='', cls=None, parent=None)

    def _collect_top(self, m, body):
        for st in body:
            if isinstance(st, (ast.FunctionDef, ast.AsyncFunctionDef)):
                m.bindings[st.name] = Binding('func', st, m, st.name)
            elif isinstance(st, ast.ClassDef):
                m.bindings[st.name] = Binding('class', st, m, st.name)
            elif isinstance(st, ast.Import):
                for a in st.names:
                    if a.asname:
                        m.bindings[a.asname] = Binding('import_module', st, m, a.asname, a.name)
                    else:
                        top = a.name.split('.')[0]
                        m.bindings[top] = Binding('import_module', st, m, top, top)
            elif isinstance(st, ast.ImportFrom):
                mod = st.module or ''
                if st.level:
                    base = m.name.split('.')
                    if not m.is_package:
                        base = base[:-1]
                    base = base[:len(base) - (st.level - 1)]
                    mod = '.'.join(base + ([mod] if mod else []))
                for a in st.names:
                    if a.name == '*':
                        m.stars.append(mod)
                    else:
                        m.bindings[a.asname or a.name] = Binding('import_from', st, m, a.asname or a.name, (mod, a.name))
            elif isinstance(st, (ast.Assign, ast.AnnAssign, ast.AugAssign)):
                tg = st.targets if isinstance(st, ast.Assign) else [st.target]
                for t in tg:
                    for nm in _target_names(t):
                        m.bindings[nm] = Binding('var', st, m, nm)
                        if nm == '__all__' and isinstance(st, ast.Assign):
                            try:
                                m.all = [e.value for e in st.value.elts]
                            except Exception:
                                m.all = None
            elif isinstance(st, (ast.If, ast.Try, ast.With, ast.For, ast.While)):
                if isinstance(st, ast.If) and _is_main_guard(st.test):
                    continue
                for fld in ('body', 'orelse', 'finalbody'):
                    self._collect_top(m, getattr(st, fld, []) or [])
                for h in getattr(st, 'handlers', []) or []:
                    self._collect_top(m, h.body)

    def _collect_defs(self, m, body, prefix, cls, parent):
        for st in body:
            if isinstance(st, (ast.FunctionDef, ast.AsyncFunctionDef)):
                q = prefix + st.name
                f = Function(m, q, st, cls=cls if parent is None else None, parent=parent)
                if parent is not None:
                    f.cls = None
                    f.outer_cls = cls
                # last definition wins (mirrors runtime), but keep first under suffixed key
                m.functions[q] = f
                self.functions[f.key] = f
                self._collect_defs(m, st.body, q + '.<locals>.', cls, f)
            elif isinstance(st, ast.ClassDef):
                if parent is None and cls is None:
                    c = Class(m, st)
                    m.classes[st.name] = c
                    if st.name in self.classes:
                        raise AnalysisError('duplicate class name %s' % st.name)
                    self.classes[st.name] = c
                    for s2 in st.body:
                        if isinstance(s2, ast.Assign):
                            for t in s2.targets:
                                for nm in _target_names(t):
                                    c.members[nm] = ('attr', s2)
                    self._collect_defs(m, st.body, st.name + '.', c, None)
                    for q, f in m.functions.items():
                        if f.cls is c and f.parent is None:
                            c.members[f.name] = f
                    # class-body aliasing such as `__rmul__ = __mul__`
                    for s2 in st.body:
                        if isinstance(s2, ast.Assign) and isinstance(s2.value, ast.Name):
                            src = c.members.get(s2.value.id)
                            if isinstance(src, Function):
                                for t in s2.targets:
                                    for nm in _target_names(t):
                                        c.members[nm] = src
            elif isinstance(st, (ast.If, ast.Try, ast.With, ast.For, ast.While)):
                if isinstance(st, ast.If) and _is_main_guard(st.test):
                    continue
                for fld in ('body', 'orelse', 'finalbody'):
                    self._collect_defs(m, getattr(st, fld, []) or [], prefix, cls, parent)
                for h in getattr(st, 'handlers', []) or []:
                    self._collect_defs(m, h.body, prefix, cls, parent)

    # ------------------------------------------------------------------ UserList
    def _userlist(self):
        import collections
        path = collections.__file__
        with open(path, encoding='utf-8') as fh:
            src = fh.read()
        tree = ast.parse(src)
        ul = None
        for st in tree.body:
            if isinstance(st, ast.ClassDef) and st.name == 'UserList':
                ul = st
        if ul is None:
            raise AnalysisError('UserList not found in %s' % path)
        m = Module.__new__(Module)
        m.name = 'collections'
        m.path = path
        m.relpath = 'stdlib:collections/__init__.py'
        m.short = 'stdlib/collections'
        m.src = src
        m.lines = src.split('\n')
        m.tree = tree
        m.digest = hashlib.sha256(src.encode()).hexdigest()[:16]
        m.bindings = {}
        m.stars = []
        m.all = None
        m.is_package = True
        m.functions = {}
        m.classes = {}
        self.stdlib_collections = m
        c = Class(m, ul)
        for st in ul.body:
            if isinstance(st, ast.FunctionDef):
                f = Function(m, 'UserList.' + st.name, st, cls=c)
                m.functions[f.qualname] = f
                c.members[st.name] = f
            elif isinstance(st, ast.Assign) and isinstance(st.value, ast.Name):
                src_f = c.members.get(st.value.id)
                for t in st.targets:
                    for nm in _target_names(t):
                        c.members[nm] = src_f if src_f is not None else ('attr', st)
        c.external_src = True
        self.UserList = c
        # MutableSequence mixins not overridden by UserList: iteration helpers etc.
        self.ext_object = ExternalClass('object')
        self.ext_abc = ExternalClass('ABC', bases=[self.ext_object])
        ms = ExternalClass('MutableSequence', bases=[self.ext_object],
                           members={n: ('ext', n) for n in ('__iter__', '__reversed__', '__iadd__')})
        c.bases = [ms]

    # ------------------------------------------------------------------ classes
    def _link_classes(self):
        for c in self.classes.values():
            bs = []
            for be in c.base_exprs:
                t = self.resolve_expr_static(c.module, be)
                if t.kind == 'class':
                    bs.append(t.obj)
                elif isinstance(be, ast.Name) and be.id == 'UserList':
                    bs.append(self.UserList)
                elif isinstance(be, ast.Name) and be.id == 'ABC':
                    bs.append(self.ext_abc)
                else:
                    nm = ast.unparse(be)
                    if nm == 'object':
                        bs.append(self.ext_object)
                    else:
                        bs.append(ExternalClass(nm, bases=[self.ext_object]))
            c.bases = bs or [self.ext_object]
        for c in list(self.classes.values()) + [self.UserList]:
            c.mro = self._c3(c)

    def _c3(self, c):
        def mro(k):
            if not getattr(k, 'bases', None):
                return [k]
            seqs = [mro(b) for b in k.bases] + [list(k.bases)]
            res = [k]
            while True:
                seqs = [s for s in seqs if s]
                if not seqs:
                    return res
                for s in seqs:
                    h = s[0]
                    if not any(h in t[1:] for t in seqs):
                        break
                else:
                    raise AnalysisError('inconsistent MRO for %s' % k.name)
                res.append(h)
                for s in seqs:
                    if s and s[0] is h:
                        del s[0]
        return mro(c)

    def subclasses(self, c, strict=False):
        out = []
        for k in self.classes.values():
            if c in k.mro and (not strict or k is not c):
                out.append(k)
        return out

    def concrete_subclasses(self, c):
        """Classes at or below c that are instantiated publicly (exported by spatialmath/__init__)."""
        pub = self.public_classes()
        return [k for k in self.subclasses(c) if k.name in pub]

    def public_classes(self):
        m = self.modules[PKG]
        out = []
        for nm, b in m.bindings.items():
            t = self.resolve_name(m, nm)
            if t.kind == 'class':
                out.append(t.obj.name)
        return out

    def lookup_member(self, cls, name, start_after=None):
        """Resolve attribute through the MRO. Returns (owner class, member) or (None, None)."""
        mro = cls.mro
        if start_after is not None:
            mro = mro[mro.index(start_after) + 1:]
        for k in mro:
            mem = getattr(k, 'members', {})
            if name in mem:
                return k, mem[name]
        return None, None

    def instance_attrs(self, cls):
        """Attributes stored through a self-like name anywhere in the hierarchy of cls
        (own MRO) -- e.g. self.data, self.real."""
        out = set()
        for k in cls.mro:
            if isinstance(k, Class):
                for mem in k.members.values():
                    if isinstance(mem, Function) and mem.selfname:
                        s = mem.selfname
                        for n in ast.walk(mem.node):
                            if isinstance(n, ast.Attribute) and isinstance(n.ctx, ast.Store) \
                                    and isinstance(n.value, ast.Name) and n.value.id == s:
                                out.add(n.attr)
        if self.UserList in cls.mro:
            out.add('data')
        return out

    # ------------------------------------------------------------------ namespaces
    def namespace(self, m):
        """All names bound in module m at import-completion: own bindings + star closure.
        Returns dict name -> Binding (Binding.module is the module where it is defined/bound)."""
        return self._namespace(m, ())

    def _namespace(self, m, stack):
        if m.name in self._ns_cache:
            return self._ns_cache[m.name]
        if m.name in stack:
            return dict(m.bindings)   # cycle: own bindings only
        ns = {}
        for s in m.stars:
            sm = self.modules.get(s)
            if sm is None:
                continue
            sub = self._namespace(sm, stack + (m.name,))
            if sm.all is not None:
                names = [n for n in sm.all if n in sub]
            else:
                names = [n for n in sub if not n.startswith('_')]
            for n in names:
                b = sub[n]
                if b.kind == 'import_from' and b.target == (m.name, n):
                    continue   # sub-module re-exports a name it took from this package
                ns[n] = b
        # order: a later own binding overrides an earlier star import; this package never
        # rebinds a star-imported name at top level, so own bindings simply win.
        ns.update(m.bindings)
        if not stack:
            self._ns_cache[m.name] = ns
        return ns

    def submodule(self, m, name):
        return self.modules.get(m.name + '.' + name)

    def resolve_name(self, m, name, _depth=0):
        """Resolve a module-level name of module m to its definition."""
        if _depth > 20:
            return Target('unresolved', None, name)
        ns = self.namespace(m)
        b = ns.get(name)
        if b is None:
            # a sub-module imported somewhere is an attribute of its package
            if m.is_package:
                sm = self.submodule(m, name)
                if sm is not None:
                    return Target('module', sm, name)
            return Target('unresolved', None, name)
        return self._binding_target(b, _depth)

    def _binding_target(self, b, _depth=0):
        if b.kind == 'func':
            f = b.module.functions.get(b.name)
            return Target('func', f, b.name)
        if b.kind == 'class':
            return Target('class', b.module.classes.get(b.name), b.name)
        if b.kind == 'var':
            return Target('var', b, b.name)
        if b.kind == 'import_module':
            dotted = b.target
            if dotted in self.modules:
                return Target('module', self.modules[dotted], dotted)
            return Target('external', dotted, dotted)
        if b.kind == 'import_from':
            mod, nm = b.target
            if mod in self.modules:
                mm = self.modules[mod]
                # name defined in that module, or a sub-module of it
                t = self.resolve_name(mm, nm, _depth + 1)
                if t.kind == 'unresolved':
                    sm = self.modules.get(mod + '.' + nm)
                    if sm is not None:
                        return Target('module', sm, sm.name)
                return t
            if mod + '.' + nm in self.modules:
                return Target('module', self.modules[mod + '.' + nm], mod + '.' + nm)
            return Target('external', mod + '.' + nm, nm)
        return Target('unresolved', None, b.name)

    def resolve_attr(self, t, attr):
        """Attribute of a resolved target (module attribute or class member)."""
        if t.kind == 'module':
            r = self.resolve_name(t.obj, attr)
            if r.kind == 'unresolved':
                sm = self.submodule(t.obj, attr)
                if sm is not None:
                    return Target('module', sm, sm.name)
            return r
        if t.kind == 'external':
            return Target('external', '%s.%s' % (t.obj, attr), attr)
        if t.kind == 'class':
            k, mem = self.lookup_member(t.obj, attr)
            if mem is None:
                return Target('unresolved', None, attr)
            if isinstance(mem, Function):
                return Target('method', mem, attr)
            return Target('var', mem, attr)
        return Target('unresolved', None, attr)

    def resolve_expr_static(self, m, e):
        """Resolve Name / dotted Attribute chains at module level."""
        if isinstance(e, ast.Name):
            return self.resolve_name(m, e.id)
        if isinstance(e, ast.Attribute):
            b = self.resolve_expr_static(m, e.value)
            if b.kind in ('module', 'external', 'class'):
                return self.resolve_attr(b, e.attr)
        return Target('unresolved', None, None)

    # ------------------------------------------------------------------ lookup helpers
    def function_of_node(self, node):
        m = getattr(self, '_by_node', None)
        if m is None:
            m = self._by_node = {id(f.node): f for f in self.functions.values()}
        return m.get(id(node))

    def func(self, key):
        f = self.functions.get(key)
        if f is None:
            raise AnalysisError('anchor %s not found in %s' % (key, self.root))
        return f

    def cls(self, name):
        c = self.classes.get(name)
        if c is None:
            raise AnalysisError('class %s not found' % name)
        return c

    def method(self, clsname, name):
        """Method as seen from class `clsname` (through MRO)."""
        c = self.cls(clsname)
        k, mem = self.lookup_member(c, name)
        if not isinstance(mem, Function):
            raise AnalysisError('%s.%s not found' % (clsname, name))
        return mem

    def analysed_functions(self, include_aux=False):
        out = []
        for f in self.functions.values():
            if not include_aux and f.module.short in ('base/animate', 'timing'):
                continue
            out.append(f)
        return out

    def digests(self):
        return {m.relpath: m.digest for m in self.modules.values()}


def _target_names(t):
    if isinstance(t, ast.Name):
        yield t.id
    elif isinstance(t, (ast.Tuple, ast.List)):
        for e in t.elts:
            yield from _target_names(e)
    elif isinstance(t, ast.Starred):
        yield from _target_names(t.value)


def _is_main_guard(test):
    return (isinstance(test, ast.Compare) and isinstance(test.left, ast.Name)
            and test.left.id == '__name__')


_PROGRAM = None


def program():
    global _PROGRAM
    if _PROGRAM is None or _PROGRAM.root != repo_root():
        _PROGRAM = Program()
    return _PROGRAM
