"""Call graph over resolved callees (functions, methods through the MRO incl. overrides,
property reads on the receiver, constructors)."""
import ast

from .model import Function, Class, program
from .scope import FuncInfo


def own_walk(node, include_lambdas=True):
    """Walk the AST of a function body without descending into nested defs/classes
    (lambdas and comprehensions are part of the enclosing function)."""
    stack = list(ast.iter_child_nodes(node))
    while stack:
        n = stack.pop()
        yield n
        if isinstance(n, (ast.FunctionDef, ast.AsyncFunctionDef, ast.ClassDef)):
            continue
        if isinstance(n, ast.Lambda) and not include_lambdas:
            continue
        stack.extend(ast.iter_child_nodes(n))


def method_candidates(prog, cls, name):
    """All implementations that `obj.name` may denote when obj is an instance of cls or of a
    subclass of cls."""
    out = []
    k, mem = prog.lookup_member(cls, name)
    if isinstance(mem, Function):
        out.append(mem)
    for sub in prog.subclasses(cls, strict=True):
        k2, m2 = prog.lookup_member(sub, name)
        if isinstance(m2, Function) and m2 not in out:
            out.append(m2)
    return out


_by_name = {}


def methods_named(prog, name):
    """every method of a package class with this name (receivers of unknown class); names that numpy arrays, lists,
    strings or dicts also answer are not resolved this way"""
    key = id(prog)
    if key not in _by_name:
        idx = {}
        for f in prog.functions.values():
            if f.cls is not None and f.parent is None and f.module.short != 'stdlib/collections':
                idx.setdefault(f.name, []).append(f)
        _by_name[key] = idx
    if name in _FOREIGN:
        return []
    return _by_name[key].get(name, [])


_FOREIGN = set(dir(list)) | set(dir(dict)) | set(dir(str)) | set(dir(tuple)) | {
    'T', 'shape', 'dtype', 'flatten', 'diagonal', 'reshape', 'copy', 'ndim', 'size', 'astype', 'tolist', 'real', 'imag', 'conj',
    'dot', 'sum', 'ravel', 'squeeze', 'trace', 'argmax', 'max', 'min', 'all', 'any', 'transpose', 'item', 'flat', 'fill', 'mean',
    'round', 'view', 'subs', 'simplify', 'evalf', 'plot', 'add', 'set', 'get'}

_local_alias_cache = {}


def local_aliases(fi):
    """local name -> set of Functions, for locals that are only ever assigned resolvable callables
    (e.g. `log = base.trlog2` / `log = base.trlog`)."""
    key = (id(fi.prog), fi.f.key)
    if key in _local_alias_cache:
        return _local_alias_cache[key]
    cands = {}
    bad = set()
    for n in own_walk(fi.f.node):
        if isinstance(n, ast.Assign) and len(n.targets) == 1 and isinstance(n.targets[0], ast.Name):
            nm = n.targets[0].id
            t = fi.resolve(n.value) if isinstance(n.value, (ast.Name, ast.Attribute)) else None
            if t is not None and t.kind in ('func', 'method') and isinstance(t.obj, Function):
                cands.setdefault(nm, set()).add(t.obj)
            else:
                bad.add(nm)
        elif isinstance(n, (ast.For, ast.AugAssign)):
            for x in ast.walk(n.target):
                if isinstance(x, ast.Name):
                    bad.add(x.id)
    res = {k: v for k, v in cands.items() if k not in bad}
    _local_alias_cache[key] = res
    return res


def callees(f, prog=None):
    """Set of repo Functions that f may call/evaluate (calls, property reads on self, ctor)."""
    prog = prog or program()
    fi = FuncInfo.of(f)
    out = set()
    selfs = fi.self_names()
    aliases = local_aliases(fi)
    oc = fi.owner_class()
    for n in own_walk(f.node):
        if isinstance(n, ast.Call):
            t = fi.resolve(n.func)
            if t.kind in ('func',) and isinstance(t.obj, Function):
                out.add(t.obj)
            elif t.kind == 'method' and isinstance(t.obj, Function):
                out.add(t.obj)
                # dynamic dispatch on the receiver
                if isinstance(n.func, ast.Attribute) and isinstance(n.func.value, ast.Name) \
                        and n.func.value.id in selfs and oc is not None:
                    for m in method_candidates(prog, oc, n.func.attr):
                        out.add(m)
            elif t.kind == 'class' and isinstance(t.obj, Class):
                k, init = prog.lookup_member(t.obj, '__init__')
                if isinstance(init, Function):
                    out.add(init)
            elif t.kind == 'selfclass' and oc is not None:
                for sub in prog.subclasses(oc):
                    k, init = prog.lookup_member(sub, '__init__')
                    if isinstance(init, Function):
                        out.add(init)
            elif t.kind == 'local' and isinstance(n.func, ast.Name) and n.func.id in aliases:
                out.update(aliases[n.func.id])
            elif isinstance(n.func, ast.Attribute) and not (isinstance(n.func.value, ast.Name) and n.func.value.id in selfs):
                # receiver of unknown class (a parameter, an element, a call result): class-hierarchy analysis by method name
                out.update(methods_named(prog, n.func.attr))
        elif isinstance(n, ast.Attribute) and isinstance(n.ctx, ast.Load):
            if isinstance(n.value, ast.Name) and n.value.id in selfs and oc is not None:
                for m in method_candidates(prog, oc, n.attr):
                    if m.kind == 'property':
                        out.add(m)
    # nested functions defined inside f are evaluated as part of f
    for g in prog.functions.values():
        if g.parent is f:
            out.add(g)
    return {g for g in out if isinstance(g, Function) and g.module.short != 'stdlib/collections'}


_cg_cache = {}


def closure(roots, depth=None, prog=None):
    prog = prog or program()
    seen = {}
    frontier = [(f, 0) for f in roots]
    while frontier:
        f, d = frontier.pop()
        if f.key in seen and seen[f.key][1] <= d:
            continue
        seen[f.key] = (f, d)
        if depth is not None and d >= depth:
            continue
        ck = (id(prog), f.key)
        if ck not in _cg_cache:
            _cg_cache[ck] = callees(f, prog)
        for g in _cg_cache[ck]:
            frontier.append((g, d + 1))
    return [v[0] for v in seen.values()]
