"""Obligation records, verdicts, known-findings matching, evidence and replay files."""
import ast
import hashlib
import json
import os
import re
import time

from .model import AnalysisError, program

VERIF = os.path.dirname(os.path.dirname(os.path.abspath(__file__)))


def evidence_dir():
    # scratch runs (seeded variants, self-test twins) must not overwrite the committed evidence
    return os.environ.get('VERIF_EVIDENCE_DIR') or os.path.join(VERIF, 'evidence')

HOLDS, VIOLATION, UNDECIDED, INFO = 'holds', 'violation', 'undecided', 'info'


def norm_src(node_or_text):
    """Normalised text of a construct (no positions; whitespace/quote independent)."""
    if isinstance(node_or_text, ast.AST):
        try:
            return ast.unparse(node_or_text)
        except Exception:
            return ast.dump(node_or_text)
    return re.sub(r'\s+', ' ', str(node_or_text)).strip()


class Run:
    def __init__(self, pid, tier='quick'):
        self.pid = pid
        self.tier = tier
        self.t0 = time.time()
        self.obs = []
        self.floors = {}
        self.errors = []
        self.unrecognised = []
        self.assumptions = []
        self.trusted = []
        self.explanation = ''
        self.exhaustive = None
        self.extra = {}
        self.prog = program()
        self._keys = set()

    # -------------------------------------------------------------- recording
    def ob(self, rule, subject, construct, status, msg='', f=None, node=None, nontrivial=True,
           path=None, detail=None):
        """Record one rule instance (obligation).
        subject: qualified name the instance is about; construct: normalised construct text."""
        key = '%s|%s|%s' % (rule, subject, norm_src(construct))
        where = ''
        if f is not None:
            where = f.loc(node)
        elif node is not None:
            where = 'line %d' % getattr(node, 'lineno', 0)
        rec = {'rule': rule, 'subject': subject, 'construct': norm_src(construct), 'key': key,
               'status': status, 'msg': msg, 'where': where, 'nontrivial': bool(nontrivial)}
        if path:
            rec['path'] = path
        if detail is not None:
            rec['detail'] = detail
        if key in self._keys and status != VIOLATION:
            # the same instance reached twice (e.g. via two anchors): keep one
            for o in self.obs:
                if o['key'] == key:
                    if o['status'] == HOLDS and status != HOLDS:
                        o.update(rec)
                    return o
        self._keys.add(key)
        self.obs.append(rec)
        return rec

    def holds(self, rule, subject, construct, msg='', **kw):
        return self.ob(rule, subject, construct, HOLDS, msg, **kw)

    def violation(self, rule, subject, construct, msg='', **kw):
        return self.ob(rule, subject, construct, VIOLATION, msg, **kw)

    def undecided(self, rule, subject, construct, msg='', **kw):
        return self.ob(rule, subject, construct, UNDECIDED, msg, **kw)

    def info(self, rule, subject, construct, msg='', **kw):
        kw.setdefault('nontrivial', False)
        return self.ob(rule, subject, construct, INFO, msg, **kw)

    def floor(self, rule, n, why=''):
        self.floors[rule] = max(self.floors.get(rule, 0), n)

    HARD = ('anchor ', 'below the confirmed floor', 'budget exceeded', 'internal error', 'sensitivity witness', 'twin',
            'CFG recursion', 'not found in the current source', 'carry the SymPy mark', 'resolved (expected')

    def error(self, msg, hard=None):
        """hard: the analysis itself is broken (missing anchor, instance floor, budget, twin lost) -> ANALYSIS-ERROR, exit 2.
        soft (default for every other message): the analysed construct has a SHAPE the rule does not recognise.  Nothing is
        known about that construct -- neither that it holds nor that it is violated -- so it is recorded as an undecided
        instance, printed as an UNRECOGNISED line and does not change the exit code (set VERIF_STRICT_FORMS=1 to make these
        fatal again: fail-closed development mode)."""
        if hard is None:
            hard = any(k in msg for k in self.HARD)
        if hard or os.environ.get('VERIF_STRICT_FORMS') == '1':
            self.errors.append(msg)
            return
        m = re.match(r'^\s*(R\w+|RL|C\d+)\b', msg)
        rule = m.group(1) if m else 'form'
        if msg not in self.unrecognised:
            self.unrecognised.append(msg)
            self.ob(rule, '(unrecognised form)', msg[:120], UNDECIDED, msg)

    def assume(self, *a):
        for x in a:
            if x not in self.assumptions:
                self.assumptions.append(x)

    def trust(self, *a):
        for x in a:
            if x not in self.trusted:
                self.trusted.append(x)

    # -------------------------------------------------------------- finishing
    def finish(self, quiet=False, only_key=None):
        known = load_known()
        counts = {}
        for o in self.obs:
            if o['status'] != INFO:
                counts[o['rule']] = counts.get(o['rule'], 0) + 1
        for r, n in self.floors.items():
            if any(re.match(r'^\s*%s\b' % re.escape(r), m) for m in self.unrecognised):
                continue        # some construct of this rule has an unrecognised shape: its instances are undecided, not missing
            if counts.get(r, 0) < n:
                self.errors.append('rule %s examined %d instances for %s, below the confirmed floor %d'
                                   % (r, counts.get(r, 0), self.pid, n))
        viols = [o for o in self.obs if o['status'] == VIOLATION]
        new_v, known_v = [], []
        for v in viols:
            k = match_known(known, v['key'])
            if k is not None and k.get('status') == 'known':
                known_v.append((v, k))
            else:
                new_v.append(v)
        lines = []
        code = 0
        seen_known = set()
        for v, k in known_v:
            if k['key'] in seen_known:
                continue
            seen_known.add(k['key'])
            lines.append('KNOWN-FINDING: property=%s %s [%s @ %s]' % (self.pid, k['what'], v['rule'], v['where']))
        stale = []
        for k in known:
            if k.get('status') == 'known' and self.pid in k.get('properties', []) and k['key'] not in seen_known:
                stale.append(k)
                lines.append('STALE-KNOWN-FINDING: property=%s key=%s (no longer reported)' % (self.pid, k['key']))
        rdir = os.path.join(evidence_dir(), 'replay', self.pid)
        if only_key is None and os.path.isdir(rdir):
            for fn in os.listdir(rdir):
                if fn.endswith('.json'):
                    os.remove(os.path.join(rdir, fn))
        for v in new_v:
            if only_key is not None and v['key'] != only_key:
                continue
            os.makedirs(rdir, exist_ok=True)
            h = hashlib.sha1(v['key'].encode()).hexdigest()[:16]
            rp = os.path.join(rdir, h + '.json')
            with open(rp, 'w') as fh:
                json.dump({'property': self.pid, 'tier': self.tier, 'repo': self.prog.root, **v}, fh, indent=1)
            lines.append('%s: [%s/%s] %s :: %s' % (v['where'], v['rule'], v['subject'], v['msg'], v['construct'][:160]))
            if v.get('path'):
                lines.append('    path: ' + ' -> '.join(v['path']))
            lines.append('VIOLATION property=%s replay=%s' % (self.pid, os.path.relpath(rp, VERIF) if rp.startswith(VERIF) else rp))
            code = 1
        for e in self.unrecognised:
            lines.append('UNRECOGNISED property=%s %s' % (self.pid, e))
        if self.errors:
            for e in self.errors:
                lines.append('ANALYSIS-ERROR property=%s %s' % (self.pid, e))
            code = 2 if code == 0 else code
        ev = self.evidence(new_v, known_v, stale)
        if only_key is None:
            write_evidence(self.pid, ev)
        if not quiet:
            for l in lines:
                print(l)
            c = ev['coverage']
            print('%s %s: %d obligations, %d discharged, %d undecided, %d known findings, %d new violations, '
                  '%d analysis errors (%.2fs)' % (self.pid, self.tier, c['obligations'], c['discharged'],
                                                  c['undecided'], len(seen_known), len(new_v), len(self.errors),
                                                  ev['wall_s']))
        return code

    def evidence(self, new_v, known_v, stale):
        obs = [o for o in self.obs if o['status'] != INFO]
        per_rule = {}
        for o in obs:
            d = per_rule.setdefault(o['rule'], {'instances': 0, 'holds': 0, 'violation': 0, 'undecided': 0})
            d['instances'] += 1
            d[o['status']] += 1
        for r, n in self.floors.items():
            per_rule.setdefault(r, {'instances': 0, 'holds': 0, 'violation': 0, 'undecided': 0})['floor'] = n
        distinct = len({o['key'] for o in obs if o['nontrivial']})
        samples = []
        seen_rules = {}
        for o in obs:
            if seen_rules.get(o['rule'], 0) < 3:
                seen_rules[o['rule']] = seen_rules.get(o['rule'], 0) + 1
                samples.append({k: o[k] for k in ('rule', 'subject', 'construct', 'status', 'where', 'msg')})
        cov = {
            'explanation': self.explanation,
            'obligations': len(obs),
            'discharged': sum(1 for o in obs if o['status'] == HOLDS),
            'undecided': sum(1 for o in obs if o['status'] == UNDECIDED),
            'violations_known': len(known_v),
            'violations_new': len(new_v),
            'evaluations': len(obs),
            'distinct_nontrivial': distinct,
            'rule': 'one evaluation = one rule instance (rule x qualified construct) decided from the current '
                    'source; non-trivial = the construct contains at least one element the rule talks about; '
                    'distinct by instance key rule|subject|normalised construct',
            'samples': samples,
            'per_rule': per_rule,
            'checker_cmd': './check %s --tier %s' % (self.pid, self.tier),
            'trusted_base': self.trusted,
            'repo_root': self.prog.root,
            'files': self.prog.digests(),
            'undecided_instances': [{'rule': o['rule'], 'subject': o['subject'], 'construct': o['construct'][:200],
                                     'msg': o['msg']} for o in obs if o['status'] == UNDECIDED][:200],
            'known_findings': [{'key': k['key'], 'what': k['what']} for (_, k) in known_v],
            'info': [{'rule': o['rule'], 'subject': o['subject'], 'msg': o['msg']} for o in self.obs
                     if o['status'] == INFO][:100],
        }
        if self.exhaustive is not None:
            cov['exhaustive'] = self.exhaustive
        cov.update(self.extra)
        return {
            'property_id': self.pid,
            'tier': self.tier,
            'seed': int(os.environ.get('VERIF_SEED', '0') or 0),
            'level': 'other',
            'coverage': cov,
            'assumptions': self.assumptions,
            'wall_s': round(time.time() - self.t0, 3),
            'violations': len(new_v),
            'analysis_errors': self.errors,
            'unrecognised_forms': self.unrecognised,
        }


def write_evidence(pid, ev):
    d = evidence_dir()
    os.makedirs(d, exist_ok=True)
    tmp = os.path.join(d, pid + '.json.tmp')
    with open(tmp, 'w') as fh:
        json.dump(ev, fh, indent=1, sort_keys=False)
    os.replace(tmp, os.path.join(d, pid + '.json'))


def load_known():
    p = os.path.join(VERIF, 'known_findings.json')
    if not os.path.exists(p):
        return []
    with open(p) as fh:
        data = json.load(fh)
    return data.get('findings', [])


def match_known(known, key):
    for k in known:
        if k['key'] == key:
            return k
    return None
