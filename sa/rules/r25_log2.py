"""R25 -- the planar logarithm in closed form (C03, so(2) / se(2) part).

rot2's writer table is [[c, -s], [s, c]].  trlog2 must read the angle back as atan2(Y, X) with Y -> s and X -> c through that
table (quadrant-correct up to and including a half turn), and the translational part as  theta * V(theta)^-1 t  with
V/theta = [[A, -B], [B, A]],  A = sin(theta)/theta,  B = (1 - cos(theta))/theta,  i.e. v = [[A, B], [-B, A]] t / (A^2 + B^2),
where the division by theta is reached only under a test of theta itself (a pure translation has theta = 0 and is not the
identity).  A general-purpose matrix logarithm (scipy.linalg.logm) is a VIOLATION: at a rotation by pi the eigenvalues are -1 and
the principal logarithm is not real -- trlog2(rot2(pi), twist=True) was -6e-17-4e-34j and trlog2(trot2(pi, t=[1, 2])) raised
(found on the pinned tree after the checks had TRUSTED logm for this function)."""
import ast

from ..scope import FuncInfo
from ..pattern import canon, matches
from ..terms import Normaliser, Unrecognised
from ..astutil import src
from ..callgraph import own_walk

RULE = 'R25'


def _entry(e, T):
    """+-T[i, j] -> (sign, i, j)"""
    sign = 1
    while isinstance(e, ast.UnaryOp) and isinstance(e.op, ast.USub):
        sign, e = -sign, e.operand
    if isinstance(e, ast.Subscript) and isinstance(e.value, ast.Name) and e.value.id in T and isinstance(e.slice, ast.Tuple) and \
            len(e.slice.elts) == 2 and all(isinstance(x, ast.Constant) and isinstance(x.value, int) for x in e.slice.elts):
        return sign, e.slice.elts[0].value, e.slice.elts[1].value
    return None


WRITER = {(0, 0): ('c', 1), (0, 1): ('s', -1), (1, 0): ('s', 1), (1, 1): ('c', 1)}


def check_log2(run, rule=RULE):
    from .r16_tables import Ctx, sl_eval
    key = 'base/transforms2d:trlog2'
    cx = Ctx(run, key)
    f, fi = cx.f, cx.fi
    Tn = cx.pname(0)
    Ts = {Tn}
    for st in own_walk(f.node):
        if isinstance(st, ast.Assign) and isinstance(st.targets[0], ast.Name) and isinstance(st.value, ast.Name) and st.value.id == Tn:
            Ts.add(st.targets[0].id)
    # (a) no general matrix logarithm
    n_logm = 0
    for c in own_walk(f.node):
        if isinstance(c, ast.Call):
            t = fi.resolve(c.func)
            if t.kind == 'external' and str(t.obj).split('.')[-1] == 'logm':
                n_logm += 1
                run.violation(rule, key, 'general matrix logarithm ' + src(c, 40), 'the planar logarithm is computed by %s: at a rotation by pi the eigenvalues are -1 and '
                              'the principal matrix logarithm is not real -- trlog2(rot2(pi), twist=True) is complex (and ~0 instead of pi), '
                              'trlog2(trot2(pi, t=[1, 2])) raises, SE2(1, 2, pi).log() is a complex matrix that is not of algebra form' % src(c, 40), f=f, node=c)
    if n_logm:
        return
    paths = sl_eval(cx, with_conds=True, keep=('theta',))
    vals = [(r, e, cs) for (r, e, cs) in paths if matches('zeros(__)', e) is None]
    if len(vals) < 4:
        run.error('%s: trlog2: only %d non-identity value returns evaluated (expected >= 4)' % (rule, len(vals)))
        return
    # (b) the angle: every assignment to theta is atan2(Y, X) reading s and c of the writer
    n_theta = 0
    for st in own_walk(f.node):
        if isinstance(st, ast.Assign) and isinstance(st.targets[0], ast.Name) and st.targets[0].id == 'theta':
            n_theta += 1
            e = canon(fi, st.value, inline=False)
            b = matches('atan2(_Y, _X)', e)
            construct = 'angle reader ' + src(st.value, 40)
            if b is None:
                if matches('atan(_Q)', e) is not None or matches('acos(_Q)', e) is not None or matches('asin(_Q)', e) is not None:
                    run.violation(rule, key, construct, 'the angle is read with a one-argument inverse function: it cannot tell theta from '
                                  'pi - theta / -theta, so rotations beyond a quarter (or half) turn get the wrong logarithm', f=f, node=st)
                else:
                    run.error('%s: trlog2: theta is not atan2(..): %s' % (rule, src(st.value, 40)))
                continue
            ey, ex = _entry(b['_Y'], Ts), _entry(b['_X'], Ts)
            if ey is None or ex is None:
                run.error('%s: trlog2: atan2 arguments are not entries of the matrix: %s' % (rule, src(st.value, 40)))
                continue
            (sy, iy, jy), (sx, ix, jx) = ey, ex
            wy, wx = WRITER.get((iy, jy)), WRITER.get((ix, jx))
            if wy is None or wx is None:
                run.violation(rule, key, construct, 'the entries read are outside the 2x2 rotation block', f=f, node=st)
            elif wy[0] == 's' and wx[0] == 'c' and sy * wy[1] == 1 and sx * wx[1] == 1:
                run.holds(rule, key, construct, 'atan2(sin, cos) through the writer table [[c, -s], [s, c]]', f=f, node=st)
            else:
                def sym(w, sg):
                    return ('-' if sg * w[1] < 0 else '') + w[0]
                run.violation(rule, key, construct, 'through the writer table [[c, -s], [s, c]] the arguments compose to atan2(%s, %s), not to atan2(s, c): '
                              'log(exp(S)) does not return the rotation angle of S' % (sym(wy, sy), sym(wx, sx)), f=f, node=st)
    if n_theta < 2:
        run.error('%s: trlog2: fewer than 2 angle readers found (SO(2) and SE(2) arms)' % rule)
    # (c) the translational part on the SE(2) paths
    nm = Normaliser()
    n_v = 0
    for (r, e, conds) in vals:
        b = matches('r_[_V, theta]', e) or matches('Ab2M(skew(theta), _V)', e) or matches('Ab2M(skew([theta]), _V)', e)
        if b is None:
            continue
        V = b['_V']
        construct = 'translational part of ' + src(r.value, 40)
        n_v += 1
        tslot = '%s[:2, 2]' % Tn
        if any(matches(p_, V) is not None for p_ in (tslot, 'transl2(%s)' % Tn)):
            zero = any(pol and (matches('theta == 0', ce) is not None or matches('abs(theta) < _E', ce) is not None) for (ce, pol) in conds)
            if zero:
                run.holds(rule, key, construct, 'v = t on the path where theta == 0', f=f, node=r)
            else:
                run.violation(rule, key, construct, 'the translation is returned as the translational part of the logarithm without theta being zero: '
                              'for a rotating motion v = theta V^-1 t, not t', f=f, node=r)
            continue
        # M @ t / den   (or M / den @ t)
        m = None
        for pat in ('array(_M) @ _T / _D', 'array(_M) / _D @ _T', '(array(_M) @ _T) / _D'):
            m = matches(pat, V)
            if m is not None:
                break
        if m is None:
            m1 = matches('array(_M) @ _T', V)
            if m1 is not None:
                m = dict(m1)
                m['_D'] = ast.Constant(value=1)
        if m is None:
            run.error('%s: trlog2: translational part %s is not [[A, B], [-B, A]] @ t / (A^2 + B^2)' % (rule, src(V, 60)))
            continue
        if not any(matches(p_, m['_T']) is not None for p_ in (tslot, 'transl2(%s)' % Tn)):
            run.violation(rule, key, construct, 'the matrix is applied to %s, not to the translation %s' % (src(m['_T'], 30), tslot), f=f, node=r)
            continue
        M = m['_M']
        if not (isinstance(M, (ast.List, ast.Tuple)) and len(M.elts) == 2 and all(isinstance(x, (ast.List, ast.Tuple)) and len(x.elts) == 2 for x in M.elts)):
            run.error('%s: trlog2: the matrix of the translational part is not a 2x2 display' % rule)
            continue
        try:
            a11, a12, a21, a22 = [nm.poly(x) for row in M.elts for x in row.elts]
            den = nm.poly(m['_D'])
            A = nm.poly(ast.parse('sin(theta) / theta', mode='eval').body)
            Bs = [nm.poly(ast.parse(x, mode='eval').body) for x in ('(1 - cos(theta)) / theta', '2 * sin(theta / 2) ** 2 / theta')]
        except Unrecognised as ex:
            run.error('%s: trlog2 unrecognised: %s' % (rule, ex))
            continue
        probs = []
        if a11 != A or a22 != A:
            probs.append('the diagonal is %s / %s, not sin(theta)/theta' % (a11, a22))
        if a12 not in Bs or a21 != a12.scale(-1):
            probs.append('the off-diagonal pair is (%s, %s), not (B, -B) with B = (1 - cos(theta))/theta' % (a12, a21))
        if not probs and den != a11 * a11 + a12 * a12:
            probs.append('the divisor is %s, not A^2 + B^2' % den)
        if probs:
            run.violation(rule, key, construct, 'v = theta V(theta)^-1 t requires [[A, B], [-B, A]] t / (A^2 + B^2): ' + '; '.join(probs), f=f, node=r)
            continue
        guarded = any((not pol) and (matches('theta == 0', ce) is not None or matches('abs(theta) < _E', ce) is not None) or
                      pol and (matches('theta != 0', ce) is not None or matches('abs(theta) > _E', ce) is not None) for (ce, pol) in conds)
        if guarded:
            run.holds(rule, key, construct, 'theta V^-1 t in closed form, divided by theta only where theta != 0', f=f, node=r)
        else:
            run.violation(rule, key, construct, 'sin(theta)/theta is evaluated without a test of theta: a pure translation (theta = 0, not the '
                          'identity) divides 0 by 0', f=f, node=r)
    if n_v < 2:
        run.error('%s: trlog2: fewer than 2 SE(2) returns with a translational part recognised' % rule)
