"""R14 -- interpolation: range guard on every value path, shortest-arc block and its ordering, norm-preserving
return forms, endpoint/linear tables (T22, T23), routing of the class method."""
import ast

from ..scope import FuncInfo
from ..cfg import CFG, must_facts, header_expr
from ..callgraph import own_walk
from ..astutil import src, body_nodoc
from ..pattern import canon, matches, find_all
from ..terms import Normaliser, parse_expr, Unrecognised
from .r2_none import own_returns
from .r16_tables import Ctx, sl_eval, _enclosing_block, check_routes

RULE = 'R14'


def check_range_guard(run, key, sname):
    f = run.prog.func(key)
    cfg = CFG(f.node)
    facts = must_facts(cfg)
    reach = cfg.reachable()
    bad = []
    n = 0
    for r in own_returns(f.node):
        node = cfg.node_of(r)
        if node is None or node.id not in reach or r.value is None:
            continue
        n += 1
        ok = False
        for fc in facts.get(node.id, frozenset()):
            t, pol = fc[2].ast, fc[1]
            if pol and (matches('0 <= %s <= 1' % sname, t) is not None or matches('%s == 0' % sname, t) is not None
                        or matches('%s == 1' % sname, t) is not None or matches('0.0 <= %s <= 1.0' % sname, t) is not None):
                ok = True
            if (not pol) and (matches('%s < 0 or %s > 1' % (sname, sname), t) is not None):
                ok = True
        if not ok:
            bad.append(r)
    if bad:
        run.violation(RULE, key, 'range guard', 'a value is returned (line %d: %s) on a path that has not passed the test 0 <= %s <= 1 '
                      '(or an endpoint equality): s outside [0,1] is not rejected' % (bad[0].lineno, src(bad[0].value, 40), sname), f=f, node=bad[0])
    else:
        run.holds(RULE, key, 'range guard', 'all %d value returns are dominated by 0 <= %s <= 1 (or s == 0 / s == 1)' % (n, sname), f=f)


def check_shortest_block(run, key, qname, dname, anglefn='acos'):
    """Under shortest and dot < 0 both the quaternion and the dot product are negated, and the angle is computed
    from the dot product AFTER the flip."""
    f = run.prog.func(key)
    fi = FuncInfo.of(f)
    cfg = CFG(f.node)
    facts = must_facts(cfg)
    reach = cfg.reachable()
    flips = {}
    for node in cfg.nodes:
        a = node.ast
        if node.id in reach and node.kind == 'stmt' and isinstance(a, ast.Assign) and isinstance(a.targets[0], ast.Name):
            nm = a.targets[0].id
            if matches('-%s' % nm, a.value) is not None or matches('%s * -1' % nm, a.value) is not None:
                fs = facts.get(node.id, frozenset())
                under_short = any(fc[1] and isinstance(fc[2].ast, ast.Name) and fc[2].ast.id == 'shortest' for fc in fs)
                # (at dot == 0 both arcs are equally long: `<= 0` selects a shortest arc just as well)
                under_neg = any(fc[1] and (matches('%s < 0' % dname, fc[2].ast) is not None or matches('%s <= 0' % dname, fc[2].ast) is not None) for fc in fs)
                if under_short and under_neg:
                    flips[nm] = node
    if 'shortest' not in f.allparams:
        run.violation(RULE, key, 'shortest option', 'no `shortest` parameter', f=f)
        return
    if qname in flips and dname in flips:
        run.holds(RULE, key, 'shortest-arc flip', 'under shortest and %s < 0 both %s and %s are negated' % (dname, qname, dname), f=f)
    else:
        missing = [x for x in (qname, dname) if x not in flips]
        run.violation(RULE, key, 'shortest-arc flip', 'under `shortest and %s < 0` the negation of %s is missing: the interpolation does '
                      'not take (or is inconsistent on) the shorter arc' % (dname, ' and '.join(missing)), f=f)
        return
    # ordering: angle = acos(dot) must come after the flip
    ang = None
    for node in cfg.nodes:
        a = node.ast
        if node.id in reach and node.kind == 'stmt' and isinstance(a, ast.Assign):
            if find_all('%s(__)' % anglefn, canon(fi, a.value, inline=False)) and dname in {y.id for y in ast.walk(a.value) if isinstance(y, ast.Name)}:
                ang = node
    if ang is None:
        run.error('R14: %s: no angle = %s(%s) statement found' % (key, anglefn, dname))
        return
    # must-pass-through: every path to the angle computation evaluates the `shortest` test
    from ..cfg import header_expr
    def always_evaluates(t):
        # `a and shortest` evaluates shortest only when a is true: only the first operand of a boolean operator is certain
        if isinstance(t, ast.Name):
            return t.id == 'shortest'
        if isinstance(t, ast.BoolOp):
            return always_evaluates(t.values[0])
        if isinstance(t, ast.UnaryOp):
            return always_evaluates(t.operand)
        if isinstance(t, ast.Compare):
            return always_evaluates(t.left)
        return False
    tests = {n.id for n in cfg.nodes if n.id in reach and n.kind != 'stmt' and any(h is not None and always_evaluates(h) for h in header_expr(n))}
    witness = cfg.paths_to_exit_avoiding(lambda n: n.id in tests, target=ang.id)
    if witness is None:
        run.holds(RULE, key, 'shortest test on every path', 'every path to the angle computation passes the `shortest` test', f=f, node=ang.ast)
    else:
        run.violation(RULE, key, 'shortest test on every path', 'there is a path to the angle computation (%s) that never evaluates the `shortest` test (through line %s): on '
                      'that path (a call form / branch) shortest=True is ignored and the long arc is taken when the dot product is negative'
                      % (src(ang.ast, 40), ', '.join(str(getattr(n.ast, 'lineno', '?')) for n in witness[-4:-1] if n.ast is not None)), f=f, node=ang.ast)
    after = ang.id in cfg.reachable(flips[dname].id) and flips[dname].id not in cfg.reachable(ang.id)
    if after:
        run.holds(RULE, key, 'angle after flip', 'the angle is computed from the dot product after the shortest-arc sign flip', f=f, node=ang.ast)
    else:
        run.violation(RULE, key, 'angle after flip', 'the interpolation angle (%s) is computed BEFORE the shortest-arc sign flip of %s: '
                      'after the flip the weights use the long-arc angle with the short-arc quaternion' % (src(ang.ast, 40), dname), f=f, node=ang.ast)


def check_slerp_forms(run):
    """Every return of base.slerp is an endpoint or the spherical weighted sum (T23)."""
    cx = Ctx(run, 'base/quaternions:slerp')
    f = cx.f
    q0, q1, s = cx.pname(0), cx.pname(1), cx.pname(2)
    nm = Normaliser()
    nm.scalars = {s, 'theta', 's0', 's1'}
    th = 'acos(dotprod)'
    want = nm.poly(parse_expr('(({q0} * sin((1 - {s}) * {th})) + ({q1} * sin({s} * {th}))) / sin({th})'.format(q0=q0, q1=q1, s=s, th=th)))
    cfg = cx.cfg
    facts = cx.facts
    n = 0
    for r, fs in cx.returns():
        n += 1
        e = canon(cx.fi, r.value)
        construct = 'return ' + src(r.value, 50)
        if isinstance(e, ast.Name) and e.id in (q0, q1):
            # endpoint: q0 at s == 0 (or identical quaternions), q1 at s == 1
            at0 = any(fc[1] and matches('%s == 0' % s, fc[2].ast) is not None for fc in fs)
            at1 = any(fc[1] and matches('%s == 1' % s, fc[2].ast) is not None for fc in fs)
            if (e.id == q0 and at1) or (e.id == q1 and at0):
                run.violation(RULE, f.key, construct, 'endpoint returns are swapped: %s is returned at s == %d' % (e.id, 1 if at1 else 0), f=f, node=r)
            else:
                run.holds(RULE, f.key, construct, 'endpoint quaternion', f=f, node=r)
            continue
        try:
            g = nm.poly(e)
        except Unrecognised:
            g = None
        if g is not None and g == want:
            run.holds(RULE, f.key, construct, 'spherical weighted sum (q0 sin((1-s)t) + q1 sin(st)) / sin t', f=f, node=r)
            continue
        if matches('unit(__)', e) is not None:
            run.holds(RULE, f.key, construct, 'explicitly normalised', f=f, node=r)
            continue
        # an affine / linear blend of the endpoints that is not normalised is definitely not norm preserving
        names = {y.id for y in ast.walk(e) if isinstance(y, ast.Name)}
        if {q0, q1} <= names and not find_all('sin(__)', e):
            run.violation(RULE, f.key, construct, 'the interpolant is a linear blend of the two quaternions that is never normalised: '
                          'the result is not a unit quaternion (q2r of it is not orthonormal)', f=f, node=r)
        elif g is not None:
            run.violation(RULE, f.key, construct, 'the interpolant is %s; the spherical form is %s' % (g, want), f=f, node=r)
        else:
            run.error('R14: slerp: unrecognised return form %s' % src(r.value, 60))
    if n < 3:
        run.error('R14: slerp: only %d returns found' % n)


def check_uq_interp_forms(run):
    cx = Ctx(run, 'quaternion:UnitQuaternion.interp')
    f = cx.f
    nm = Normaliser()
    nm.scalars = {'s', 'theta', 'theta_0', 'dot', 's1', 's2'}
    t0 = 'acos(dot)'
    th = '(acos(dot) * s)'
    want = nm.poly(parse_expr('(q1 * (cos({th}) - dot * sin({th}) / sin({t0}))) + (q2 * (sin({th}) / sin({t0})))'.format(th=th, t0=t0)))
    ok = False
    # the weighted sum: the value bound to `out`, or -- when it is not named -- the sum of the two scaled quaternions handed to append()
    cands = []
    for st in own_walk(f.node):
        if isinstance(st, ast.Assign) and isinstance(st.targets[0], ast.Name) and st.targets[0].id == 'out':
            cands.append((st, st.value))
    if not cands:
        for c_ in own_walk(f.node):
            if isinstance(c_, ast.Call) and isinstance(c_.func, ast.Attribute) and c_.func.attr == 'append' and len(c_.args) == 1 and \
                    isinstance(c_.args[0], ast.BinOp) and isinstance(c_.args[0].op, ast.Add) and \
                    {'q1', 'q2'} <= {y.id for y in ast.walk(c_.args[0]) if isinstance(y, ast.Name)}:
                cands.append((c_, c_.args[0]))
    # name-independent: the argument of the normalising constructor on the evaluated paths (every local but q1, q2, dot put in place)
    if True:
        ev = []
        try:
            for (r_, e_) in sl_eval(cx, keep=('q1', 'q2', 'dot')):
                b_ = matches('UnitQuaternion(_X)', e_)
                if b_ is not None and {'q1', 'q2'} <= {y.id for y in ast.walk(b_['_X']) if isinstance(y, ast.Name)}:
                    ev.append((r_, b_['_X']))
        except Exception:
            ev = []
        if ev:
            cands = ev
    for (st, val) in cands:
        if True:
            try:
                g = nm.poly(canon(cx.fi, val))
            except Unrecognised:
                g = None
            if g == want:
                ok = True
                run.holds(RULE, f.key, 'weighted sum', 'q1 (cos t - d sin t / sin t0) + q2 sin t / sin t0', f=f, node=st)
            elif g is not None:
                run.violation(RULE, f.key, 'weighted sum', 'interpolant is %s; the spherical form is %s' % (g, want), f=f, node=st)
                ok = True
    if not ok:
        run.error('R14: UnitQuaternion.interp: no `out = ...` weighted sum found')
    # results are built with the normalising constructor; endpoints returned at s == 0 / s == 1
    for r, fs in cx.returns():
        e = r.value
        construct = 'return ' + src(e, 40)
        if matches('UnitQuaternion(__)', e) is not None or matches('UnitQuaternion()', e) is not None:
            run.holds(RULE, f.key, construct, 'result through the normalising constructor', f=f, node=r)
        elif isinstance(e, ast.Name) and e.id in (f.selfname, 'dest'):
            at0 = any(fc[1] and matches('s == 0', fc[2].ast) is not None for fc in fs)
            at1 = any(fc[1] and matches('s == 1', fc[2].ast) is not None for fc in fs)
            has_dest = any((not fc[1]) and matches('dest is None', fc[2].ast) is not None or fc[1] and matches('dest is not None', fc[2].ast) is not None for fc in fs)
            good = (has_dest and ((e.id == f.selfname and at0) or (e.id == 'dest' and at1))) or \
                (not has_dest and e.id == f.selfname and at1)
            if good:
                run.holds(RULE, f.key, construct, 'endpoint', f=f, node=r)
            else:
                run.violation(RULE, f.key, construct, 'endpoint return does not match its guard (start at s == 0, end at s == 1)', f=f, node=r)
        else:
            run.undecided(RULE, f.key, construct, 'unrecognised return', f=f, node=r)


def check_trinterp_tables(run):
    """T22: quaternion order in slerp, identity start, linear translation, rt2tr(q2r(qr), pr)."""
    cx = Ctx(run, 'base/transforms3d:trinterp')
    f = cx.f
    start, end, s = cx.pname(0), cx.pname(1), cx.pname(2)
    rets = sl_eval(cx)
    nm = Normaliser()
    nm.scalars = {s}
    exp = {
        ('rot', True): 'q2r(slerp(eye(), r2q({e}), {s}))',
        ('rot', False): 'q2r(slerp(r2q({b}), r2q({e}), {s}))',
        ('hom', True): 'rt2tr(q2r(slerp(eye(), r2q(t2r({e})), {s})), {s} * transl({e}))',
        ('hom', False): 'rt2tr(q2r(slerp(r2q(t2r({b})), r2q(t2r({e})), {s})), transl({b}) * (1 - {s}) + {s} * transl({e}))',
    }
    wants = {k: nm.poly(parse_expr(v.format(b=start, e=end, s=s))) for k, v in exp.items()}
    seen = set()
    for (r, e) in rets:
        try:
            g = nm.poly(e)
        except Unrecognised:
            run.error('R14: trinterp: unrecognised return')
            continue
        hit = [k for k, w in wants.items() if w == g]
        construct = 'return ' + src(r.value, 40) + ' @%s' % ('hom' if 'rt2tr' in ast.unparse(e) else 'rot')
        if hit:
            seen.add(hit[0])
            run.holds(RULE, f.key, 'T22 %s %s' % (hit[0][0], 'identity start' if hit[0][1] else 'explicit start'),
                      'slerp(start, end, s) -> q2r; translation linear in s', f=f, node=r)
        else:
            kind = 'hom' if find_all('rt2tr(__, __)', e) else 'rot'
            cand = [w for k, w in wants.items() if k[0] == kind]
            run.violation(RULE, f.key, 'T22 ' + src(r.value, 40), 'interpolant is %s; the definition is %s' % (g, ' or '.join(str(c) for c in cand)), f=f, node=r)
    for k in wants:
        if k not in seen and not any(o['rule'] == RULE and o['subject'] == f.key and o['status'] == 'violation' for o in run.obs):
            run.error('R14: trinterp: case %s not found' % (k,))
    # 2D
    cx2 = Ctx(run, 'base/transforms2d:trinterp2')
    f2 = cx2.f
    b, e_, s2 = cx2.pname(0), cx2.pname(1), cx2.pname(2)
    nm2 = Normaliser()
    nm2.scalars = {s2}
    A = lambda m: 'atan2(%s[1, 0], %s[0, 0])' % (m, m)
    exp2 = [
        'rot2({s} * {ae})', 'rot2({ab} * (1 - {s}) + {s} * {ae})',
        'rt2tr(rot2({s} * {ae}), {s} * transl2({e}))',
        'rt2tr(rot2({ab} * (1 - {s}) + {s} * {ae}), transl2({b}) * (1 - {s}) + {s} * transl2({e}))',
    ]
    wants2 = [nm2.poly(parse_expr(x.format(s=s2, ab=A(b), ae=A(e_), b=b, e=e_))) for x in exp2]
    n = 0
    for (r, e) in sl_eval(cx2):
        try:
            g = nm2.poly(e)
        except Unrecognised:
            run.error('R14: trinterp2: unrecognised return')
            continue
        n += 1
        if g in wants2:
            run.holds(RULE, f2.key, 'linear angle/translation #%d' % wants2.index(g), 'angle and translation are the same linear form in s', f=f2, node=r)
        else:
            run.violation(RULE, f2.key, 'linear form ' + src(r.value, 40), 'interpolant is %s, not one of the linear forms' % g, f=f2, node=r)
    if n < 4:
        run.error('R14: trinterp2: only %d value returns evaluated' % n)


ROUTES_C11 = [
    ('super_pose:SMPose.interp', '2D vector s -> trinterp2 per s', ['self.__class__([trinterp2(start, self.A, s=_s) for _s in s])'], 'any'),
    ('super_pose:SMPose.interp', '2D sequence -> trinterp2 per element', ['self.__class__([trinterp2(start, x, s=s[0]) for x in self.data])'], 'any'),
    ('super_pose:SMPose.interp', '3D vector s -> trinterp per s', ['self.__class__([trinterp(start, self.A, s=_s) for _s in s])'], 'any'),
    ('super_pose:SMPose.interp', '3D sequence -> trinterp per element', ['self.__class__([trinterp(start, x, s=s[0]) for x in self.data])'], 'any'),
]


def run_r14(run):
    check_range_guard(run, 'base/transforms3d:trinterp', 's')
    check_range_guard(run, 'base/quaternions:slerp', 's')
    check_range_guard(run, 'quaternion:UnitQuaternion.interp', 's')
    check_shortest_block(run, 'base/quaternions:slerp', 'q0', 'dotprod')
    check_shortest_block(run, 'quaternion:UnitQuaternion.interp', 'q1', 'dot')
    check_arc_option_threading(run)
    check_slerp_forms(run)
    check_uq_interp_forms(run)
    check_trinterp_tables(run)
    check_routes(run, ROUTES_C11, rule='R14')
    # routing by dimension in SMPose.interp: every reference to an interpolator (a call, or the function taken as a value) lies
    # under the matching N test
    f = run.prog.func('super_pose:SMPose.interp')
    fi = FuncInfo.of(f)
    cfg = CFG(f.node)
    facts = must_facts(cfg)
    reach = cfg.reachable()
    from ..cfg import header_expr
    ok2 = ok3 = False
    for node in cfg.nodes:
        if node.id not in reach:
            continue
        fs = facts.get(node.id, frozenset())
        n2 = any(fc[1] and matches('self.N == 2', fc[2].ast) is not None for fc in fs)
        n3 = any(fc[1] and matches('self.N == 3', fc[2].ast) is not None for fc in fs) or \
            any((not fc[1]) and matches('self.N == 2', fc[2].ast) is not None for fc in fs)
        for h in header_expr(node):
            if h is None:
                continue
            for x in ast.walk(h):
                if not isinstance(x, (ast.Name, ast.Attribute)):
                    continue
                nm = x.attr if isinstance(x, ast.Attribute) else x.id
                if nm not in ('trinterp', 'trinterp2'):
                    continue
                t = fi.resolve(x)
                if getattr(t, 'kind', None) != 'func':
                    continue
                if nm == 'trinterp2':
                    if n2:
                        ok2 = True
                    else:
                        run.violation(RULE, f.key, 'dimension routing', 'the 2-D interpolator trinterp2 is used where N == 2 is not established'
                                      + (' (N == 3 branch)' if n3 else ''), f=f, node=x)
                else:
                    if n3:
                        ok3 = True
                    else:
                        run.violation(RULE, f.key, 'dimension routing', 'the 3-D interpolator trinterp is used where N == 3 is not established'
                                      + (' (N == 2 branch)' if n2 else ''), f=f, node=x)
    if ok2 and ok3:
        run.holds(RULE, f.key, 'dimension routing', 'N == 2 -> trinterp2, N == 3 -> trinterp', f=f)
    else:
        run.error('R14: SMPose.interp: no reference to %s found under its N test' % ' / '.join(n for n, o in (('trinterp2', ok2), ('trinterp', ok3)) if not o))


def check_arc_option_threading(run, rule=RULE):
    """The arc an interpolation takes is the caller's choice where the function has a `shortest` parameter, and the arc of the
    matrix interpolator (trinterp -> slerp with its default) where it has none.  A call that passes a LITERAL shortest=... inside a
    function without a `shortest` parameter fixes an arc the caller cannot see: the route then disagrees with its sibling routes
    (vector s / scalar s; pose method / trinterp) whenever the quaternion dot product is negative."""
    n = 0
    for f in run.prog.analysed_functions():
        if f.module.short in ('timing', 'base/animate', 'base/graphics', 'stdlib/collections'):
            continue
        for c in own_walk(f.node):
            if not isinstance(c, ast.Call):
                continue
            for k in c.keywords:
                if k.arg != 'shortest':
                    continue
                n += 1
                construct = 'shortest option in ' + src(c, 50)
                if isinstance(k.value, ast.Name) and k.value.id in f.allparams:
                    run.holds(rule, f.key, construct, 'the caller\'s own option is passed on', f=f, node=c)
                elif isinstance(k.value, ast.Constant) and 'shortest' not in f.allparams and k.value.value is not False:
                    run.violation(rule, f.key, construct, '%s has no `shortest` parameter but fixes shortest=%r in this call: on this route the interpolation takes '
                                  'another arc than the routes that go through trinterp / the default whenever the quaternion dot product of the end points is '
                                  'negative' % (f.name, k.value.value), f=f, node=c)
                else:
                    run.holds(rule, f.key, construct, 'explicit default / derived value', f=f, node=c)
    return n
