"""R24 -- a NumPy view is read after the storage it looks at was overwritten.

`v = A[<basic slices>]`, `v.T`, `v.transpose(..)`, `v.swapaxes(..)`, `v.reshape(..)` of such a value are VIEWS: they own no data.
If, later in the same statement list, a region of A that overlaps the view's region is stored to (`A[..] = ..`, `A[..] op= ..`)
and the view is read after that store, the read sees the NEW contents of A -- the variable does not hold what it was assigned
(`Rt = R.transpose(0, 2, 1); A[:, :3, :3] = Rt; A[:, :3, 3:] = -Rt @ t` computes -R t, not -R^T t).  The read in the storing
statement itself is evaluated before the store and is fine.  Decided only where the overlap is certain: the two regions are
compared dimension by dimension on constant slices/indices, a dimension that cannot be compared counts as overlapping only if its
two texts are identical."""
import ast

from ..callgraph import own_walk
from ..astutil import src

VIEW_METHODS = {'transpose', 'swapaxes', 'reshape', 'view', 'squeeze', 'ravel'}
VIEW_ATTRS = {'T', 'real', 'imag', 'flat'}


def _dims(sl):
    return list(sl.elts) if isinstance(sl, ast.Tuple) else [sl]


def _basic(sl):
    """basic indexing only (ints, slices, None/Ellipsis): the result is a view"""
    for d in _dims(sl):
        if isinstance(d, ast.Slice):
            continue
        if isinstance(d, ast.Constant) and (isinstance(d.value, int) or d.value is None or d.value is Ellipsis):
            continue
        if isinstance(d, ast.UnaryOp) and isinstance(d.op, ast.USub) and isinstance(d.operand, ast.Constant):
            continue
        return False
    return True


def _interval(d):
    """constant half-open interval of one dimension, or None"""
    def cv(x):
        if x is None:
            return None
        if isinstance(x, ast.Constant) and isinstance(x.value, int):
            return x.value
        return 'x'
    if isinstance(d, ast.Constant) and isinstance(d.value, int) and d.value >= 0:
        return (d.value, d.value + 1)
    if isinstance(d, ast.Slice) and d.step is None:
        lo, hi = cv(d.lower), cv(d.upper)
        if lo == 'x' or hi == 'x' or (lo is not None and lo < 0) or (hi is not None and hi < 0):
            return None
        return (lo or 0, hi if hi is not None else 10 ** 9)
    return None


def _overlap(a, b):
    """certain overlap of two index expressions on the same array (None = whole array)"""
    if a is None or b is None:
        return True
    da, db = _dims(a), _dims(b)
    for i in range(min(len(da), len(db))):
        ia, ib = _interval(da[i]), _interval(db[i])
        if ia is not None and ib is not None:
            if ia[1] <= ib[0] or ib[1] <= ia[0]:
                return False
        elif ast.dump(da[i]) != ast.dump(db[i]):
            return None            # cannot tell
    return True


def check_view_overwrite(run, f, rule='R24'):
    n = 0

    def view_of(e, views):
        """-> (base name, region) if e evaluates to a view of a named array"""
        if isinstance(e, ast.Name) and e.id in views:
            return views[e.id]
        if isinstance(e, ast.Subscript) and isinstance(e.value, ast.Name) and _basic(e.slice):
            if e.value.id in views:
                b, r = views[e.value.id]
                return (b, r)          # a view of a view: keep the outer region (conservative: larger)
            return (e.value.id, e.slice)
        if isinstance(e, ast.Attribute) and e.attr in VIEW_ATTRS:
            return view_of(e.value, views)
        if isinstance(e, ast.Call) and isinstance(e.func, ast.Attribute) and e.func.attr in VIEW_METHODS:
            return view_of(e.func.value, views)
        return None

    def block(stmts):
        nonlocal n
        views = {}            # name -> (base, region)
        dirty = {}            # view name -> (store stmt, region text)
        for st in stmts:
            # reads of dirty views in this statement (anywhere, including nested blocks)
            for y in ast.walk(st):
                if isinstance(y, ast.Name) and isinstance(y.ctx, ast.Load) and y.id in dirty:
                    store, what = dirty[y.id]
                    b, r = views[y.id]
                    n += 1
                    run.violation(rule, f.key, 'view %s read after %s' % (y.id, what),
                                  '%s is a view of %s (it owns no data); %s at line %d overwrites the storage it looks at, and the read of %s '
                                  'here sees the new contents, not the value it was assigned' % (y.id, b, what, store.lineno, y.id), f=f, node=st)
                    dirty.pop(y.id)
            if isinstance(st, (ast.Assign, ast.AugAssign)):
                tgts = st.targets if isinstance(st, ast.Assign) else [st.target]
                for t in tgts:
                    if isinstance(t, ast.Subscript) and isinstance(t.value, ast.Name):
                        base, reg = t.value.id, t.slice
                        if base in views:
                            continue           # a store THROUGH a view: which part of the base it touches is not compared here
                        for vn, (b, r) in views.items():
                            if b == base and vn != t.value.id and _overlap(r, reg) is True:
                                dirty[vn] = (st, 'the store %s[%s] = ...' % (t.value.id, src(t.slice, 30)))
                    elif isinstance(t, ast.Name):
                        views.pop(t.id, None)
                        dirty.pop(t.id, None)
                        # rebinding the base invalidates nothing about old views (they keep the old buffer)
                        for vn in [k for k, (b, r) in views.items() if b == t.id]:
                            views.pop(vn)
                            dirty.pop(vn, None)
                        if isinstance(st, ast.Assign):
                            v = view_of(st.value, views)
                            if v is not None:
                                views[t.id] = v
            elif isinstance(st, (ast.If, ast.For, ast.While, ast.With, ast.Try)):
                # nested blocks are analysed on their own; names assigned inside are forgotten here
                for fld in ('body', 'orelse', 'finalbody'):
                    sub = getattr(st, fld, None)
                    if sub:
                        block(sub)
                for h in getattr(st, 'handlers', []) or []:
                    block(h.body)
                for y in ast.walk(st):
                    if isinstance(y, ast.Name) and isinstance(y.ctx, ast.Store):
                        views.pop(y.id, None)
                        dirty.pop(y.id, None)
        return views

    block(list(f.node.body))
    if n == 0:
        run.holds(rule, f.key, 'views read before their storage is overwritten', 'no view is read after an overlapping store to its base', f=f,
                  nontrivial=any(isinstance(x, ast.Subscript) and isinstance(x.ctx, ast.Store) for x in own_walk(f.node)))
    return n
