"""R11 -- symbolic safety of `:SymPy: supported` call trees.

Taint = arguments (and the receiver's stored value) of the functions/methods carrying the mark.  A violation is a
tainted value reaching a numeric-only primitive (math.*, float(), np.linalg.*, scipy.linalg.*, np.isscalar, an
ordering comparison used as a truth value) without a dominating symbolic guard, interprocedurally through function
summaries.  Sinks that are only reached when a `check` parameter is true are conditional on it."""
import ast

from ..model import Function, Class
from ..scope import FuncInfo
from ..cfg import CFG, must_facts, reaching_defs, header_expr
from ..callgraph import own_walk, method_candidates
from ..astutil import src, cname, ctarget, kwarg
from ..pattern import canon, matches, find_all

OPTION_PARAMS = {'unit', 'units', 'order', 'flip', 'check', 'samebody', 'twist', 'tol', 'norm', 'shortest', 'so3',
                 'out', 'dtype', 'dim', 'label', 'file', 'fmt', 'shape'}
UNTAINTED_CALLS = {'isinstance', 'len', 'type', 'issymbol', 'isscalar', 'isvector', 'ismatrix', 'ishom', 'isrot', 'ishom2',
                   'isrot2', 'isR', 'isskew', 'isskewa', 'iseye', 'isunitvec', 'iszerovec', 'iszero', 'callable', 'range',
                   'str', 'repr', 'format', 'print', 'isnumberlist', 'hasattr', 'id'}
MARK = ':SymPy: supported'


def marked(prog):
    return [f for f in prog.functions.values() if MARK in f.doc]


class Summary:
    def __init__(self):
        # param -> list of (sink description, cond, where, line, needs_scalar)
        self.sinks = {}

    def key(self):
        return tuple(sorted((p, tuple(sorted(set((d, str(c), ns) for (d, c, w, l, ns) in v)))) for p, v in self.sinks.items()))


SCALAR, ARRAY = 'scalar', 'array'


def param_kinds(f):
    """Documented kind of each non-option parameter: scalar (float/symbolic) or array."""
    from .r10_args import doc_types
    ty = doc_types(f)
    out = {}
    for p in f.allparams:
        if p in OPTION_PARAMS or p == f.selfname:
            continue
        t = ty.get(p, '')
        if re.search(r'\b(int)\b', t) and not re.search(r'float|array|symbol', t):
            continue     # integer exponents, counts: never symbolic
        if re.search(r'array|ndarray|matrix|vector', t) and not re.search(r'\bfloat\b', t):
            out[p] = {ARRAY}
        elif re.search(r'\bfloat\b|scalar|symbolic', t) and not re.search(r'array|ndarray', t):
            out[p] = {SCALAR}
        else:
            out[p] = {SCALAR, ARRAY}
    return out


import re  # noqa: E402


def _numeric_dtype(d):
    """the dtype expression names a numeric type (float, np.float64, 'float', int, ...), not object and not one derived from data"""
    if d is None:
        return False
    if isinstance(d, ast.Constant) and isinstance(d.value, str):
        return d.value.lower() not in ('o', 'object')
    nm = d.id if isinstance(d, ast.Name) else (d.attr if isinstance(d, ast.Attribute) else None)
    return nm in ('float', 'int', 'complex', 'float64', 'float32', 'float_', 'double', 'int64', 'int32', 'int_', 'longdouble', 'single')


class SymTaint:
    """Taint through plain (module-level) functions only; class constructors are handled by the check=False rule."""

    def __init__(self, prog):
        self.prog = prog
        self.summ = {}

    def analyse_all(self, funcs):
        funcs = [f for f in funcs if f.cls is None and f.parent is None]
        for f in funcs:
            self.summ[f.key] = Summary()
        changed = True
        it = 0
        while changed and it < 10:
            changed = False
            it += 1
            for f in funcs:
                old = self.summ[f.key].key()
                self.summ[f.key] = self.analyse(f)
                if self.summ[f.key].key() != old:
                    changed = True
        self.iterations = it
        return self

    def analyse(self, f, seed_kinds=None):
        """Summary of f: which parameters reach a numeric-only sink unguarded. seed_kinds restricts/labels kinds."""
        fi = FuncInfo.of(f)
        summ = Summary()
        params = [p for p in f.allparams if p not in OPTION_PARAMS and p != f.selfname]
        if not params:
            return summ
        cfg = CFG(f.node)
        facts = must_facts(cfg)
        reach = cfg.reachable()
        # origin: name -> set of (param, kind)
        origin = {p: {(p, k) for k in (seed_kinds or {}).get(p, {SCALAR, ARRAY})} for p in params}
        changed = True
        guard = 0
        while changed and guard < 20:
            changed = False
            guard += 1
            for n in own_walk(f.node):
                tgts, val, elem = [], None, False
                if isinstance(n, ast.Assign):
                    tgts, val = n.targets, n.value
                elif isinstance(n, ast.AugAssign):
                    tgts, val = [n.target], n.value
                elif isinstance(n, (ast.For, ast.comprehension)):
                    tgts, val, elem = [n.target], n.iter, True
                if val is None:
                    continue
                o = self.expr_origin(fi, val, origin)
                if elem:
                    o = {(p, SCALAR) for (p, k) in o}
                if not o:
                    continue
                for t in tgts:
                    for y in ast.walk(t):
                        if isinstance(y, ast.Name) and isinstance(y.ctx, ast.Store):
                            cur = origin.setdefault(y.id, set())
                            if not o <= cur:
                                cur |= o
                                changed = True
        for node in cfg.nodes:
            if node.id not in reach:
                continue
            fs = facts.get(node.id, frozenset())
            for h in header_expr(node):
                if h is None:
                    continue
                for x in ast.walk(h):
                    if isinstance(x, ast.Call):
                        nm = cname(fi, x)
                        sink = None
                        needs_scalar = False
                        if nm.startswith('math.') and nm.split('.')[-1] not in ('pi', 'e'):
                            sink = nm
                        elif nm in ('float', 'int'):
                            sink = nm + '()'
                        elif nm.startswith('numpy.linalg.') or nm.startswith('scipy.linalg.'):
                            sink = nm
                        elif nm == 'numpy.isscalar':
                            sink = 'numpy.isscalar (answers False for a SymPy scalar)'
                            needs_scalar = True
                        elif nm in ('numpy.array', 'numpy.asarray', 'numpy.asfarray', 'numpy.ascontiguousarray') and _numeric_dtype(kwarg(x, 'dtype') or (x.args[1] if len(x.args) > 1 else None)):
                            sink = '%s(..., dtype=%s): coercion to a numeric dtype' % (nm, src(kwarg(x, 'dtype') or x.args[1], 20))
                        elif nm in ('numpy.float64', 'numpy.float32', 'numpy.float_', 'numpy.double'):
                            sink = nm + '()'
                        elif isinstance(x.func, ast.Attribute) and x.func.attr == 'astype' and x.args and _numeric_dtype(x.args[0]):
                            sink = '.astype(%s): coercion to a numeric dtype' % src(x.args[0], 20)
                            for (p, k) in self.expr_origin(fi, x.func.value, origin):
                                if not self.guarded(fi, fs, x.func.value, x, h):
                                    self.add(summ, p, (sink, self.cond_of(fi, f, fs, x, h), f.key, getattr(x, 'lineno', 0), None))
                            sink = None
                        if sink:
                            for a in list(x.args) + [k.value for k in x.keywords]:
                                for (p, k) in self.expr_origin(fi, a, origin):
                                    if needs_scalar and k != SCALAR:
                                        continue
                                    if not self.guarded(fi, fs, a, x, h):
                                        cond = self.cond_of(fi, f, fs, x, h)
                                        self.add(summ, p, (sink, cond, f.key, getattr(x, 'lineno', 0), k if needs_scalar else None))
                        else:
                            self.call_through(fi, f, x, origin, fs, h, summ)
                    if isinstance(x, ast.Compare) and any(isinstance(o, (ast.Lt, ast.LtE, ast.Gt, ast.GtE)) for o in x.ops):
                        if self.in_truth_context(x, h, node):
                            for side in [x.left] + x.comparators:
                                for (p, k) in self.expr_origin(fi, side, origin):
                                    if k != SCALAR:
                                        continue
                                    if not self.guarded(fi, fs, side, x, h):
                                        cond = self.cond_of(fi, f, fs, x, h)
                                        self.add(summ, p, ('truth value of ' + src(x, 40), cond, f.key, getattr(x, 'lineno', 0), SCALAR))
        return summ

    @staticmethod
    def add(summ, p, ent):
        cur = summ.sinks.setdefault(p, [])
        if not any(e[0] == ent[0] and e[1] == ent[1] and e[2] == ent[2] and e[4] == ent[4] for e in cur) and len(cur) < 16:
            cur.append(ent)

    def expr_origin(self, fi, e, origin):
        out = set()
        if e is None:
            return out
        if isinstance(e, ast.Call):
            nm = cname(fi, e).split('.')[-1]
            if nm in UNTAINTED_CALLS or (nm.startswith('is') and nm != 'isscalar_'):
                return out
            for a in list(e.args) + [k.value for k in e.keywords]:
                out |= self.expr_origin(fi, a, origin)
            if isinstance(e.func, ast.Attribute):
                out |= self.expr_origin(fi, e.func.value, origin)
            if nm in ('getvector', 'array', 'asarray', 'r_', 'c_', 'zeros', 'eye', 'stack', 'rotx', 'roty', 'rotz', 'r2t',
                      'rt2tr', 'skew', 'skewa', 'transl', 'trotx', 'troty', 'trotz'):
                out = {(p, ARRAY) for (p, k) in out}
            elif nm in ('norm', 'normsq', 'det', 'trace', 'dot', 'sum', 'abs', 'sqrt', 'sin', 'cos'):
                out = {(p, SCALAR) for (p, k) in out}
            return out
        if isinstance(e, ast.Attribute):
            if e.attr in ('shape', 'dtype', 'ndim', 'size', 'kind', '__class__', '__name__', 'N', 'isSE', 'isSO'):
                return out
            return self.expr_origin(fi, e.value, origin)
        if isinstance(e, ast.Subscript):
            o = self.expr_origin(fi, e.value, origin)
            if isinstance(e.slice, (ast.Slice, ast.Tuple)) and any(isinstance(z, ast.Slice) for z in ast.walk(e.slice)):
                return {(p, ARRAY) for (p, k) in o}
            return {(p, SCALAR) for (p, k) in o}
        if isinstance(e, (ast.List, ast.Tuple)):
            for x in e.elts:
                out |= {(p, ARRAY) for (p, k) in self.expr_origin(fi, x, origin)}
            return out
        if isinstance(e, ast.Name):
            return set(origin.get(e.id, ()))
        if isinstance(e, (ast.Compare, ast.Lambda)):
            return out
        for c in ast.iter_child_nodes(e):
            if isinstance(c, ast.expr):
                out |= self.expr_origin(fi, c, origin)
            elif isinstance(c, ast.comprehension):
                out |= self.expr_origin(fi, c.iter, origin)
        return out

    def in_truth_context(self, cmp, h, node):
        if node.kind in ('if', 'while', 'assert') and h is node.ast.test:
            return True
        for y in ast.walk(h):
            if isinstance(y, ast.IfExp) and any(z is cmp for z in ast.walk(y.test)):
                return True
            if isinstance(y, ast.BoolOp) and any(z is cmp for v in y.values for z in ast.walk(v)):
                return True
            if isinstance(y, ast.UnaryOp) and isinstance(y.op, ast.Not) and any(z is cmp for z in ast.walk(y.operand)):
                return True
        return False

    def guarded(self, fi, facts, valexpr, sink, h):
        names = {y.id for y in ast.walk(valexpr) if isinstance(y, ast.Name)}
        for fc in facts:
            t, pol = fc[2].ast, fc[1]
            txt = ast.unparse(t)
            if not pol and ('issymbol(' in txt or 'sympy.Expr' in txt or 'symtype' in txt) and \
                    (names & {y.id for y in ast.walk(t) if isinstance(y, ast.Name)}):
                return True
            if not pol and ("dtype == 'O'" in txt or "dtype.kind == 'O'" in txt or 'dtype == object' in txt):
                return True
            if pol and "dtype.kind != 'O'" in txt:
                return True
        return False

    def cond_of(self, fi, f, facts, x, h):
        if 'check' not in f.allparams:
            return None
        for fc in facts:
            t, pol = fc[2].ast, fc[1]
            if isinstance(t, ast.Name) and t.id == 'check' and pol:
                return 'check'
            if pol and isinstance(t, ast.BoolOp) and isinstance(t.op, ast.And) and \
                    any(isinstance(v, ast.Name) and v.id == 'check' for v in t.values):
                return 'check'
        for y in ast.walk(h):
            if isinstance(y, ast.BoolOp):
                for i, v in enumerate(y.values):
                    if any(z is x for z in ast.walk(v)):
                        for b in y.values[:i]:
                            if isinstance(y.op, ast.Or) and isinstance(b, ast.UnaryOp) and isinstance(b.op, ast.Not) \
                                    and isinstance(b.operand, ast.Name) and b.operand.id == 'check':
                                return 'check'
                            if isinstance(y.op, ast.And) and isinstance(b, ast.Name) and b.id == 'check':
                                return 'check'
        return None

    def call_through(self, fi, f, call, origin, facts, h, summ):
        t = fi.resolve(call.func)
        if not (t.kind == 'func' and isinstance(t.obj, Function)):
            return
        g = t.obj
        s = self.summ.get(g.key)
        if s is None or not s.sinks:
            return
        gp = list(g.params)
        bound = {}
        for i, a in enumerate(call.args):
            if i < len(gp) and not isinstance(a, ast.Starred):
                bound[gp[i]] = a
        for k in call.keywords:
            if k.arg:
                bound[k.arg] = k.value
        chk = None
        if 'check' in g.allparams:
            ce = bound.get('check')
            if ce is None:
                d = g.defaults().get('check')
                chk = 'true' if (isinstance(d, ast.Constant) and d.value) else 'false'
            elif isinstance(ce, ast.Constant):
                chk = 'true' if ce.value else 'false'
            elif isinstance(ce, ast.Name) and ce.id == 'check' and 'check' in f.allparams:
                chk = 'forward'
            else:
                chk = 'true'
        for p, lst in s.sinks.items():
            a = bound.get(p)
            if a is None:
                continue
            srcs = self.expr_origin(fi, a, origin)
            if not srcs:
                continue
            if self.guarded(fi, facts, a, call, h):
                continue
            for (d, c, where, ln, ns) in lst:
                if c == 'check':
                    if chk == 'false':
                        continue
                    cond = 'check' if chk == 'forward' else None
                else:
                    cond = None
                cond = cond or self.cond_of(fi, f, facts, call, h)
                for (sp, k) in srcs:
                    if ns == SCALAR and k != SCALAR:
                        continue
                    self.add(summ, sp, (d, cond, where, ln, k if ns else None))


def _classes_with_numeric_validation(prog, st):
    """Classes whose isvalid reaches a function with numeric-only sinks (norm/det/comparisons)."""
    from ..callgraph import closure
    out = set()
    for c in prog.classes.values():
        k, mem = prog.lookup_member(c, 'isvalid')
        if isinstance(mem, Function) and mem.module.short != 'stdlib/collections':
            for g in closure([mem], depth=3, prog=prog):
                s = st.summ.get(g.key)
                if s is not None and any(any(e[0].startswith('numpy.linalg') or e[0].startswith('truth value') for e in v)
                                         for v in s.sinks.values()):
                    out.add(c.name)
    return out


def _vector_elements(a):
    """Is the constructor argument syntactically a 1-D vector / list of 1-D vectors (np.r_[...] of scalars)?"""
    e = a.elt if isinstance(a, ast.ListComp) else a
    return isinstance(e, ast.Subscript) and isinstance(e.value, ast.Attribute) and e.value.attr == 'r_'


def _isvalid_accepts_vectors(prog, cn):
    c = prog.classes.get(cn)
    if c is None:
        return False
    k, mem = prog.lookup_member(c, 'isvalid')
    if not isinstance(mem, Function):
        return False
    from ..astutil import body_nodoc
    b = body_nodoc(mem.node)
    if b and isinstance(b[0], ast.If) and 'isvector(' in ast.unparse(b[0].test) and len(b[0].body) == 1 \
            and isinstance(b[0].body[0], ast.Return) and isinstance(b[0].body[0].value, ast.Constant) and b[0].body[0].value.value is True:
        return True
    return False


def _ctor_calls(fi, f):
    """Calls that construct a library object inside f: cls(...), ClassName(...), self.__class__(...)"""
    out = []
    for x in own_walk(f.node):
        if isinstance(x, ast.Call):
            t = fi.resolve(x.func)
            if t.kind in ('class', 'selfclass') and (isinstance(t.obj, Class) or t.kind == 'selfclass'):
                out.append(x)
    return out


def run_r11(run, rule='R11'):
    prog = run.prog
    funcs = [f for f in prog.analysed_functions()]
    st = SymTaint(prog).analyse_all(funcs)
    ms = marked(prog)
    if len(ms) < 40:
        run.error('R11: only %d functions carry the SymPy mark (expected >= 40)' % len(ms))
    groups = {}
    numeric_valid = _classes_with_numeric_validation(prog, st)
    for f in ms:
        kinds = param_kinds(f)
        s = st.analyse(f, seed_kinds=kinds)
        bad = []
        for p, lst in s.sinks.items():
            if p not in kinds:
                continue
            for (d, c, where, ln, ns) in lst:
                if c == 'check':
                    continue
                bad.append((p, d, where, ln))
        if bad:
            for (p, d, where, ln) in bad:
                groups.setdefault((where, d.split(' (')[0], d), []).append((f.key, p, ln))
            run.info(rule, f.key, 'symbolic safety', 'reaches %d numeric-only sink(s): reported per sink' % len(bad), f=f)
        else:
            run.holds(rule, f.key, 'symbolic safety', 'no symbolic argument (%s) reaches a numeric-only primitive unguarded '
                      'through the base functions it calls' % (', '.join(sorted(kinds)) or 'none'), f=f, nontrivial=bool(kinds))
        # constructor rule: membership predicates are numeric-only, so symbolic values must be constructed unchecked
        if f.cls is not None and f.name != '__init__':
            fi = FuncInfo.of(f)
            for c in _ctor_calls(fi, f):
                if not c.args:
                    continue
                t = fi.resolve(c.func)
                cnames = [t.obj.name] if isinstance(t.obj, Class) and t.kind == 'class' else \
                    [k.name for k in prog.concrete_subclasses(f.cls)]
                if not any(cn in numeric_valid for cn in cnames):
                    run.holds('R11c', f.key, 'construct ' + src(c, 50), 'validity of %s is a shape test only' % '/'.join(cnames), f=f, node=c)
                    continue
                ck = kwarg(c, 'check')
                ok = isinstance(ck, ast.Constant) and ck.value is False
                fwd = isinstance(ck, ast.Name) and ck.id == 'check'
                if _vector_elements(c.args[0]) and all(_isvalid_accepts_vectors(prog, cn) for cn in cnames):
                    run.holds('R11c', f.key, 'construct ' + src(c, 50), 'elements are 1-D vectors, which isvalid accepts by '
                              'a shape test before any numeric predicate', f=f, node=c)
                    continue
                if ok:
                    run.holds('R11c', f.key, 'construct ' + src(c, 50), 'symbolic result is stored with check=False', f=f, node=c)
                elif fwd:
                    run.holds('R11c', f.key, 'construct ' + src(c, 50), 'check is the caller\'s choice', f=f, node=c)
                else:
                    run.violation('R11c', f.key, 'construct ' + src(c, 50), 'documented as supporting SymPy, but the result is passed '
                                  'to a constructor with the default check=True: the membership predicates (norm, det, '
                                  'ordering comparisons) are numeric-only and fail for a symbolic matrix', f=f, node=c)
    for (where, short, d), ents in sorted(groups.items()):
        who = sorted({e[0].split(':')[1] for e in ents})
        g = prog.functions.get(where)
        run.violation(rule, where, 'numeric-only %s on a symbolic value' % short,
                      '%s is applied to a value that is symbolic when called from the SymPy-supported entries %s: the symbolic '
                      'call fails or takes a different branch from the numeric one' % (d, ', '.join(who[:8]) + (' ...' if len(who) > 8 else '')),
                      f=g, detail={'entries': sorted({(e[0], e[1]) for e in ents})})
    run.extra['r11'] = {'marked': len(ms), 'iterations': st.iterations,
                        'functions_with_numeric_sinks': sum(1 for s in st.summ.values() if s.sinks)}
    return st


ALLOC_EXCEPTIONS = {
    'base/transforms2d:transl2': 'not SymPy-marked; reached from the marked vexa only with a 3x3 matrix argument, which takes the '
                                 'extraction branch (returns x[:2, 2]) and never the allocating branches',
}


def check_allocations(run, rule='R11a', only=None, floor=8, symbolic=True):
    """Object-dtype-aware allocation: in a SymPy-supported function and the base functions it calls, an array allocated
    with zeros/eye/identity/empty that receives values derived from the (possibly symbolic) arguments takes its dtype
    from them (dtype=X.dtype / 'O'), or the store is in the numeric branch of a dtype test."""
    from ..callgraph import closure
    prog = run.prog
    st = SymTaint(prog)
    S = {}
    for f in marked(prog):
        for g in closure([f], depth=2, prog=prog):
            if g.cls is None or g is f:
                S[g.key] = g
    n = 0
    for g in S.values():
        if only is not None and g.key not in only:
            continue
        if g.key in ALLOC_EXCEPTIONS:
            run.info(rule, g.key, 'allocation', ALLOC_EXCEPTIONS[g.key], f=g)
            continue
        fi = FuncInfo.of(g)
        params = [p for p in g.allparams if p not in OPTION_PARAMS and p != g.selfname]
        if not params:
            continue
        origin = {p: {(p, ARRAY)} for p in params}
        for _ in range(6):
            for x in own_walk(g.node):
                if isinstance(x, ast.Assign):
                    o = st.expr_origin(fi, x.value, origin)
                    if o:
                        for t in x.targets:
                            if isinstance(t, ast.Name):
                                origin.setdefault(t.id, set()).update(o)
        cfg = CFG(g.node)
        facts = must_facts(cfg)
        allocs = {}
        dtype_of = {}
        for x in own_walk(g.node):
            if isinstance(x, ast.Assign) and len(x.targets) == 1 and isinstance(x.targets[0], ast.Name) and isinstance(x.value, ast.Call):
                nm = cname(fi, x.value)
                if nm in ('numpy.zeros', 'numpy.eye', 'numpy.identity', 'numpy.empty', 'numpy.ones'):
                    dt = kwarg(x.value, 'dtype')
                    aware = dt is not None and ((isinstance(dt, ast.Attribute) and dt.attr == 'dtype') or
                                                (isinstance(dt, ast.Constant) and dt.value in ('O', 'object')) or
                                                (isinstance(dt, ast.Name) and dt.id == 'object'))
                    allocs.setdefault(x.targets[0].id, []).append((x, aware))
                    if dt is not None and isinstance(dt, ast.Attribute) and dt.attr == 'dtype' and isinstance(dt.value, ast.Name):
                        dtype_of.setdefault(x.targets[0].id, set()).add(dt.value.id)
        for node in cfg.nodes:
            a = node.ast
            if node.kind != 'stmt' or not isinstance(a, ast.Assign):
                continue
            for t in a.targets:
                if isinstance(t, ast.Subscript) and isinstance(t.value, ast.Name) and t.value.id in allocs:
                    if not st.expr_origin(fi, a.value, origin):
                        continue
                    n += 1
                    name = t.value.id
                    # the array takes its dtype from ONE argument: a value derived from another array argument may need a wider
                    # type (integer P, float Q: the store truncates silently)
                    srcs = dtype_of.get(name, set())
                    if srcs:
                        src_params = set()
                        for q in srcs:
                            src_params |= {p for (p, kind) in origin.get(q, set())} | {q}
                        others = sorted({p for (p, kind) in st.expr_origin(fi, a.value, origin)
                                         if p in params and kind == ARRAY and p not in src_params})
                        if others:
                            run.violation(rule, g.key, 'store into %s of a value from %s' % (name, '/'.join(others)),
                                          '%s is allocated with dtype=%s.dtype but receives %s, which is computed from the argument %s as well: '
                                          'when %s is an integer array (e.g. transl(1, 2, 3)) and %s is not, the result is truncated to '
                                          'integers' % (name, '/'.join(sorted(srcs)), src(a.value, 40), '/'.join(others), '/'.join(sorted(srcs)),
                                                        '/'.join(others)), f=g, node=a)
                            continue
                    if all(aw for (_, aw) in allocs[name]):
                        run.holds(rule, g.key, 'store into ' + name, 'allocated with a dtype taken from the argument', f=g, node=a)
                        continue
                    fs = facts.get(node.id, frozenset())
                    numeric_branch = any((not fc[1]) and ("dtype == 'O'" in ast.unparse(fc[2].ast) or "dtype.kind == 'O'" in ast.unparse(fc[2].ast))
                                         for fc in fs)
                    # allocation itself chosen per dtype branch (r2t): every alloc is either aware or under the numeric branch
                    ok = True
                    for (al, aw) in allocs[name]:
                        if aw:
                            continue
                        an = cfg.node_of(al)
                        afs = facts.get(an.id, frozenset()) if an else frozenset()
                        if not any((not fc[1]) and ("dtype == 'O'" in ast.unparse(fc[2].ast) or "dtype.kind == 'O'" in ast.unparse(fc[2].ast)) for fc in afs):
                            ok = False
                    if ok or numeric_branch:
                        run.holds(rule, g.key, 'store into ' + name, 'float allocation only in the numeric branch of a dtype test', f=g, node=a)
                    elif not symbolic:
                        # the caller decides the truncation clause only (a numeric property): whether a symbolic value can be stored is C16's subject
                        run.holds(rule, g.key, 'store into ' + name, 'float allocation: no truncation of numeric values', f=g, node=a, nontrivial=False)
                    else:
                        run.violation(rule, g.key, 'store into ' + name, 'argument-derived values (%s) are written into %s, which is '
                                      'allocated as a float array without regard to the argument dtype: a symbolic argument cannot be '
                                      'stored (TypeError) although the call tree is marked SymPy-supported' % (src(a.value, 40), name), f=g, node=a)
    if n < floor:
        run.error('R11a: only %d argument-derived stores into allocated arrays found (expected >= %d)' % (n, floor))


def check_getvector_dtype(run, rule='R11d'):
    """In getvector each container branch selects the conversion dtype symbol-aware: among the definitions of the
    dtype variable reaching `.astype(dt)` / `np.array(v, dtype=dt)` there is one made under a symbol test that applies
    to that container form (ndarray: dtype/kind == 'O'; list/tuple: issymbol)."""
    prog = run.prog
    f = prog.func('base/argcheck:getvector')
    fi = FuncInfo.of(f)
    cfg = CFG(f.node)
    facts = must_facts(cfg)
    IN, OUT = reaching_defs(cfg, f.allparams)
    reach = cfg.reachable()
    v = f.params[0]
    n = 0
    # container form by enclosing if/elif arm (rebinding v inside the arm, e.g. v = v.flatten(), keeps the form)
    form_of = {}

    def mark(stmts, form):
        for st in stmts:
            for y in ast.walk(st):
                form_of[id(y)] = form
    for y in own_walk(f.node):
        if isinstance(y, ast.If):
            node_if = y
            while True:
                if matches('isinstance(%s, np.ndarray)' % v, node_if.test) is not None:
                    mark(node_if.body, 'ndarray')
                elif matches('isinstance(%s, (list, tuple))' % v, node_if.test) is not None:
                    mark(node_if.body, 'list')
                if len(node_if.orelse) == 1 and isinstance(node_if.orelse[0], ast.If):
                    node_if = node_if.orelse[0]
                else:
                    break
    for node in cfg.nodes:
        if node.id not in reach:
            continue
        for h in header_expr(node):
            if h is None:
                continue
            for x in ast.walk(h):
                dt = None
                if isinstance(x, ast.Call) and isinstance(x.func, ast.Attribute) and x.func.attr == 'astype' and x.args:
                    dt = x.args[0]
                elif isinstance(x, ast.Call) and cname(fi, x) == 'numpy.array' and kwarg(x, 'dtype') is not None:
                    dt = kwarg(x, 'dtype')
                if dt is None or not isinstance(dt, ast.Name):
                    continue
                n += 1
                fs = facts.get(node.id, frozenset())
                form = form_of.get(id(x))
                defs = [d for (nm, d) in IN.get(node.id, ()) if nm == dt.id]
                ok = False
                for d in defs:
                    if d == cfg.entry.id:
                        continue
                    dfs = facts.get(d, frozenset())
                    for fc in dfs:
                        t, pol = fc[2].ast, fc[1]
                        txt = ast.unparse(t)
                        if not pol:
                            continue
                        if form == 'ndarray' and ("dtype.kind == 'O'" in txt or "dtype == 'O'" in txt or 'dtype == object' in txt):
                            ok = True
                        if form == 'list' and 'issymbol(' in txt:
                            ok = True
                construct = '%s branch: %s' % (form, src(x, 50))
                if form is None:
                    run.undecided(rule, f.key, construct, 'container form of the value not established at the conversion', f=f, node=x)
                elif ok:
                    run.holds(rule, f.key, construct, 'dtype %s is set under a symbol test for the %s form' % (dt.id, form), f=f, node=x)
                else:
                    run.violation(rule, f.key, construct, 'the %s form is converted with dtype %s, but no definition of %s reaching '
                                  'this point is made under a symbol test that applies to a %s (%s): an array of SymPy '
                                  'expressions is cast to float and raises TypeError'
                                  % (form, dt.id, dt.id, form, "v.dtype.kind == 'O'" if form == 'ndarray' else 'issymbol(v)'), f=f, node=x)
    if n < 6:
        run.error('R11d: only %d dtype conversions recognised in getvector (expected >= 4)' % n)


ASSUMING = {'posify': 'replaces every symbol by a positive one', 'refine': 'simplifies under extra assumptions'}


def check_assumption_free(run, rule='R11e'):
    """Symbolic branches must be value preserving for ALL real substitutions: a sympy call with force=True (powdenest, powsimp,
    expand_log, logcombine, ...) or posify simplifies as if every symbol were positive (sqrt(x**2) -> x), so the symbolic result
    disagrees with the numeric one for negative values."""
    prog = run.prog
    n = 0
    for f in prog.analysed_functions():
        fi = FuncInfo.of(f)
        for c in own_walk(f.node):
            if not isinstance(c, ast.Call):
                continue
            nm = cname(fi, c) or ''
            short = nm.split('.')[-1]
            is_sympy = nm.startswith('sympy') or nm.startswith('sym.')
            forced = any(k.arg == 'force' and isinstance(k.value, ast.Constant) and k.value.value is True for k in c.keywords)
            if is_sympy:
                n += 1
            if (forced and (is_sympy or short in ('powdenest', 'powsimp', 'expand_log', 'logcombine', 'expand_power_base', 'simplify'))) or \
                    (short in ASSUMING and (is_sympy or True) and short in ('posify',)):
                run.violation(rule, f.key, 'assumption-changing simplification ' + src(c, 50), '%s simplifies under the assumption that every symbol is '
                              'positive: the returned expression is not equal to the numeric result for negative substitutions '
                              '(sqrt(x**2) becomes x, not |x|)' % src(c.func, 30), f=f, node=c)
            elif is_sympy:
                run.holds(rule, f.key, 'sympy call ' + src(c, 40), 'no forced assumptions', f=f, node=c, nontrivial=False)
    return n


# ---------------------------------------------------------------------------------------------------------------- R11v
def check_vectorize_kernels(run, rule='R11v'):
    """`np.vectorize(f)` without `otypes` takes the dtype of the WHOLE output array from the result of the first element.  A kernel
    applied to the elements of a symbolic value (SymPy objects mixed with plain numbers) therefore has to return one kind on every
    path that can run while SymPy is available: if the SymPy route `sympy.<fn>(x)` is taken for some elements and the raw element is
    handed back for others, an array whose first element is a plain float is given a float dtype and the symbolic elements raise
    TypeError (or are truncated).  Decided per kernel: every value return is a SymPy call, or is reached only under the fact that
    SymPy is not available."""
    from ..scope import FuncInfo
    from ..cfg import CFG, must_facts
    from ..callgraph import own_walk
    prog = run.prog
    n = 0
    for f in prog.analysed_functions():
        fi = None
        for c in own_walk(f.node):
            if not (isinstance(c, ast.Call) and c.args and not any(k.arg == 'otypes' for k in c.keywords)):
                continue
            fi = fi or FuncInfo.of(f)
            t = fi.resolve(c.func)
            if not (t.kind == 'external' and str(t.obj).endswith('vectorize')):
                continue
            kt = fi.resolve(c.args[0])
            k = kt.obj if kt.kind == 'func' and isinstance(kt.obj, Function) else None
            if k is None:
                continue
            n += 1
            ki = FuncInfo.of(k)
            cfg = CFG(k.node)
            facts = must_facts(cfg)
            reach = cfg.reachable()
            kinds = []
            for r in own_walk(k.node):
                if not (isinstance(r, ast.Return) and r.value is not None):
                    continue
                node = cfg.node_of(r)
                if node is None or node.id not in reach:
                    continue
                v = r.value
                sym_call = isinstance(v, ast.Call) and ki.resolve(v.func).kind == 'external' and str(ki.resolve(v.func).obj).startswith('sympy')
                no_sympy = any((not fc[1]) and isinstance(fc[2].ast, ast.Name) and fc[2].ast.id == '_symbolics' for fc in facts.get(node.id, frozenset()))
                kinds.append((r, 'sympy' if sym_call else ('nosympy' if no_sympy else 'other')))
            other = [r for (r, kd) in kinds if kd == 'other']
            symr = [r for (r, kd) in kinds if kd == 'sympy']
            construct = 'vectorize(%s) result kinds' % k.name
            if symr and other:
                run.violation(rule, f.key, construct, 'np.vectorize(%s) has no otypes: the dtype of the whole result comes from the first element, but %s '
                              'returns a SymPy value on one path (line %d) and `%s` on another (line %d) while SymPy is available: a symbolic matrix whose '
                              'first entry takes the second path is given a numeric dtype and its symbolic entries raise TypeError'
                              % (k.name, k.name, symr[0].lineno, src(other[0].value, 30), other[0].lineno), f=f, node=c)
            else:
                run.holds(rule, f.key, construct, 'every return reachable with SymPy available is a SymPy call', f=f, node=c)
    return n


def check_copy_dtype(run, funcs, rule='R11c'):
    """dtype source, copy form: `A = P.copy()` (np.copy(P), zeros_like(P), empty_like(P)) has the dtype of P.  A later block store
    `A[..] = <matrix product involving another array parameter Q>` casts the product to that dtype: when P is an integer array
    (SE3(1, 2, 3) stores one) and Q is not, the product is truncated to integers -- silently, and the result is no longer the
    value that was computed.  Accepted: a copy made with an explicit float / common dtype (astype(float), np.array(P, dtype=float),
    result_type)."""
    n = 0
    for f in funcs:
        params = set(f.allparams)
        if len(params) < 2:
            continue
        copies = {}
        for st in own_walk(f.node):
            if isinstance(st, ast.Assign) and len(st.targets) == 1 and isinstance(st.targets[0], ast.Name) and isinstance(st.value, ast.Call):
                c = st.value
                fn = getattr(c.func, 'attr', getattr(c.func, 'id', None))
                src_ = None
                if fn == 'copy' and isinstance(c.func, ast.Attribute) and isinstance(c.func.value, ast.Name) and not c.args:
                    src_ = c.func.value.id
                elif fn in ('copy', 'zeros_like', 'empty_like', 'ones_like') and c.args and isinstance(c.args[0], ast.Name) and kwarg(c, 'dtype') is None:
                    src_ = c.args[0].id
                if src_ in params:
                    copies[st.targets[0].id] = src_
        if not copies:
            continue
        for st in own_walk(f.node):
            if not (isinstance(st, ast.Assign) and len(st.targets) == 1 and isinstance(st.targets[0], ast.Subscript)
                    and isinstance(st.targets[0].value, ast.Name) and st.targets[0].value.id in copies):
                continue
            a = st.targets[0].value.id
            p = copies[a]
            prods = [x for x in ast.walk(st.value) if isinstance(x, ast.BinOp) and isinstance(x.op, ast.MatMult)]
            others = sorted({y.id for x in prods for y in ast.walk(x) if isinstance(y, ast.Name) and y.id in params and y.id != p})
            if not prods:
                continue
            n += 1
            construct = 'store into %s (a copy of %s)' % (a, p)
            if others:
                run.violation(rule, f.key, construct, '%s has the dtype of %s, but receives %s, a matrix product that involves %s: when %s is an '
                              'integer array (SE3(1, 2, 3) holds one) and %s is not, the product is truncated to integers and the stored matrix is '
                              'not the product' % (a, p, src(st.value, 40), '/'.join(others), p, '/'.join(others)), f=f, node=st)
            else:
                run.holds(rule, f.key, construct, 'the stored product involves only the array whose dtype the copy has', f=f, node=st)
    return n
