"""R21 -- exponential / logarithm, structural clauses (property C03).

(a) argument-form dispatch of the class constructors `Exp`: each documented argument form (algebra matrix, twist vector as
    list or ndarray, sequence of twist vectors) is abstractly pushed through the guards of the method (isvector / ismatrix /
    isinstance(list, tuple) / flag parameters at their defaults) and must reach the documented route: the whole argument
    handed to trexp/trexp2, or one call per element.
(b) the general branch of the SO(3) logarithm composed with Rodrigues' formula is the identity (term rewriting over the
    atoms wx, wy, wz, c = cos(theta), s = sin(theta) with |w| = 1): (trace(R) - 1)/2 = c and (R - R^T)/2 = s*skew(w).
(c) in every branch of trlog / trlog2 the twist=True result is the vee of the twist=False result.
(d) the translational part of the SE(3) logarithm is Ginv @ t with Ginv = I - S/2 + beta*S@S: the constant and first-order
    coefficients are fixed by the series of the inverse of V and are compared exactly; beta is compared with the
    closed form (1/theta - cot(theta/2)/2)/theta and an unrecognised beta is ANALYSIS-ERROR.
(e) routing of the class methods (log, Exp) with the options threaded."""
import ast
import copy as _copy
from fractions import Fraction

from ..scope import FuncInfo
from ..callgraph import own_walk
from ..astutil import src, body_nodoc, if_chain
from ..pattern import canon, matches
from ..terms import Poly, ZERO, ONE, Normaliser, parse_expr, Unrecognised

# ------------------------------------------------------------------------------------------------ (a) dispatch
# abstract argument forms
def sq(n):
    return ('sq', n, 'ndarray')


def vec(k, container):
    return ('vec', k, container)


def rows(k, container):
    return ('rows', k, container)       # N x k, N generic (>= 2, != k)


EXP_FORMS = {
    'pose3d:SO3.Exp': [('so(3) matrix (3x3 ndarray)', sq(3), {}, 'whole'), ('3-vector as list', vec(3, 'list'), {}, 'whole'),
                       ('3-vector as ndarray', vec(3, 'ndarray'), {}, 'whole'), ('Nx3 ndarray with so3=False', rows(3, 'ndarray'), {'so3': False}, 'each')],
    'pose3d:SE3.Exp': [('se(3) matrix (4x4 ndarray)', sq(4), {}, 'whole'), ('6-vector as list', vec(6, 'list'), {}, 'whole'),
                       ('6-vector as ndarray', vec(6, 'ndarray'), {}, 'whole'), ('Nx6 ndarray', rows(6, 'ndarray'), {}, 'each')],
    'pose2d:SO2.Exp': [('so(2) matrix (2x2 ndarray)', sq(2), {}, 'whole')],
    'pose2d:SE2.Exp': [('se(2) matrix (3x3 ndarray)', sq(3), {}, 'whole'), ('3-vector as list (array_like)', vec(3, 'list'), {}, 'whole'),
                       ('3-vector as ndarray', vec(3, 'ndarray'), {}, 'whole'), ('list of 3-vectors', rows(3, 'list'), {}, 'each')],
}


def _const(e):
    if isinstance(e, ast.Constant):
        return e.value
    if isinstance(e, ast.UnaryOp) and isinstance(e.op, ast.USub) and isinstance(e.operand, ast.Constant):
        return -e.operand.value
    return '?'


def eval_guard(t, S, val, flags):
    """three-valued evaluation of a guard over the abstract argument `val` bound to the name S"""
    if isinstance(t, ast.BoolOp):
        vs = [eval_guard(x, S, val, flags) for x in t.values]
        if isinstance(t.op, ast.And):
            if any(v is False for v in vs):
                return False
            return True if all(v is True for v in vs) else None
        if any(v is True for v in vs):
            return True
        return False if all(v is False for v in vs) else None
    if isinstance(t, ast.UnaryOp) and isinstance(t.op, ast.Not):
        v = eval_guard(t.operand, S, val, flags)
        return None if v is None else (not v)
    if isinstance(t, ast.Name) and t.id in flags:
        return bool(flags[t.id])
    if isinstance(t, ast.Call):
        from ..pattern import positional
        t = positional(t)
    if isinstance(t, ast.Call) and t.args and isinstance(t.args[0], ast.Name) and t.args[0].id == S:
        fn = t.func.id if isinstance(t.func, ast.Name) else (t.func.attr if isinstance(t.func, ast.Attribute) else None)
        kind, k, cont = val
        if fn == 'isvector' and len(t.args) > 1:
            n = _const(t.args[1])
            if n == '?':
                return None
            return kind == 'vec' and k == n
        if fn == 'ismatrix' and len(t.args) > 1 and isinstance(t.args[1], ast.Tuple) and len(t.args[1].elts) == 2:
            a, b = (_const(x) for x in t.args[1].elts)
            if '?' in (a, b):
                return None
            if cont != 'ndarray' or kind == 'vec':
                return False
            if kind == 'sq':
                return (a in (-1, None) or a == k) and (b in (-1, None) or b == k)
            return a in (-1, None) and (b in (-1, None) or b == k)     # rows: N generic
        if fn == 'isinstance' and len(t.args) > 1:
            names = {x.id for x in ast.walk(t.args[1]) if isinstance(x, ast.Name)}
            if names <= {'list', 'tuple'} and names:
                return cont == 'list'
            if names == {'ndarray'} or 'ndarray' in ast.unparse(t.args[1]):
                return cont == 'ndarray'
    return None


def _route_of(fi, stmts, S, val, flags):
    """-> ('whole' | 'each' | 'raise' | None, return node)"""
    for st in stmts:
        if isinstance(st, ast.If):
            v = eval_guard(canon(fi, st.test, inline=False), S, val, flags)
            if v is None:
                return (None, st)
            r = _route_of(fi, st.body if v else st.orelse, S, val, flags)
            if r[0] is not None or r[1] is not None:
                return r
            continue
        if isinstance(st, ast.Raise):
            return ('raise', st)
        if isinstance(st, ast.Assert):
            v = eval_guard(canon(fi, st.test, inline=False), S, val, flags)
            if v is False:
                return ('raise', st)
            continue
        if isinstance(st, ast.Return) and st.value is not None:
            e = canon(fi, st.value, inline=False)
            each = any(isinstance(x, ast.ListComp) and any(isinstance(g.iter, ast.Name) and g.iter.id == S for g in x.generators) for x in ast.walk(e))
            whole = any(isinstance(x, ast.Call) and isinstance(x.func, ast.Name) and x.func.id in ('trexp', 'trexp2') and x.args and
                        S in {y.id for y in ast.walk(x.args[0]) if isinstance(y, ast.Name)} for x in ast.walk(e)) and not each
            return ('each' if each else 'whole' if whole else None, st)
    return (None, None)


def check_exp_dispatch(run, rule='R21'):
    n = 0
    for key, forms in EXP_FORMS.items():
        f = run.prog.func(key)
        fi = FuncInfo.of(f)
        S = [p for p in f.params if p not in ('cls', 'self')][0]
        dflt = {}
        for p, d in f.defaults().items():
            if isinstance(d, ast.Constant) and isinstance(d.value, bool):
                dflt[p] = d.value
        for (label, val, over, want) in forms:
            flags = dict(dflt)
            flags.update(over)
            flags.pop('check', None)
            route, node = _route_of(fi, body_nodoc(f.node), S, val, flags)
            n += 1
            construct = 'argument form: ' + label
            if route is None:
                run.undecided(rule, key, construct, 'a guard on the way is not decidable for this form (%s)' % (src(node, 40) if node is not None else 'no return'), f=f, node=node)
            elif route == want:
                run.holds(rule, key, construct, 'reaches the %s route' % ('single trexp call on the whole argument' if want == 'whole' else 'one trexp call per element'), f=f, node=node)
            else:
                how = {'each': 'is iterated element by element (rows of the matrix / numbers of the vector are exponentiated one by one)',
                       'whole': 'is passed whole to the exponential although it is a sequence of twists', 'raise': 'is rejected'}[route]
                run.violation(rule, key, construct, 'the documented form "%s" %s: the guards of %s route it to `%s`' % (label, how, f.name, src(node, 60)), f=f, node=node)
    return n


# ------------------------------------------------------------------------------------------------ (b) log o exp
def _skewm(w):
    wx, wy, wz = w
    return [[ZERO, -wz, wy], [wz, ZERO, -wx], [-wy, wx, ZERO]]


def _mm(a, b):
    return [[a[i][0] * b[0][j] + a[i][1] * b[1][j] + a[i][2] * b[2][j] for j in range(3)] for i in range(3)]


def _unit_reduce(p):
    """wz**2 -> 1 - wx**2 - wy**2"""
    changed = True
    while changed:
        changed = False
        r = ZERO
        for mon, v in p.t.items():
            d = dict(mon)
            if d.get('wz', 0) >= 2:
                changed = True
                d['wz'] -= 2
                rest = Poly({tuple(sorted((a, q) for a, q in d.items() if q)): v})
                r = r + rest - rest * Poly.atom('wx') * Poly.atom('wx') - rest * Poly.atom('wy') * Poly.atom('wy')
            else:
                r = r + Poly({mon: v})
        p = r
    return p


def rodrigues_matrix():
    w = [Poly.atom('wx'), Poly.atom('wy'), Poly.atom('wz')]
    c, s = Poly.atom('c'), Poly.atom('s')
    K = _skewm(w)
    K2 = _mm(K, K)
    I = [[ONE if i == j else ZERO for j in range(3)] for i in range(3)]
    return [[_unit_reduce(I[i][j] + s * K[i][j] + (ONE - c) * K2[i][j]) for j in range(3)] for i in range(3)], K


class _MatEval:
    """matrix-valued reader expressions over the symbolic R: R, R.T, A - B, A / const"""

    def __init__(self, R, name='R'):
        self.R = R
        self.name = name

    def ev(self, e):
        if isinstance(e, ast.Name) and (e.id == self.name or (isinstance(self.name, (set, frozenset)) and e.id in self.name)):
            return self.R
        if isinstance(e, ast.Attribute) and e.attr == 'T':
            m = self.ev(e.value)
            return [[m[j][i] for j in range(3)] for i in range(3)]
        if isinstance(e, ast.BinOp) and isinstance(e.op, (ast.Sub, ast.Add)):
            a, b = self.ev(e.left), self.ev(e.right)
            return [[(a[i][j] - b[i][j]) if isinstance(e.op, ast.Sub) else (a[i][j] + b[i][j]) for j in range(3)] for i in range(3)]
        if isinstance(e, ast.BinOp) and isinstance(e.op, ast.Div) and isinstance(e.right, ast.Constant):
            a = self.ev(e.left)
            return [[a[i][j].scale(Fraction(1) / Fraction(e.right.value)) for j in range(3)] for i in range(3)]
        if isinstance(e, ast.BinOp) and isinstance(e.op, ast.Mult) and isinstance(e.right, ast.Constant):
            a = self.ev(e.left)
            return [[a[i][j].scale(Fraction(e.right.value).limit_denominator(10**6)) for j in range(3)] for i in range(3)]
        raise Unrecognised('matrix expression ' + src(e, 40))

    def scalar(self, e):
        if isinstance(e, ast.Constant):
            return Poly.const(Fraction(e.value).limit_denominator(10**6))
        if isinstance(e, ast.Call) and isinstance(e.func, ast.Name) and e.func.id == 'trace' and len(e.args) == 1:
            m = self.ev(e.args[0])
            return m[0][0] + m[1][1] + m[2][2]
        if isinstance(e, ast.BinOp) and isinstance(e.op, (ast.Add, ast.Sub)):
            a, b = self.scalar(e.left), self.scalar(e.right)
            return a + b if isinstance(e.op, ast.Add) else a - b
        if isinstance(e, ast.BinOp) and isinstance(e.op, ast.Div) and isinstance(e.right, ast.Constant):
            return self.scalar(e.left).scale(Fraction(1) / Fraction(e.right.value))
        if isinstance(e, ast.BinOp) and isinstance(e.op, ast.Mult) and isinstance(e.right, ast.Constant):
            return self.scalar(e.left).scale(Fraction(e.right.value).limit_denominator(10**6))
        raise Unrecognised('scalar expression ' + src(e, 40))


def _final_else(stmts):
    """the statements of the general case: what is left after every special-case `if` of the block (if/elif/else chains and
    early-exit ifs alike); an `if twist:` selects the output form and is not a special case"""
    from ..astutil import ends_in_raise

    def exits(body):
        return bool(body) and (isinstance(body[-1], (ast.Return, ast.Raise)) or ends_in_raise(body) or
                               (isinstance(body[-1], ast.If) and body[-1].orelse and exits(body[-1].body) and exits(body[-1].orelse)))
    for _ in range(8):
        nxt = None
        for st in stmts:
            if isinstance(st, ast.If) and not (isinstance(st.test, ast.Name) and st.test.id == 'twist'):
                arms, els = if_chain(st)
                # a special case is an arm that LEAVES the function; an if/else that only selects a value (skw / st when st > 0)
                # belongs to the general case itself
                if not all(exits(b) for (_t, b) in arms):
                    continue
                nxt = els
                break
        if not nxt:
            return stmts
        stmts = nxt
    return stmts


def _rot_general_block(f):
    """statements of the general case under `elif isrot(...)` in trlog"""
    for st in own_walk(f.node):
        if isinstance(st, ast.If):
            node = st
            while True:
                if 'isrot(' in ast.unparse(node.test):
                    return _final_else(node.body)
                if len(node.orelse) == 1 and isinstance(node.orelse[0], ast.If):
                    node = node.orelse[0]
                else:
                    break
    return None


def check_log_general(run, rule='R19'):
    """General branch of the SO(3) logarithm, decided on the evaluated return of every path through the branch (all locals
    substituted, so the names and the order of the intermediate assignments do not matter):

        result = U * TH   (or vex of it),   U = N / D  (unit skew matrix)   or   U = N on the path where D == 0 was found

    * angle   TH = acos(E) or atan2(S, E): E composes through Rodrigues' formula to cos(theta), S to sin(theta)
    * axis    N composes to sin(theta) * skew(w)
    * divisor D is sin(TH) or the same expression as S
    * guards  the half-turn test |trace(R) + 1| < tol has failed on every path to the division (sin = 0, N = 0 there); and the
              divisor itself is known to be non-zero: a test on D (D > 0, D != 0, D > tol, abs(D) > tol) holds on the path.  The
              identity test does NOT do that for TH = acos((trace(R) - 1) / 2): iseye() excludes |R - I| < 10 eps only, while the
              cosine rounds to exactly 1 -- acos gives exactly 0 and the division is 0 / 0 -- for every rotation angle below
              ~1.5e-8 (found on the pinned tree: trlog(trexp([0, 0, 1e-9])) is [nan nan nan])."""
    from .r16_tables import Ctx, sl_eval
    f = run.prog.func('base/transforms3d:trlog')
    fi = FuncInfo.of(f)
    blk = _rot_general_block(f)
    if not blk:
        run.error('R19: trlog: general branch of the SO(3) logarithm not found')
        return
    Rm, K = rodrigues_matrix()
    c, s = Poly.atom('c'), Poly.atom('s')
    cx = Ctx(run, f.key)
    # the matrix argument under the isrot test: R = T (or T itself)
    from ..cfg import pure_locals, _subst_pure, CFG, must_facts
    pl = {k: canon(fi, v, inline=False) for k, v in pure_locals(f.node).items()}
    Tn = cx.pname(0)
    names = {Tn} | {k for k, v in pl.items() if isinstance(v, ast.Name) and v.id == Tn}
    env0 = {k: ast.Name(id=Tn, ctx=ast.Load()) for k in names if k != Tn}
    env0.update({k: v for k, v in pl.items() if k not in names and not isinstance(v, ast.Name)})
    # ... and the aliases made inside the rotation arm itself (R = T)
    for st in own_walk(f.node):
        if isinstance(st, ast.If) and 'isrot(' in ast.unparse(st.test):
            for a in st.body:
                if isinstance(a, ast.Assign) and isinstance(a.targets[0], ast.Name) and isinstance(a.value, ast.Name) and a.value.id in names:
                    names.add(a.targets[0].id)
    me = _MatEval(Rm, name=frozenset(names))
    paths = sl_eval(cx, stmts=blk, env=env0, with_conds=True)
    if not paths:
        run.error('R19: trlog general branch: no value return found')
        return
    cfg_ = CFG(f.node)
    facts_ = must_facts(cfg_)

    def sin_value(e):
        """does the scalar expression e compose to sin(theta)?  norm(vex(M)) with M -> s * skew(w) (|w| = 1)"""
        b = matches('norm(vex(_M))', e)
        if b is None:
            return None
        m = me.ev(b['_M'])
        return all(_unit_reduce(m[i][j]) == s * K[i][j] for i in range(3) for j in range(3))

    n_div = 0
    try:
        for (ret, val, conds) in paths:
            v = val
            b = matches('vex(_X)', v)
            if b is not None:
                v = b['_X']
            # flatten the product: numerators / denominators
            nums, dens = [], []

            def flat(e, inv=False):
                if isinstance(e, ast.BinOp) and isinstance(e.op, ast.Mult):
                    flat(e.left, inv)
                    flat(e.right, inv)
                elif isinstance(e, ast.BinOp) and isinstance(e.op, ast.Div):
                    flat(e.left, inv)
                    flat(e.right, not inv)
                else:
                    (dens if inv else nums).append(e)
            flat(v)
            ths = [x for x in nums if matches('acos(_E)', x) is not None or matches('atan2(_S, _E)', x) is not None]
            cden = [x for x in dens if isinstance(x, ast.Constant)]
            vden = [x for x in dens if not isinstance(x, ast.Constant)]
            mats = [x for x in nums if x not in ths and not isinstance(x, ast.Constant)]
            cnum = [x for x in nums if isinstance(x, ast.Constant)]
            if len(ths) != 1 or len(mats) != 1 or len(vden) > 1:
                run.error('R19: trlog general branch: the return %s is not (matrix / divisor) * angle' % src(ret.value, 50))
                continue
            TH, N = ths[0], mats[0]
            for x in cden:
                N = ast.BinOp(left=N, op=ast.Div(), right=x)
            for x in cnum:
                N = ast.BinOp(left=N, op=ast.Mult(), right=x)
            b = {'_D': vden[0]} if vden else None
            undivided = None if vden else {'_N': N, '_TH': TH}
            ta = matches('acos(_E)', TH)
            tb = matches('atan2(_S, _E)', TH)
            E = (ta or tb)['_E']
            if tb is not None and sin_value(E):
                # atan2(cosine, sine): the arguments are exchanged
                run.violation(rule, f.key, 'log o exp: angle', 'atan2 is given the norm of the antisymmetric part (sin(theta)) as its SECOND argument: '
                              'the angle returned is pi/2 - theta', f=f, node=ret)
                continue
            got = _unit_reduce(me.scalar(E))
            if got == c:
                run.holds(rule, f.key, 'log o exp: angle', 'the cosine argument composes with Rodrigues to cos(theta)', f=f, node=ret)
            else:
                run.violation(rule, f.key, 'log o exp: angle', 'for R = I + sin(t) K + (1 - cos(t)) K^2 the cosine argument %s composes to %s, not to '
                              'cos(t): log(exp(S)) does not return the rotation angle of S' % (src(E, 40), got), f=f, node=ret)
            if tb is not None:
                sv = sin_value(tb['_S'])
                if sv is None:
                    run.error('R19: trlog general branch: the sine argument %s of atan2 is not norm(vex(..))' % src(tb['_S'], 40))
                elif not sv:
                    run.violation(rule, f.key, 'log o exp: angle (sine)', 'the first argument of atan2, %s, does not compose with Rodrigues to '
                                  'sin(theta) = |vex(sin(theta) skew(w))|' % src(tb['_S'], 40), f=f, node=ret)
                else:
                    run.holds(rule, f.key, 'log o exp: angle (sine)', 'norm of the antisymmetric part composes to sin(theta)', f=f, node=ret)
            m = me.ev(N)
            bad = [(i, j) for i in range(3) for j in range(3) if _unit_reduce(m[i][j]) != s * K[i][j]]
            if not bad:
                run.holds(rule, f.key, 'log o exp: axis', '%s composes with Rodrigues to sin(theta) * skew(w)' % src(N, 30), f=f, node=ret)
            else:
                i_, j_ = bad[0]
                run.violation(rule, f.key, 'log o exp: axis', 'for R = I + sin(t) K + (1 - cos(t)) K^2 the numerator %s composes to %s at [%d,%d], not to '
                              'sin(t) * K[%d,%d] = %s: log(exp(S)) does not return S' % (src(N, 30), _unit_reduce(m[i_][j_]), i_, j_, i_, j_, s * K[i_][j_]), f=f, node=ret)
            # guards at this return
            rn = cfg_.node_of(ret)
            fs_ = [(fc[1], _Subst0(env0).visit(canon(fi, fc[2].ast, inline=False))) for fc in facts_.get(rn.id, frozenset())] if rn is not None else []
            half = [e for (pol, e) in fs_ if (not pol) and any(matches(p_, e) is not None for p_ in
                                                               ('abs(trace(_R) + 1) < _T', 'abs(1 + trace(_R)) < _T', 'abs(_R.trace() + 1) < _T', 'trace(_R) + 1 < _T',
                                                                'isclose(trace(_R), -1, *_A)'))]
            tr_tests = [e for (pol, e) in fs_ if (not pol) and 'trace' in ast.unparse(e)]
            if undivided is not None:
                # the path on which the divisor was found to be zero: N is the zero matrix there, the product is the zero logarithm
                zero_known = tb is not None and any((not pol) and any(matches(p_, ce) is not None and ast.dump(matches(p_, ce)['_D']) in (ast.dump(tb['_S']), ast.dump(TH))
                                                   for p_ in ('_D > 0', '_D != 0', '_D > _T', 'abs(_D) > _T')) for (ce, pol) in conds)
                if zero_known:
                    run.holds(rule, f.key, 'log: zero divisor path', 'the antisymmetric part is returned undivided only where its norm is zero', f=f, node=ret)
                else:
                    run.violation(rule, f.key, 'log: zero divisor path', 'the antisymmetric part %s is multiplied by the angle without being '
                                  'normalised: the result is sin(theta) * theta * skew(w), not theta * skew(w)' % src(N, 30), f=f, node=ret)
                continue
            n_div += 1
            D = b['_D']
            d_is_sin = matches('sin(_X)', D) is not None and ast.dump(matches('sin(_X)', D)['_X']) == ast.dump(TH)
            d_is_s = tb is not None and ast.dump(D) == ast.dump(tb['_S'])
            if not (d_is_sin or d_is_s):
                sv = sin_value(D)
                if not sv:
                    run.violation(rule, f.key, 'log o exp: result', 'the general branch divides %s by %s, which is neither sin(angle) nor the norm of the '
                                  'antisymmetric part: the result is not theta * skew(w)' % (src(N, 30), src(D, 30)), f=f, node=ret)
                    continue
            run.holds(rule, f.key, 'log o exp: result', 'returns (antisymmetric part / sin(theta)) * theta', f=f, node=ret)
            # a test of the divisor, of the angle or of the sine it was computed from: each is zero exactly when the others are
            tested = [ast.dump(D), ast.dump(TH)] + ([ast.dump(tb['_S'])] if tb is not None else [])
            direct = any(pol and any(matches(p_, ce) is not None and ast.dump(matches(p_, ce)['_D']) in tested
                                     for p_ in ('_D > 0', '_D != 0', '_D > _T', 'abs(_D) > _T', '_D >= _T')) for (ce, pol) in conds)
            if not half:
                run.violation(rule, f.key, 'log: division by sin(theta) guarded', 'the general branch divides by sin(theta), '
                              'but no test on its paths excludes the half turn trace(R) = -1 (sin(theta) = 0)%s: at a rotation by pi the result is rounding '
                              'noise divided by ~1e-16' % ((': the test %s is not of the form |trace(R) + 1| < tol' % src(tr_tests[0], 40)) if tr_tests else ''), f=f, node=ret)
            elif direct:
                run.holds(rule, f.key, 'log: division by sin(theta) guarded', 'reached only after the half-turn test %s failed and under a test of the divisor itself'
                          % src(half[0], 40), f=f, node=ret)
            elif ta is not None:
                run.violation(rule, f.key, 'log: division by sin(theta) guarded', 'the general branch divides by sin(theta) with theta = acos(%s); the identity test '
                              'excludes |R - I| < 10 eps only, but the cosine rounds to exactly 1 -- theta = 0 and the division is 0 / 0 = nan -- for every '
                              'rotation angle below ~1.5e-8 (e.g. trlog(trexp([0, 0, 1e-9]))): no test of theta or of the divisor itself dominates the '
                              'division' % src(E, 30), f=f, node=ret)
            else:
                run.violation(rule, f.key, 'log: division by sin(theta) guarded', 'the general branch divides by %s without a test that it is non-zero '
                              '(it is exactly 0 for a symmetric R that is not within 10 eps of the identity)' % src(D, 30), f=f, node=ret)
        if n_div == 0:
            run.error('R19: trlog general branch: no path divides the antisymmetric part by the sine')
    except Unrecognised as ex:
        run.error('R19: trlog general branch unrecognised: %s' % ex)


class _Subst0(ast.NodeTransformer):
    def __init__(self, env):
        self.env = env

    def visit_Name(self, n):
        if isinstance(n.ctx, ast.Load) and n.id in self.env:
            import copy
            return copy.deepcopy(self.env[n.id])
        return n


# ------------------------------------------------------------------------------------------------ (c) twist / matrix pairs
def _vee_ok(tw, mat):
    """is `mat` the hat of `tw` (canonical ASTs)?"""
    nm = Normaliser()
    pairs = [
        ('zeros((6,))', 'zeros((4, 4))'), ('zeros((3,))', 'zeros((3, 3))'), ('zeros((1,))', 'zeros((2, 2))'),
    ]
    for a, b in pairs:
        if matches(a, tw) is not None and matches(b, mat) is not None:
            return True
    b = matches('r_[_T, 0, 0, 0]', tw)
    if b is not None:
        m = matches('Ab2M(zeros((3, 3)), _T2)', mat)
        return m is not None and ast.unparse(m['_T2']) == ast.unparse(b['_T'])
    b = matches('r_[_V, _W]', tw)
    if b is not None:
        m = matches('Ab2M(_S, _V2)', mat)
        if m is None or ast.unparse(m['_V2']) != ast.unparse(b['_V']):
            return False if m is not None else None
        if ('vex(%s)' % ast.unparse(m['_S'])) == ast.unparse(b['_W']):
            return True
        # rotational block written as skew(w): its vee is w (the planar case, w a scalar angle, included)
        sk = matches('skew(_X)', m['_S'])
        if sk is not None:
            x = sk['_X']
            if isinstance(x, ast.List) and len(x.elts) == 1:
                x = x.elts[0]
            return nm.poly(x) == nm.poly(b['_W'])
        return False
    # planar rotation: [theta] with skew(theta)
    b = matches('array([_W])', tw) or matches('r_[_W]', tw)
    if b is not None:
        sk = matches('skew(_X)', mat)
        if sk is not None:
            x = sk['_X']
            if isinstance(x, ast.List) and len(x.elts) == 1:
                x = x.elts[0]
            return nm.poly(x) == nm.poly(b['_W'])
    b = matches('vex(_M)', tw) or matches('vexa(_M)', tw)
    if b is not None:
        return nm.poly(b['_M']) == nm.poly(mat)
    m = matches('skew(_X)', mat) or matches('skewa(_X)', mat)
    if m is not None:
        return nm.poly(m['_X']) == nm.poly(tw)
    return None


def check_twist_pairs(run, rule='R21'):
    n = 0
    for key in ('base/transforms3d:trlog', 'base/transforms2d:trlog2'):
        f = run.prog.func(key)
        fi = FuncInfo.of(f)
        # local definitions that the pair expressions mention through one level (w = vex(S))
        for st in own_walk(f.node):
            if isinstance(st, ast.If) and isinstance(st.test, ast.Name) and st.test.id == 'twist' and st.orelse:
                ra = [s_ for s_ in st.body if isinstance(s_, ast.Return)]
                rb = [s_ for s_ in st.orelse if isinstance(s_, ast.Return)]
                if len(ra) != 1 or len(rb) != 1:
                    continue
                n += 1
                blk_defs = {}

                def arm_value(arm, ret):
                    # temporaries of the arm itself (arg_ = logm(T); return vex(arg_)) are put back in place
                    from ..cfg import _subst_pure
                    env = {}
                    for s2 in arm:
                        if s2 is ret:
                            break
                        if isinstance(s2, ast.Assign) and len(s2.targets) == 1 and isinstance(s2.targets[0], ast.Name):
                            env[s2.targets[0].id] = _subst_pure(canon(fi, s2.value, inline=False), env)
                    return _subst_pure(canon(fi, ret.value, inline=False), env)
                tw = arm_value(st.body, ra[0])
                mat = arm_value(st.orelse, rb[0])
                # inline w = vex(S) style locals of the enclosing block
                from .r16_tables import _enclosing_block, _Subst
                blk = _enclosing_block(f.node, st) or []
                for s_ in blk:
                    if isinstance(s_, ast.Assign) and isinstance(s_.targets[0], ast.Name):
                        v = canon(fi, s_.value, inline=False)
                        if matches('vex(_X)', v) is not None:
                            blk_defs[s_.targets[0].id] = v
                tw_i = _Subst(blk_defs).visit(_copy.deepcopy(tw))
                ok = _vee_ok(tw_i, mat)
                construct = 'twist / matrix pair: %s | %s' % (src(ra[0].value, 30), src(rb[0].value, 30))
                if ok:
                    run.holds(rule, key, construct, 'the twist=True result is the vee of the twist=False result', f=f, node=st)
                elif ok is False:
                    run.violation(rule, key, construct, 'the vector returned for twist=True (%s) is not the vee of the matrix returned for twist=False (%s): '
                                  'the two option values describe different logarithms' % (src(ra[0].value, 40), src(rb[0].value, 40)), f=f, node=st)
                else:
                    run.error('R21: %s: twist/matrix pair of unrecognised shape: %s | %s' % (key, src(ra[0].value, 40), src(rb[0].value, 40)))
    if n < 8:
        run.error('R21: only %d twist/matrix return pairs found in trlog/trlog2 (expected 8)' % n)


# ------------------------------------------------------------------------------------------------ (d) Ginv
def check_ginv(run, rule='R21'):
    f = run.prog.func('base/transforms3d:trlog')
    fi = FuncInfo.of(f)
    g = None
    for st in own_walk(f.node):
        if isinstance(st, ast.Assign) and isinstance(st.targets[0], ast.Name) and st.targets[0].id == 'Ginv':
            g = st
    if g is None:
        # not named: the matrix that multiplies the translation, v = (<matrix in S and theta>) @ t
        for st in own_walk(f.node):
            if isinstance(st, ast.Assign) and isinstance(st.targets[0], ast.Name) and isinstance(st.value, ast.BinOp) and isinstance(st.value.op, ast.MatMult) \
                    and isinstance(st.value.right, ast.Name) and st.value.right.id == 't' and \
                    {'S', 'theta'} <= {y.id for y in ast.walk(st.value.left) if isinstance(y, ast.Name)}:
                g = ast.Assign(targets=[ast.Name(id='Ginv', ctx=ast.Store())], value=st.value.left)
                ast.copy_location(g, st)
                g._orig = st
    if g is None:
        run.error('R21: trlog: no definition of Ginv')
        return
    nm = Normaliser()
    nm.scalars = {'theta'}
    try:
        from ..cfg import _subst_pure
        from .r16_tables import _enclosing_block as _eb
        env = {}
        for st in (_eb(f.node, getattr(g, '_orig', g)) or []):
            if st is getattr(g, '_orig', g):
                break
            if isinstance(st, ast.Assign) and isinstance(st.targets[0], ast.Name) and st.targets[0].id not in ('S', 'theta', 'w', 'v', 't', 'R'):
                env[st.targets[0].id] = _subst_pure(canon(fi, st.value, inline=False), env)      # e.g. the scalar coefficient k
        got = nm.poly(_subst_pure(canon(fi, g.value, inline=False), env))
    except Unrecognised as ex:
        run.error('R21: Ginv unrecognised: %s' % ex)
        return
    # split by the matrix atom: eye(3), S, S @ S
    coef = {'eye(3)': ZERO, 'S': ZERO, 'S @ S': ZERO}
    rest = ZERO
    for mon, v in got.t.items():
        d = dict(mon)
        hit = [a for a in coef if a in d and d[a] == 1]
        if len(hit) != 1:
            rest = rest + Poly({mon: v})
            continue
        del d[hit[0]]
        coef[hit[0]] = coef[hit[0]] + Poly({tuple(sorted(d.items())): v})
    if rest.t:
        run.error('R21: Ginv has terms that are not multiples of I, S or S@S: %s' % rest)
        return
    ok0 = coef['eye(3)'] == ONE
    ok1 = coef['S'] == Poly.const(Fraction(-1, 2))
    (run.holds if ok0 else run.violation)(rule, f.key, 'Ginv: constant term', 'I' if ok0 else 'the constant term of Ginv is %s*I; the inverse of V = I + S/2 + ... starts with I' % coef['eye(3)'], f=f, node=g)
    (run.holds if ok1 else run.violation)(rule, f.key, 'Ginv: first-order term', '-S/2' if ok1 else 'the first-order term of Ginv is (%s)*S; the inverse of V = I + S/2 + ... has -S/2' % coef['S'], f=f, node=g)
    want = nm.poly(parse_expr('(1 / theta - 1 / tan(theta / 2) / 2) / theta'))
    if coef['S @ S'] == want:
        run.holds(rule, f.key, 'Ginv: second-order coefficient', '(1/theta - cot(theta/2)/2)/theta', f=f, node=g)
    else:
        run.error('R21: Ginv: coefficient of S@S is %s, not the recognised closed form %s' % (coef['S @ S'], want))
    # v = Ginv @ t, w = vex(S), theta = norm(w), S from the recursion on R
    from .r16_tables import _enclosing_block
    blk = _enclosing_block(f.node, getattr(g, '_orig', g)) or []
    txt = {st.targets[0].id: ast.unparse(canon(fi, st.value, inline=False)) for st in blk
           if isinstance(st, ast.Assign) and isinstance(st.targets[0], ast.Name)}
    for nm_, want_s in (('v', 'Ginv @ t'), ('w', 'vex(S)'), ('S', 'trlog(R, check=False)')):
        if nm_ not in txt:
            # the local is not there under this name (inlined into its use): nothing is known about it
            run.error('R21: trlog: no local %s = %s in the SE(3) branch' % (nm_, want_s))
            continue
        ok = txt.get(nm_) == want_s or (nm_ == 'v' and getattr(g, '_orig', None) is not None and matches('_G @ t', parse_expr(txt[nm_])) is not None)
        (run.holds if ok else run.violation)(rule, f.key, 'SE(3) log: ' + nm_, '%s = %s' % (nm_, want_s) if ok else '%s is %s, expected %s' % (nm_, txt.get(nm_), want_s), f=f)


# ------------------------------------------------------------------------------------------------ (f) exp depends on S
def check_exp_dependence(run, rule='R17'):
    """Information dependence: on every value-returning path of trexp / trexp2 other than the identity returns, the value is
    data-dependent on the algebra element S (uses in validity guards do not count): exp(S, theta) for a unit twist is
    exp(theta * S), so a path whose result is computed from theta alone loses the direction (sign) of S."""
    from .r16_tables import Ctx, sl_eval
    for key in ('base/transforms3d:trexp', 'base/transforms2d:trexp2'):
        cx = Ctx(run, key)
        f = cx.f
        S = cx.pname(0)
        n = 0
        for (r, e) in sl_eval(cx):
            if matches('eye(__)', e) is not None:
                continue
            n += 1
            names = {y.id for y in ast.walk(e) if isinstance(y, ast.Name)}
            construct = 'dependence on %s: return %s' % (S, src(r.value, 40))
            if S in names:
                run.holds(rule, key, construct, 'the returned value is computed from the algebra element', f=f, node=r)
            else:
                run.violation(rule, key, construct, 'on this path the result (%s) does not depend on %s at all: the direction / sign of the unit '
                              'twist is lost, exp(S, theta) != exp(theta * S) for the negative of a unit element' % (src(e, 50), S), f=f, node=r)
        if n < 2:
            run.error('R17: %s: fewer than 2 non-identity returns evaluated' % key)


# ------------------------------------------------------------------------------------------------ (g) constructor forms
FAULT = 'FAULT'
SCALAR = ('scalar', 0, 'number')


def _class_shape(prog, cls):
    k, mem = prog.lookup_member(cls, 'shape')
    if mem is None or not hasattr(mem, 'node'):
        return None
    for r in ast.walk(mem.node):
        if isinstance(r, ast.Return) and isinstance(r.value, ast.Tuple) and all(isinstance(x, ast.Constant) for x in r.value.elts):
            return tuple(x.value for x in r.value.elts)
    return None


def _arghandler_abs(shape, val):
    """outcome of SMUserList.arghandler for an abstract argument: True / False / None (depends on the values)"""
    kind, k, cont = val
    if shape is None:
        return None
    if kind == 'scalar':
        return False
    if cont == 'list':
        if kind == 'vec':
            return len(shape) == 1 and shape[0] == k      # isnumberlist path of vector classes
        return False                                       # rows as a list of lists of numbers: no branch takes it
    # ndarray: stored through _import, i.e. only when isvalid (shape and, with check, membership) holds
    if kind == 'vec':
        return None if (len(shape) == 1 and shape[0] == k) else False
    if kind == 'sq':
        return None if shape == (k, k) else False
    return False


def eval_guard2(t, S, val, nones, flags, shape):
    """three-valued (+ FAULT) evaluation; short-circuit semantics of and/or are respected"""
    if isinstance(t, ast.BoolOp):
        is_and = isinstance(t.op, ast.And)
        res = True if is_and else False
        for x in t.values:
            v = eval_guard2(x, S, val, nones, flags, shape)
            if v == FAULT:
                return FAULT
            if is_and:
                if v is False:
                    return False
                if v is None:
                    res = None
            else:
                if v is True:
                    return True
                if v is None:
                    res = None
        return res
    if isinstance(t, ast.UnaryOp) and isinstance(t.op, ast.Not):
        v = eval_guard2(t.operand, S, val, nones, flags, shape)
        return v if v in (None, FAULT) else (not v)
    kind, k, cont = val
    if isinstance(t, ast.Compare) and len(t.ops) == 1:
        l, r = t.left, t.comparators[0]
        if isinstance(t.ops[0], (ast.Is, ast.IsNot)) and isinstance(r, ast.Constant) and r.value is None and isinstance(l, ast.Name):
            isnone = (l.id in nones) if l.id != S else False
            return isnone if isinstance(t.ops[0], ast.Is) else (not isnone)
        if isinstance(t.ops[0], (ast.Eq, ast.NotEq)):
            c = _const(r)
            got = None
            if matches('len(%s)' % S, l) is not None:
                if kind == 'scalar':
                    return FAULT
                got = k if kind in ('vec', 'sq') else '?'
            b = matches('%s.shape[_I]' % S, l)
            if b is not None and isinstance(b['_I'], ast.Constant):
                i = b['_I'].value
                if cont != 'ndarray':
                    return FAULT
                if kind == 'vec':
                    if i >= 1:
                        return FAULT
                    got = k
                elif kind == 'sq':
                    got = k
                else:
                    got = k if i == 1 else '?'
            if got is not None and got != '?' and c != '?':
                return (got == c) if isinstance(t.ops[0], ast.Eq) else (got != c)
            if matches('%s.ndim' % S, l) is not None and c != '?':
                if cont != 'ndarray':
                    return FAULT
                nd = 1 if kind == 'vec' else 2
                return (nd == c) if isinstance(t.ops[0], ast.Eq) else (nd != c)
            if matches('%s.shape' % S, l) is not None and isinstance(r, ast.Tuple) and all(isinstance(x, ast.Constant) for x in r.elts):
                if cont != 'ndarray':
                    return FAULT
                want = tuple(x.value for x in r.elts)
                if kind == 'vec':
                    eq = want == (k,)
                elif kind == 'sq':
                    eq = want == (k, k)
                else:
                    eq = None if (len(want) == 2 and want[1] == k) else False
                if eq is None:
                    return None
                return eq if isinstance(t.ops[0], ast.Eq) else (not eq)
            return None
    if isinstance(t, ast.Name) and t.id in flags:
        return bool(flags[t.id])
    if isinstance(t, ast.Call):
        from ..pattern import positional
        t = positional(t)
        if isinstance(t.func, ast.Attribute) and t.func.attr == 'arghandler':
            return _arghandler_abs(shape, val) if (t.args and isinstance(t.args[0], ast.Name) and t.args[0].id == S) else None
        fn = t.func.id if isinstance(t.func, ast.Name) else (t.func.attr if isinstance(t.func, ast.Attribute) else None)
        if t.args and isinstance(t.args[0], ast.Name) and t.args[0].id == S:
            if fn == 'isscalar':
                return kind == 'scalar'
            if fn == 'isvector':
                if kind == 'scalar':
                    return None
                if len(t.args) > 1:
                    n = _const(t.args[1])
                    return None if n == '?' else (kind == 'vec' and k == n)
                return kind == 'vec'
            if fn in ('isrot', 'ishom', 'isrot2', 'ishom2'):
                need = {'isrot': 3, 'ishom': 4, 'isrot2': 2, 'ishom2': 3}[fn]
                return None if (kind == 'sq' and k == need and cont == 'ndarray') else False
            if fn == 'ismatrix':
                return eval_guard(t, S, val, flags)
            if fn == 'isinstance' and len(t.args) > 1:
                txt = ast.unparse(t.args[1])
                if 'ndarray' in txt:
                    return cont == 'ndarray'
                if txt in ('(list, tuple)', 'list', 'tuple'):
                    return cont == 'list'
                return False if kind in ('vec', 'sq', 'rows', 'scalar') else None     # a library class: not for raw data
        if fn == 'isinstance' and t.args and isinstance(t.args[0], ast.Subscript) and isinstance(t.args[0].value, ast.Name) and t.args[0].value.id == S:
            if kind == 'scalar':
                return FAULT
            return False
    return None


def _explore(fi, stmts, S, val, nones, flags, shape, out, depth=0, env=None):
    """collect outcomes ('store'|'raise'|'fault', node[, names the stored value is computed from on THIS path]); returns True when
    control can fall through the statement list.  Paths are explored one by one (the statements after an `if` are explored in the
    context of each feasible arm), so a local assigned in the arms and stored after them is resolved per path."""
    env = dict(env or {})

    def used(e):
        names = {x.id for x in ast.walk(e) if isinstance(x, ast.Name) and isinstance(x.ctx, ast.Load)}
        out_ = set()
        for nm_ in names:
            out_ |= env.get(nm_, {nm_})
        return out_
    for i, st in enumerate(stmts):
        if isinstance(st, ast.If):
            v = eval_guard2(canon(fi, st.test, inline=False), S, val, nones, flags, shape)
            if v == FAULT:
                out.append(('fault', st))
                return False
            rest = list(stmts[i + 1:])
            if depth > 14:
                rest_now, rest = [], rest       # give up on path splitting: explore the arms, then the rest once
            ft = []
            if v is not False:
                ft.append(_explore(fi, list(st.body) + (rest if depth <= 14 else []), S, val, nones, flags, shape, out, depth + 1, env))
            if v is not True:
                ft.append(_explore(fi, list(st.orelse or []) + (rest if depth <= 14 else []), S, val, nones, flags, shape, out, depth + 1, env))
            if depth <= 14:
                return any(ft)
            if not any(ft):
                return False
            continue
        if isinstance(st, ast.Raise):
            out.append(('raise', st))
            return False
        if isinstance(st, ast.Return):
            out.append(('store', st, used(st.value) if st.value is not None else set()))
            return False
        if isinstance(st, ast.Assign) and any(isinstance(t, ast.Attribute) and t.attr == 'data' for t in st.targets):
            out.append(('store', st, used(st.value)))
            continue
        if isinstance(st, ast.Assign) and len(st.targets) == 1 and isinstance(st.targets[0], ast.Name):
            env[st.targets[0].id] = used(st.value)
            continue
        if isinstance(st, ast.Assert):
            v = eval_guard2(canon(fi, st.test, inline=False), S, val, nones, flags, shape)
            if v == FAULT:
                out.append(('fault', st))
                return False
            if v is False:
                out.append(('raise', st))
                return False
    return True


CTOR_FORMS = {
    'quaternion:UnitQuaternion.__init__': ('UnitQuaternion', [('4-vector as list', vec(4, 'list')), ('4-vector as ndarray(4)', vec(4, 'ndarray')),
                                                              ('SO(3) matrix', sq(3)), ('SE(3) matrix', sq(4)), ('Nx4 ndarray', rows(4, 'ndarray'))]),
    'quaternion:Quaternion.__init__': ('Quaternion', [('4-vector as list', vec(4, 'list')), ('4-vector as ndarray(4)', vec(4, 'ndarray'))]),
    # a third element names the OTHER parameters that are given in this form (all remaining None-default parameters are None)
    'pose3d:SE3.__init__': ('SE3', [('translation as list', vec(3, 'list')), ('translation as ndarray(3)', vec(3, 'ndarray')), ('SE(3) matrix', sq(4)),
                                    ('Nx3 ndarray', rows(3, 'ndarray')), ('x, y, z as separate scalars', SCALAR, ('y', 'z'))]),
    'pose2d:SE2.__init__': ('SE2', [('[x, y] as list', vec(2, 'list')), ('[x, y] as ndarray', vec(2, 'ndarray')), ('[x, y, theta] as list', vec(3, 'list')),
                                    ('[x, y, theta] as ndarray', vec(3, 'ndarray')), ('SE(2) matrix', sq(3)), ('angle', SCALAR),
                                    ('x, y as separate scalars', SCALAR, ('y',)), ('x, y, theta as separate scalars', SCALAR, ('y', 'theta'))]),
    'pose2d:SO2.__init__': ('SO2', [('angle', SCALAR), ('angles as list', vec(5, 'list')), ('angles as ndarray', vec(5, 'ndarray')), ('SO(2) matrix', sq(2))]),
}


def check_ctor_forms(run, rule='R21'):
    """Each documented single-argument form of the constructors is pushed through the guards; outcomes are explored on both sides
    of value-dependent guards (validation may fail).  A guard that FAULTS for a documented form (x.shape[1] of a 1-D array,
    len() of a scalar) raises IndexError/TypeError instead of taking or rejecting the value; a form with no storing path is
    rejected although documented."""
    prog = run.prog
    n = 0
    for key, (cn, forms) in CTOR_FORMS.items():
        f = prog.func(key)
        fi = FuncInfo.of(f)
        ps = [p for p in f.params if p != f.selfname]
        S = ps[0]
        nones = {p for p, d in f.defaults().items() if isinstance(d, ast.Constant) and d.value is None and p != S}
        flags = {p: d.value for p, d in f.defaults().items() if isinstance(d, ast.Constant) and isinstance(d.value, bool) and p not in ('check', 'norm')}
        shape = _class_shape(prog, prog.cls(cn))
        all_nones = nones
        for form in forms:
            label, val = form[0], form[1]
            given = set(form[2]) if len(form) > 2 else set()
            if not given <= set(ps):
                run.error('R21: %s: the form "%s" names parameters %s that the constructor does not have (anchor not found in the current source)' % (
                    key, label, sorted(given - set(ps))))
                continue
            nones = all_nones - given
            out = []
            _explore(fi, body_nodoc(f.node), S, val, nones, flags, shape, out)
            n += 1
            construct = 'constructor form: ' + label
            faults = [x for x in out if x[0] == 'fault']
            stores = [x for x in out if x[0] == 'store']
            # a value stored for this form must not be computed from a parameter that is None in this form
            from_none = []
            for rec_ in stores:
                st_ = rec_[1]
                if isinstance(st_, ast.Assign):
                    used = rec_[2] if len(rec_) > 2 else {x.id for x in ast.walk(st_.value) if isinstance(x, ast.Name) and isinstance(x.ctx, ast.Load)}
                    bad_ = sorted(used & nones)
                    if bad_:
                        from_none.append((st_, bad_))
            # ... and uses every parameter that IS given in this form
            unused = []
            if given and stores and not from_none:
                for rec_ in stores:
                    st_ = rec_[1]
                    if isinstance(st_, ast.Assign):
                        used = rec_[2] if len(rec_) > 2 else {x.id for x in ast.walk(st_.value) if isinstance(x, ast.Name) and isinstance(x.ctx, ast.Load)}
                        miss = sorted((given | {S}) - used)
                        if miss:
                            unused.append((st_, miss))
            if from_none and len(from_none) == len([x for x in stores if isinstance(x[1], ast.Assign)]):
                st_, bad_ = from_none[0]
                run.violation(rule, key, construct, 'for the documented form "%s" the value stored (%s) is computed from the parameter %s, which is None in this '
                              'form: the constructor fails (or builds a wrong value) for a documented call' % (label, src(st_.value, 50), '/'.join(bad_)), f=f, node=st_)
                continue
            if unused and len(unused) == len([x for x in stores if isinstance(x[1], ast.Assign)]):
                st_, miss = unused[0]
                run.violation(rule, key, construct, 'for the documented form "%s" the value stored (%s) does not use the given argument %s' % (
                    label, src(st_.value, 50), '/'.join(miss)), f=f, node=st_)
                continue
            if faults:
                node = faults[0][1]
                run.violation(rule, key, construct, 'for the documented form "%s" the guard `%s` is reached (when the validating branch declines the value) '
                              'and cannot be evaluated for this form (subscript of a 1-D shape / len of a scalar): the constructor raises '
                              'IndexError/TypeError instead of storing or rejecting the value' % (label, src(node.test, 50)), f=f, node=node)
            elif not stores:
                run.violation(rule, key, construct, 'no path stores a value for the documented form "%s": it is always rejected' % label, f=f)
            else:
                run.holds(rule, key, construct, '%d storing path(s), no faulting guard' % len(stores), f=f, node=stores[0][1])
    return n
