"""R1 -- every name, module attribute and receiver attribute on a path resolves;
no local is definitely unbound where it is used."""
import ast
import collections.abc

from ..model import Function, Class
from ..scope import FuncInfo
from ..cfg import CFG, reaching_defs, header_expr
from ..callgraph import own_walk
from ..astutil import src

_OBJ_ATTRS = set(dir(object)) | set(dir(collections.abc.MutableSequence)) | {
    '__dict__', '__module__', '__weakref__', '__class__', 'data'}


def receiver_classes(prog, f):
    """Concrete (public) classes whose instances can be the receiver of method f."""
    c = f.cls
    if c is None:
        return []
    pub = set(prog.public_classes())
    out = []
    for sub in prog.subclasses(c):
        if sub.name not in pub and sub is not c:
            continue
        k, mem = prog.lookup_member(sub, f.name)
        if mem is f:
            out.append(sub)
    conc = [k for k in out if k.name in pub]
    return conc or out


def attr_resolves(prog, cls, attr):
    if attr in _OBJ_ATTRS:
        return True
    k, mem = prog.lookup_member(cls, attr)
    if mem is not None:
        return True
    if attr in prog.instance_attrs(cls):
        return True
    return False


def _in_immediate_scope(fi, name_node):
    """True if the Name is evaluated when its statement executes (function root scope or
    comprehension chain), not later inside a lambda/nested def."""
    sc = fi.scopes.name_scope.get(name_node)
    while sc is not None and sc is not fi.scopes.root:
        if sc.kind != 'comp':
            return False
        sc = sc.parent
    return sc is fi.scopes.root


def check_function(run, f, rule='R1'):
    prog = run.prog
    fi = FuncInfo.of(f)
    subj = f.key
    n_names = n_attrs = n_self = 0
    reported = set()
    selfs = set()
    if f.selfname and f.kind in ('method', 'property'):
        selfs.add(f.selfname)
    rcv = receiver_classes(prog, f) if selfs else []
    for n in own_walk(f.node):
        if isinstance(n, ast.Name) and isinstance(n.ctx, ast.Load):
            k, t = fi.classify(n)
            n_names += 1
            if k == 'unresolved' and n.id not in reported:
                reported.add(n.id)
                run.violation(rule, subj, 'name ' + n.id,
                              'name %r is not bound in any enclosing scope, module namespace or builtins '
                              '(NameError when this statement executes)' % n.id, f=f, node=n)
        elif isinstance(n, ast.Attribute) and isinstance(n.ctx, ast.Load):
            b = fi.resolve(n.value)
            if b.kind == 'module':
                n_attrs += 1
                t = prog.resolve_attr(b, n.attr)
                if t.kind == 'unresolved':
                    key = 'attr %s.%s' % (b.obj.name, n.attr)
                    if key not in reported:
                        reported.add(key)
                        run.violation(rule, subj, key,
                                      'module %s has no attribute %r (AttributeError when this statement '
                                      'executes)' % (b.obj.name, n.attr), f=f, node=n)
            elif isinstance(n.value, ast.Name) and n.value.id in selfs and \
                    fi.scopes.lookup(n.value.id, fi.scopes.name_scope.get(n.value, fi.scopes.root))[0] in ('local', 'free'):
                n_self += 1
                missing = [c.name for c in rcv if not attr_resolves(prog, c, n.attr)]
                if missing and rcv:
                    key = 'selfattr %s.%s' % (n.value.id, n.attr)
                    if key not in reported:
                        reported.add(key)
                        run.violation(rule, subj, key,
                                      'attribute %r of the receiver is not defined for %s (no method, property, '
                                      'class or instance attribute of that name in the MRO)'
                                      % (n.attr, '/'.join(missing)), f=f, node=n)
    # (d) definitely-unbound locals
    n_unb = 0
    try:
        cfg = CFG(f.node)
        IN, OUT = reaching_defs(cfg, f.allparams)
        reach = cfg.reachable()
        root = fi.scopes.root
        for node in cfg.nodes:
            if node.id not in reach or node.ast is None:
                continue
            inv = IN.get(node.id, frozenset())
            defined = {x[0] for x in inv}
            for e in header_expr(node):
                if e is None:
                    continue
                loads = []
                for x in ast.walk(e):
                    if isinstance(x, ast.Name) and isinstance(x.ctx, ast.Load):
                        loads.append(x)
                for x in loads:
                    if x.id in root.bound and x.id not in root.globals and x.id not in defined \
                            and _in_immediate_scope(fi, x):
                        # comprehension-local names are bound in their own scope
                        k, s = fi.scopes.lookup(x.id, fi.scopes.name_scope.get(x, root))
                        if s is not root:
                            continue
                        # an AugAssign / same-statement definition does not help: still unbound
                        n_unb += 1
                        key = 'unbound ' + x.id
                        if key not in reported:
                            reported.add(key)
                            run.violation(rule, subj, key,
                                          'local %r is read here but no assignment reaches this statement on any '
                                          'path (UnboundLocalError)' % x.id, f=f, node=x)
    except RecursionError:
        run.error('R1: CFG recursion in %s' % f.key)
    nt = (n_names + n_attrs + n_self) > 0
    if not any(o['subject'] == subj and o['rule'] == rule and o['status'] == 'violation' for o in run.obs):
        run.holds(rule, subj, 'resolution', '%d names, %d module attributes, %d receiver attributes resolve; '
                  'no definitely-unbound local' % (n_names, n_attrs, n_self), f=f, nontrivial=nt)
    else:
        run.info(rule, subj, 'resolution-summary', '%d names, %d module attrs, %d receiver attrs examined'
                 % (n_names, n_attrs, n_self), f=f)
    return n_names + n_attrs + n_self


def run_r1(run, funcs, rule='R1'):
    total = 0
    for f in funcs:
        if f.module.short == 'stdlib/collections':
            continue
        total += check_function(run, f, rule)
    fl = [f for f in funcs if f.module.short != 'stdlib/collections']
    check_call_signatures(run, fl)
    from .r20_shapes import check_predicate_results
    check_predicate_results(run, fl)
    return total


# --------------------------------------------------------------------------- R1a: call signatures
def _sig(g, bound):
    """(min positional, max positional or None, keyword names, accepts **kw) for a call of g; bound: receiver already supplied"""
    a = g.node.args
    pos = [p.arg for p in a.posonlyargs + a.args]
    if bound and pos:
        pos = pos[1:]
    ndef = len(a.defaults)
    required = pos[:len(pos) - ndef] if ndef <= len(pos) else []
    kwonly = [p.arg for p in a.kwonlyargs]
    kwreq = [p.arg for p, d in zip(a.kwonlyargs, a.kw_defaults) if d is None]
    return pos, required, kwonly, kwreq, a.vararg is not None, a.kwarg is not None


def check_call_signatures(run, funcs, rule='R1a'):
    """Every call whose callee resolves statically to a function, method or class of the package passes a number of positional
    arguments and keyword names that the callee's signature accepts (classes: the __init__ found through the MRO; `cls(..)`
    inside a classmethod: the __init__ of every concrete receiver class).  A mismatch raises TypeError on every execution."""
    prog = run.prog
    n = 0
    for f in funcs:
        fi = FuncInfo.of(f)
        for c in own_walk(f.node):
            if not isinstance(c, ast.Call):
                continue
            if any(isinstance(a, ast.Starred) for a in c.args) or any(k.arg is None for k in c.keywords):
                continue
            t = fi.resolve(c.func)
            targets = []
            if t.kind == 'func' and isinstance(t.obj, Function):
                targets = [(t.obj, False)]
            elif t.kind == 'method' and isinstance(t.obj, Function):
                g = t.obj
                # ClassName.method(obj, ...) is unbound; self.method(...) / cls.classmethod(...) are bound
                via_class = isinstance(c.func, ast.Attribute) and fi.resolve(c.func.value).kind in ('class', 'selfclass')
                if g.kind in ('class', 'classmethod'):
                    bound = True
                elif g.kind in ('static', 'staticmethod'):
                    bound = False
                else:
                    bound = not via_class
                targets = [(g, bound)]
            elif t.kind == 'class' and isinstance(t.obj, Class):
                k, init = prog.lookup_member(t.obj, '__init__')
                if isinstance(init, Function):
                    targets = [(init, True)]
            elif t.kind == 'selfclass' and t.obj is not None:
                for sub in receiver_classes(prog, f) or [t.obj]:
                    k, init = prog.lookup_member(sub, '__init__')
                    if isinstance(init, Function) and (init, True) not in targets:
                        targets.append((init, True))
            for (g, bound) in targets:
                if g.module.short == 'stdlib/collections':
                    continue
                pos, required, kwonly, kwreq, var, kw = _sig(g, bound)
                n += 1
                npos = len(c.args)
                names = [k.arg for k in c.keywords]
                construct = 'call %s -> %s' % (src(c, 50), g.key)
                problems = []
                if npos > len(pos) and not var:
                    problems.append('%d positional arguments given, %s takes at most %d' % (npos, g.qualname, len(pos)))
                for nm in names:
                    if nm not in pos and nm not in kwonly and not kw:
                        problems.append('unexpected keyword %r' % nm)
                    elif nm in pos[:npos]:
                        problems.append('argument %r given both positionally and by keyword' % nm)
                missing = [p for p in required[npos:] if p not in names] + [p for p in kwreq if p not in names]
                if missing:
                    problems.append('required argument(s) %s missing' % ', '.join(missing))
                if problems:
                    run.violation(rule, f.key, construct, '; '.join(problems) + ': the call raises TypeError whenever it is reached', f=f, node=c)
                else:
                    run.holds(rule, f.key, construct, 'arguments fit the signature', f=f, node=c, nontrivial=False)
    return n
