"""R5 -- validation is on every path from a constructor argument into `data`."""
import ast

from ..model import Function
from ..scope import FuncInfo
from ..cfg import CFG, must_facts, reaching_defs
from ..astutil import src, kwarg, is_super_call
from ..pattern import canon, matches, find_all, conjuncts, disjuncts
from ..callgraph import own_walk
from .r2_none import own_returns, is_none_value

NONE_TESTS_TRUE = ['_X is not None', 'all(_E is not None for _V in _X)', 'all([_E is not None for _V in _X])']
NONE_TESTS_FALSE = ['_X is None', 'any(_E is None for _V in _X)', 'any([_E is None for _V in _X])', 'None in _X',
                    'any(map(lambda _V: _E is None, _X))']


def _fact_none_checked(facts, name):
    for f in facts:
        t, pol = f[2].ast, f[1]
        pats = NONE_TESTS_TRUE if pol else NONE_TESTS_FALSE
        for p in pats:
            b = matches(p, t)
            if b is not None and isinstance(b.get('_X'), ast.Name) and b['_X'].id == name:
                return True
    return False


def _is_import_call(e, selfname):
    return (isinstance(e, ast.Call) and isinstance(e.func, ast.Attribute) and e.func.attr == '_import'
            and isinstance(e.func.value, ast.Name) and e.func.value.id == selfname)


def _check_forwarded(call, param='check'):
    v = kwarg(call, 'check')
    if v is None:
        return 'default'       # callee default (True): strict
    if isinstance(v, ast.Name) and v.id == param:
        return 'forwarded'
    if isinstance(v, ast.Constant):
        return 'const:%r' % v.value
    return 'other'


def check_arghandler(run, f, rule='R5'):
    fi = FuncInfo.of(f)
    s = f.selfname
    argname = f.params[1] if len(f.params) > 1 else None
    cfg = CFG(f.node)
    facts = must_facts(cfg)
    IN, OUT = reaching_defs(cfg, f.allparams)
    reach = cfg.reachable()
    nstores = 0
    for node in cfg.nodes:
        a = node.ast
        if node.id not in reach or node.kind != 'stmt' or not isinstance(a, ast.Assign):
            continue
        tg = [t for t in a.targets if isinstance(t, ast.Attribute) and isinstance(t.value, ast.Name)
              and t.value.id == s and t.attr == 'data']
        if not tg:
            continue
        nstores += 1
        fs = facts.get(node.id, frozenset())
        val = a.value
        origin = val
        stored_name = None
        if isinstance(val, ast.Name):
            stored_name = val.id
            defs = [d for (nm, d) in IN.get(node.id, ()) if nm == val.id]
            if len(defs) == 1 and isinstance(cfg.nodes[defs[0]].ast, ast.Assign):
                origin = cfg.nodes[defs[0]].ast.value
        # the stored container is a list of this object alone (a literal, a comprehension, a copy): storing another object's
        # `data` attribute itself makes two objects share one list, so append / insert / []= on one changes the other
        if isinstance(origin, ast.Attribute) and origin.attr == 'data':
            run.violation(rule, f.key, 'container <- ' + src(origin, 50), 'the list object %s of another instance is stored by reference: '
                          'the new object and the source share one list, so a later append/insert/item assignment on either of them '
                          'changes both' % src(origin, 40), f=f, node=a)
        elif isinstance(origin, (ast.List, ast.ListComp)) or (isinstance(origin, ast.Call) and (
                matches('copy(__)', canon(fi, origin)) is not None or matches('list(__)', canon(fi, origin)) is not None
                or matches('_X.copy()', canon(fi, origin)) is not None)):
            run.holds(rule, f.key, 'container <- ' + src(origin, 50), 'a list created for this object (literal / comprehension / copy)', f=f, node=a)
        # element expressions
        elems = []
        comp = None
        if isinstance(origin, ast.List):
            elems = list(origin.elts)
        elif isinstance(origin, ast.ListComp):
            comp = origin
            elems = [origin.elt]
        else:
            elems = [origin]
        for el in elems:
            construct = 'data <- ' + src(el, 70)
            verdict, msg = _classify(run, fi, f, el, comp, fs, IN.get(node.id, ()), cfg, s, argname, stored_name)
            if verdict == 'ok':
                run.holds(rule, f.key, construct, msg, f=f, node=a)
            elif verdict == 'bad':
                run.violation(rule, f.key, construct, msg, f=f, node=a)
            else:
                run.undecided(rule, f.key, construct, msg, f=f, node=a)
    return nstores


def _classify(run, fi, f, el, comp, facts, indefs, cfg, s, argname, stored_name):
    # an element chosen per item (x.A if type(x) == type(self) else self._import(x, check=check)): every alternative is judged on
    # its own; the per-item class-equality test of the condition covers the stored value of that item
    if isinstance(el, ast.IfExp):
        out = []
        for arm, pol in ((el.body, True), (el.orelse, False)):
            b = matches('type(_V) == type(%s)' % s, el.test) if pol else matches('type(_V) != type(%s)' % s, el.test)
            if b is not None and isinstance(arm, ast.Attribute) and arm.attr in ('A', '_A') and ast.dump(arm.value) == ast.dump(b['_V']):
                out.append(('ok', 'value of an item whose class was tested equal to the receiver\'s'))
            else:
                out.append(_classify(run, fi, f, arm, comp, facts, indefs, cfg, s, argname, stored_name))
        for v, m in out:
            if v == 'bad':
                return v, m
        for v, m in out:
            if v != 'ok':
                return v, m
        return 'ok', '; '.join(m for _, m in out)
    # identity
    if isinstance(el, ast.Call) and isinstance(el.func, ast.Attribute) and el.func.attr == '_identity':
        return 'ok', 'default-constructed identity value'
    # direct _import(...) inside a comprehension / list
    if _is_import_call(el, s):
        fw = _check_forwarded(el)
        if fw.startswith('const:') and fw.endswith('False'):
            return 'bad', 'value imported with check=False: validation is disabled on this path'
        if fw == 'other':
            return 'undecided', 'check argument of _import is not the constructor\'s check'
        if stored_name is not None and _fact_none_checked(facts, stored_name):
            return 'ok', 'every element passes _import(check=%s) and the list is tested for None before the store' % fw
        return 'bad', ('results of _import are stored without a None test: an element that fails validation is kept '
                       'as None (no exception, object holds None)')
    # name bound to an _import result
    if isinstance(el, ast.Name):
        defs = [d for (nm, d) in indefs if nm == el.id]
        if defs and all(isinstance(cfg.nodes[d].ast, ast.Assign) and _is_import_call(cfg.nodes[d].ast.value, s) for d in defs):
            calls = [cfg.nodes[d].ast.value for d in defs]
            fw = {_check_forwarded(c) for c in calls}
            if any(x.startswith('const:') and x.endswith('False') for x in fw):
                return 'bad', 'value imported with check=False: validation is disabled on this path'
            if _fact_none_checked(facts, el.id):
                return 'ok', 'value passed _import(check=%s) and was tested against None' % '/'.join(sorted(fw))
            return 'bad', 'result of _import is stored without a None test'
    # converter(arg).A under convertfrom
    if isinstance(el, ast.Attribute) and isinstance(el.value, ast.Call):
        for fc in facts:
            t, pol = fc[2].ast, fc[1]
            if pol and matches('_X.__class__ in convertfrom', t) is not None:
                return 'ok', 'value produced by the declared conversion method of a convertfrom class'
    # x.A / x.data of same-class objects
    if isinstance(el, ast.Attribute) and el.attr in ('A', '_A', 'data', 'S'):
        from ..cfg import pure_locals as _pl, _subst_pure as _sp
        env_ = _pl(f.node)
        for fc in facts:
            t, pol = _sp(fc[2].ast, env_), fc[1]          # cls = type(self); all(type(item) == cls for item in arg)
            if pol and (matches('all(map(lambda _V: type(_V) == type(%s), _X))' % s, t) is not None or
                        matches('all(type(_V) == type(%s) for _V in _X)' % s, t) is not None or
                        matches('all([type(_V) == type(%s) for _V in _X])' % s, t) is not None or
                        matches('all(map(lambda _V: isinstance(_V, type(%s)), _X))' % s, t) is not None):
                return 'ok', 'elements are values of objects whose class was tested equal to the receiver\'s'
            b_ = matches('isinstance(_X, %s.__class__)' % s, t) if pol else None
            # the argument ITSELF is an object of the class (arg.A / arg.data), not an element of it
            if b_ is not None and isinstance(b_['_X'], ast.Name) and b_['_X'].id == argname and isinstance(el.value, ast.Name) and el.value.id == argname:
                return 'ok', 'value of an object of the same class'
        return 'bad', ('values taken from list elements whose class is not tested on every element (class EQUALITY of each element: an '
                       'isinstance test of the first element admits subclass objects, whose arrays have another shape)')
    if isinstance(el, ast.Call) and isinstance(el.func, ast.Attribute) and el.func.attr == 'copy':
        for fc in facts:
            t, pol = fc[2].ast, fc[1]
            if pol and matches('isinstance(_X, %s.__class__)' % s, t) is not None:
                return 'ok', 'shallow copy of the data of an object of the same class'
    # number list
    if isinstance(el, ast.Call) and any(isinstance(n, ast.Name) and n.id == argname for n in ast.walk(el)):
        for fc in facts:
            t, pol = fc[2].ast, fc[1]
            if pol and find_all('isnumberlist(%s)' % argname, canon(fi, t)):
                return 'ok', 'list of numbers of the class\'s vector length (vector classes only)'
    derived = {argname}
    if comp is not None:
        for g in comp.generators:
            if any(isinstance(n, ast.Name) and n.id in derived for n in ast.walk(g.iter)):
                derived |= {n.id for n in ast.walk(g.target) if isinstance(n, ast.Name)}
    if not any(isinstance(n, ast.Name) and n.id in derived for n in ast.walk(el)):
        return 'ok', 'value does not derive from the caller-supplied argument'
    return 'bad', 'caller-supplied value reaches data without passing _import / a class test'


def check_default_import(run, f, rule='R5'):
    """SMUserList._import: returns x only when `not check or self.isvalid(x, check=check)`."""
    fi = FuncInfo.of(f)
    cfg = CFG(f.node)
    facts = must_facts(cfg)
    x = f.params[1]
    ok = False
    bad = False
    for r in own_returns(f.node):
        if isinstance(r.value, ast.Name) and r.value.id == x:
            n = cfg.node_of(r)
            good = False
            for fc in facts.get(n.id, ()):
                t, pol = fc[2].ast, fc[1]
                if not pol:
                    continue
                ds = disjuncts(t)
                has_valid = any(matches('%s.isvalid(%s, check=check)' % (f.selfname, x), d) is not None or
                                matches('%s.isvalid(%s)' % (f.selfname, x), d) is not None or
                                matches('%s.isvalid(%s, check)' % (f.selfname, x), d) is not None for d in ds)
                others = [d for d in ds if 'isvalid' not in ast.unparse(d)]
                if has_valid and all(matches('not check', d) is not None for d in others):
                    good = True
            if good:
                ok = True
            else:
                bad = True
    if ok and not bad:
        run.holds(rule, f.key, 'return value', 'the value is returned only under `not check or self.isvalid(x, check=check)`', f=f)
    else:
        run.violation(rule, f.key, 'return value', 'default _import returns the value on a path not guarded by isvalid', f=f)


def check_override_import(run, f, rule='R5'):
    """Subclass _import: the value is returned only under self.isvalid(...); no None result."""
    fi = FuncInfo.of(f)
    cfg = CFG(f.node)
    facts = must_facts(cfg)
    reach = cfg.reachable()
    v = f.params[1]
    problems = []
    nret = 0
    for r in own_returns(f.node):
        n = cfg.node_of(r)
        if n is None or n.id not in reach:
            continue
        if is_none_value(r.value):
            # protocol of _import: None = invalid. Safe because every caller's use of the result is None-tested
            # (that is what check_arghandler establishes); recorded, not an error.
            run.info(rule, f.key, 'returns None', 'override answers None for an invalid value (callers are None-tested)', f=f)
            continue
        nret += 1
        good = False
        for fc in facts.get(n.id, ()):
            t, pol = fc[2].ast, fc[1]
            if pol and find_all('%s.isvalid(%s, check=check)' % (f.selfname, v), t) + find_all('%s.isvalid(%s)' % (f.selfname, v), t) \
                    + find_all('%s.isvalid(%s, check)' % (f.selfname, v), t):
                good = True
        if not good:
            problems.append(('unvalidated return', 'a value is returned on a path where isvalid was not established', r))
    if cfg.falloff.id in reach:
        run.info(rule, f.key, 'falls off the end', 'override answers None (fall-through) for an invalid value', f=f)
    if problems:
        for what, msg, node in problems:
            run.violation(rule, f.key, what, msg, f=f, node=node)
    else:
        run.holds(rule, f.key, 'override', '%d value returns all under isvalid; invalid input raises' % nret, f=f)


CTOR_CHECK = {  # class -> how its constructor must pass `check` to arghandler
    'SO2': 'forwarded', 'SE2': 'forwarded', 'SO3': 'forwarded', 'SE3': 'forwarded', 'UnitQuaternion': 'forwarded',
    'Twist2': 'forwarded', 'Twist3': 'forwarded',
    'Quaternion': 'const:False',   # frozen exception: any 4-vector is a valid quaternion
    'Plucker': 'default', 'SpatialVector': 'default',
}


def check_ctor_forwarding(run, rule='R5'):
    prog = run.prog
    for cn, want in CTOR_CHECK.items():
        c = prog.cls(cn)
        k, init = prog.lookup_member(c, '__init__')
        if not isinstance(init, Function):
            run.error('R5: %s has no constructor' % cn)
            continue
        calls = [n for n in own_walk(init.node) if isinstance(n, ast.Call) and isinstance(n.func, ast.Attribute)
                 and n.func.attr == 'arghandler']
        if not calls:
            run.error('R5: constructor of %s does not call arghandler' % cn)
            continue
        for call in calls:
            got = _check_forwarded(call)
            subj = '%s (ctor %s)' % (cn, init.key)
            if got == want and want == 'const:False':
                # validation is switched off for a class whose only invariant is the shape of its elements: _import then
                # returns ANY array, so the shape must be re-established on the stored data before the constructor returns
                guard = None
                for st in own_walk(init.node):
                    if isinstance(st, ast.If) and any(n is call for n in ast.walk(st.test)):
                        for y in st.body:
                            if isinstance(y, (ast.If, ast.Assert)) and ('.shape' in ast.unparse(y.test) or 'isvalid(' in ast.unparse(y.test)) \
                                    and 'data' in ast.unparse(y.test):
                                guard = y
                if guard is not None:
                    run.holds(rule, subj, 'check -> arghandler', 'check=False, and the shape of every stored element is tested afterwards', f=init, node=call)
                else:
                    run.violation(rule, subj, 'check -> arghandler', 'the constructor passes check=False to arghandler, which makes _import return any array '
                                  'unchanged, and never tests the shape of the stored elements: an ndarray of the wrong length or '
                                  'dimension becomes a value of the object (the list form of the same data is rejected)', f=init, node=call)
            elif got == want or (want == 'forwarded' and got == 'default'):
                run.holds(rule, subj, 'check -> arghandler', 'arghandler receives check=%s' % got, f=init, node=call)
            elif want == 'default' and got == 'forwarded':
                run.holds(rule, subj, 'check -> arghandler', 'arghandler receives the constructor\'s check', f=init, node=call)
            else:
                run.violation(rule, subj, 'check -> arghandler', 'constructor passes check=%s to arghandler (expected %s): '
                              'caller-supplied arrays are stored without the membership test' % (got, want), f=init, node=call)


def run_r5(run, rule='R5'):
    prog = run.prog
    ah = prog.func('smuserlist:SMUserList.arghandler')
    n = check_arghandler(run, ah)
    if n < 5:
        run.error('R5: only %d stores to data recognised in arghandler (expected >= 5)' % n)
    # overrides of arghandler in subclasses are analysed the same way
    for f in prog.functions.values():
        if f.name == 'arghandler' and f is not ah and f.cls is not None:
            check_arghandler(run, f)
    check_default_import(run, prog.func('smuserlist:SMUserList._import'))
    for f in prog.functions.values():
        if f.name == '_import' and f.cls is not None and f.key != 'smuserlist:SMUserList._import':
            check_override_import(run, f)
    check_ctor_forwarding(run)


def check_container_freshness(run, rule='R5'):
    """In every constructor (and arghandler) of a list-capable class the list stored into self.data is made for this object:
    `self.data = other.data` makes two objects share one list, so list mutation of one (append, insert, pop, x[i] = ..) changes
    the other -- also the constructor ARGUMENT."""
    prog = run.prog
    n = 0
    for f in prog.analysed_functions():
        if f.cls is None or f.parent is not None or prog.UserList not in f.cls.mro:
            continue
        if f.name not in ('__init__', 'arghandler') and f.kind != 'class':
            continue
        s = f.selfname
        for st in own_walk(f.node):
            if isinstance(st, ast.Assign) and any(isinstance(t, ast.Attribute) and t.attr == 'data' and isinstance(t.value, ast.Name) and t.value.id == s for t in st.targets):
                n += 1
                v = st.value
                if isinstance(v, ast.Attribute) and v.attr == 'data':
                    run.violation(rule, f.key, 'container <- ' + src(v, 40), 'the list object %s of another instance is stored by reference: the new object and '
                                  'the source share one list, so a later append/insert/pop/item assignment on either changes both (the '
                                  'constructor argument included)' % src(v, 40), f=f, node=st)
                else:
                    run.holds(rule, f.key, 'container <- ' + src(v, 40), 'not the data attribute of another object', f=f, node=st, nontrivial=False)
    return n
