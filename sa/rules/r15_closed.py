"""R15c -- unchecked constructions (check=False / norm=False) are fed only by closed producers; R13 -- an axis
parameter reaches a constructed value only through a normaliser; the UnitQuaternion constructor normalises every
caller-supplied quaternion."""
import ast

from ..model import Class, Function
from ..scope import FuncInfo
from ..cfg import CFG, must_facts, reaching_defs, header_expr
from ..callgraph import own_walk
from ..astutil import src, kwarg
from ..pattern import canon, matches

# functions whose result is a member of the group by construction (each is itself covered by a table / form rule)
CLOSED = {
    'rotx', 'roty', 'rotz', 'rot2', 'trotx', 'troty', 'trotz', 'trot2', 'eul2r', 'rpy2r', 'eul2tr', 'rpy2tr', 'angvec2r',
    'angvec2tr', 'oa2r', 'oa2tr', 'trexp', 'trexp2', 'q2r', 'trnorm', 'trnorm2',
    'transl', 'transl2', 'trinterp', 'trinterp2', 'r2q', 'rand', 'unit', 'xyt2tr', 'rodrigues',
    'slerp', 'lift3', 'eye', 'identity', '_twist', 'trlog', 'trlog2',
}
# transporters: the result is a member exactly when the listed arguments are (r2t(R) is in SE(3) iff R is in SO(3)); a raw
# parameter counts as a member only under a dominating membership test with the check enabled
ARG_CLOSED = {'matrix_power': (0,), 'r2t': (0,), 't2r': (0,), 'rt2tr': (0,), 'trinv': (0,), 'trinv2': (0,), 'conj': (0,), 'qqmul': (0, 1)}
FIRST_ORDER = {'delta2tr': 'first-order motion I + skewa(d): approximate by definition (documented)'}
POSE_CLASSES = {'SO2', 'SE2', 'SO3', 'SE3', 'UnitQuaternion'}


_site = []      # stack of original AST nodes locating the expression being judged (for reaching definitions)
_rdefs = {}


def _list_defs(fi, name, site):
    """values of the definitions of the local list `name` that reach `site`; None when one of them is not a plain assignment"""
    f = fi.f
    key = id(f.node)
    if key not in _rdefs:
        cfg = CFG(f.node)
        _rdefs[key] = (cfg, reaching_defs(cfg, f.allparams)[0])
    cfg, IN = _rdefs[key]
    node = None
    for n_ in cfg.nodes:
        a = getattr(n_, 'ast', None)
        if a is not None and (a is site or any(y is site for h in header_expr(n_) if h is not None for y in ast.walk(h))):
            node = n_
            break
    if node is None:
        return None
    out = []
    for (nm, d) in IN.get(node.id, frozenset()):
        if nm != name:
            continue
        a = cfg.nodes[d].ast
        if not (isinstance(a, ast.Assign) and len(a.targets) == 1 and isinstance(a.targets[0], ast.Name)):
            return None
        out.append(a)
    return out


def _member_list(fi, it, member_vars, depth):
    """is `it` a list of member values?  -> (True|False|None, why)"""
    if (isinstance(it, ast.Name) and it.id in fi.self_names()) or \
            (isinstance(it, ast.Attribute) and isinstance(it.value, ast.Name) and it.value.id in fi.self_names()
             and it.attr in ('data', 'A', '_A')):
        return (True, 'the stored values')
    if isinstance(it, ast.ListComp):
        return closed_expr(fi, it, member_vars, depth + 1)
    if isinstance(it, ast.Name) and _site and it.id not in fi.f.allparams:
        defs = _list_defs(fi, it.id, _site[-1])
        if not defs:
            return (None, 'list ' + it.id)
        res = None
        for a in defs:
            _site.append(a)
            try:
                r = _member_list(fi, a.value, member_vars, depth + 1)
            finally:
                _site.pop()
            if r[0] is False:
                return (False, '%s (the list %s defined at line %d)' % (r[1], it.id, a.lineno))
            if not r[0]:
                res = r
        return res if res is not None else (True, 'every reaching definition of %s holds members' % it.id)
    return (None, 'list ' + src(it, 30))


def closed_expr(fi, e, member_vars, depth=0):
    """-> (True, why) | (False, why) | (None, why)"""
    if depth > 8:
        return (None, 'too deep')
    if isinstance(e, ast.ListComp):
        mv = set(member_vars)
        for g in e.generators:
            it = g.iter
            if isinstance(it, ast.Name) and it.id not in fi.self_names() and isinstance(g.target, ast.Name):
                r = _member_list(fi, it, member_vars, depth)
                if r[0] is False:
                    return r
                if r[0]:
                    mv.add(g.target.id)
            # elements of self / self.data / self.A are members
            if (isinstance(it, ast.Name) and it.id in fi.self_names()) or \
                    (isinstance(it, ast.Attribute) and isinstance(it.value, ast.Name) and it.value.id in fi.self_names()
                     and it.attr in ('data', 'A', '_A')):
                for y in ast.walk(g.target):
                    if isinstance(y, ast.Name):
                        mv.add(y.id)
            if isinstance(it, ast.Call) and isinstance(it.func, ast.Name) and it.func.id == 'zip' and isinstance(g.target, (ast.Tuple, ast.List)) \
                    and len(g.target.elts) == len(it.args):
                # zip(X, Y, R): an element of R is a member object when R was made by a pose-class constructor (R = SO3.Rand(N=N))
                from ..astutil import single_assignments
                sa = single_assignments(fi.f.node)
                for tv, src_ in zip(g.target.elts, it.args):
                    if isinstance(src_, ast.Name) and src_.id in sa:
                        src_ = sa[src_.id]
                    if isinstance(tv, ast.Name) and isinstance(src_, ast.Call):
                        fn_ = src_.func
                        root = fn_.value if isinstance(fn_, ast.Attribute) else fn_
                        if isinstance(root, ast.Name) and root.id in POSE_CLASSES:
                            mv.add(tv.id)
        return closed_expr(fi, e.elt, mv, depth + 1)
    if isinstance(e, ast.Call):
        fn = e.func
        if isinstance(fn, ast.Name):
            if fn.id in ARG_CLOSED and e.args:
                # closed only when applied to members
                und = None
                for k in ARG_CLOSED[fn.id]:
                    if k >= len(e.args):
                        continue
                    a = e.args[k]
                    if isinstance(a, ast.Name) and a.id in fi.f.allparams and a.id not in member_vars and a.id not in fi.self_names():
                        return (False, '%s(%s) transports the raw parameter %r, which no membership test with the check enabled '
                                'dominates here: it is a member only if its argument is' % (fn.id, a.id, a.id))
                    r = closed_expr(fi, a, member_vars, depth + 1)
                    if r[0] is False:
                        return r
                    if not r[0]:
                        und = r
                if und is None:
                    return (True, '%s of a member' % fn.id)
                return (None, '%s of %s' % (fn.id, und[1]))
            if fn.id in CLOSED:
                return (True, 'closed producer ' + fn.id)
            if fn.id in FIRST_ORDER:
                return (True, FIRST_ORDER[fn.id])
            if fn.id == 'vf':
                return (True, 'element-wise symbolic simplification')
        if isinstance(fn, ast.Call) and matches('vectorize(simplify)', fn) is not None:
            return (True, 'element-wise symbolic simplification (value preserving)')
        if isinstance(fn, ast.Attribute) and fn.attr in ('_op2', 'binop') and e.args:
            lam = e.args[1] if len(e.args) > 1 else None
            if isinstance(lam, ast.Lambda):
                ps = {a.arg for a in lam.args.args}
                r = closed_expr(fi, lam.body, member_vars | ps, depth + 1)
                return r
            if isinstance(lam, ast.Name) and lam.id in CLOSED:
                return (True, 'helper applying ' + lam.id)
            return (None, 'helper with an unrecognised operation')
        return (None, 'call of %s' % src(fn, 30))
    if isinstance(e, ast.BinOp):
        if isinstance(e.op, ast.MatMult):
            a = closed_expr(fi, e.left, member_vars, depth + 1)
            b = closed_expr(fi, e.right, member_vars, depth + 1)
            if a[0] and b[0]:
                return (True, 'product of members')
            if a[0] is False or b[0] is False:
                return (False, a[1] if a[0] is False else b[1])
            return (None, a[1] if a[0] is None else b[1])
        if isinstance(e.op, (ast.Add, ast.Sub, ast.Mult, ast.Div)):
            return (False, 'element-wise %s (%s) is not a group operation' % (type(e.op).__name__, src(e, 40)))
    if isinstance(e, ast.IfExp):
        a = closed_expr(fi, e.body, member_vars, depth + 1)
        b = closed_expr(fi, e.orelse, member_vars, depth + 1)
        if a[0] is False or b[0] is False:
            return a if a[0] is False else b
        if a[0] and b[0]:
            return (True, 'both alternatives closed')
        return a if a[0] is None else b
    if isinstance(e, ast.Attribute):
        if e.attr == 'T':
            inner = closed_expr(fi, e.value, member_vars, depth + 1)
            if inner[0]:
                # the transpose of a member is a member only for rotation matrices: a homogeneous matrix [[R, t],[0, 1]]
                # transposes to [[R^T, 0],[t^T, 1]], which is not in SE(n)
                hom = _homogeneous_receivers(fi)
                if hom:
                    return (False, 'transpose of a member value in a method whose receiver can be %s: the transpose of a '
                            'homogeneous matrix is not its inverse and not a member of SE(n)' % '/'.join(hom))
            return inner
        if e.attr in ('A', '_A', 'R') and isinstance(e.value, ast.Name) and (e.value.id in fi.self_names() or e.value.id in member_vars):
            return (True, 'stored value of a member')
    if isinstance(e, ast.Name) and e.id in member_vars:
        return (True, 'element of a member')
    if isinstance(e, ast.Subscript) and isinstance(e.value, ast.Name) and e.value.id == 'r_':
        # half-angle quaternion: exactly one cos(A), one sin(A) with the same argument, zeros elsewhere
        ents = e.slice.elts if isinstance(e.slice, ast.Tuple) else [e.slice]
        cs = [x for x in ents if matches('cos(_A)', x) is not None]
        sn = [x for x in ents if matches('sin(_A)', x) is not None]
        zs = [x for x in ents if isinstance(x, ast.Constant) and x.value == 0]
        if len(ents) == 4 and len(cs) == 1 and len(sn) == 1 and len(zs) == 2 and \
                ast.unparse(matches('cos(_A)', cs[0])['_A']) == ast.unparse(matches('sin(_A)', sn[0])['_A']):
            return (True, 'half-angle unit quaternion [cos(a), sin(a) on one axis]')
        return (False, 'literal 4-vector that is not of the unit form [cos a, sin a e_i]')
    return (None, 'expression ' + src(e, 40))


HOMOGENEOUS = ('SE2', 'SE3')


def _homogeneous_receivers(fi):
    """names of the SE(n) classes whose instances can be the receiver of the method fi belongs to (MRO lookup)"""
    from .r1_resolve import receiver_classes
    from ..model import program
    f = fi.f
    while f is not None and f.cls is None:
        f = f.parent
    if f is None:
        return []
    return sorted(k.name for k in receiver_classes(program(), f) if k.name in HOMOGENEOUS)


MEMBER_TESTS = ('isrot', 'ishom', 'isrot2', 'ishom2', 'isR', 'isvalid')
_cfgs = {}


def _validated(f, fi, call):
    """names whose membership has been tested (check enabled, or left to the caller's own check option) on every path to the call"""
    key = id(f.node)
    if key not in _cfgs:
        cfg = CFG(f.node)
        _cfgs[key] = (cfg, must_facts(cfg))
    cfg, facts = _cfgs[key]
    node = None
    for n_ in cfg.nodes:
        if any(y is call for h in header_expr(n_) if h is not None for y in ast.walk(h)):
            node = n_
            break
    out = set()
    if node is None:
        return out
    for fc in facts.get(node.id, frozenset()):
        if not fc[1]:
            continue
        t = canon(fi, fc[2].ast, inline=False)
        if isinstance(t, ast.Call) and isinstance(t.func, ast.Name) and t.func.id in MEMBER_TESTS and t.args and isinstance(t.args[0], ast.Name):
            ck = kwarg(t, 'check')
            if t.func.id in ('isR', 'isvalid') or (ck is not None and not (isinstance(ck, ast.Constant) and ck.value is False)):
                out.add(t.args[0].id)
    return out


def check_unchecked_sites(run, rule='R15c', only=None, keys=None, raw_only=False):
    """only: restrict to methods with these names (the group operations, for C02); keys: restrict to these functions;
    raw_only: decide only whether CALLER data reaches an unchecked construction (C07); library-made values are C01's subject"""
    prog = run.prog
    n = 0
    for f in prog.analysed_functions():
        if f.module.short.startswith('base/') or f.module.short == 'timing':
            continue
        if only is not None and f.name not in only:
            continue
        if keys is not None and f.key not in keys:
            continue
        fi = FuncInfo.of(f)
        for c in own_walk(f.node):
            if not isinstance(c, ast.Call):
                continue
            ck = kwarg(c, 'check')
            nk = kwarg(c, 'norm')
            unchecked = isinstance(ck, ast.Constant) and ck.value is False
            unnormed = isinstance(nk, ast.Constant) and nk.value is False
            if not (unchecked or unnormed):
                continue
            t = fi.resolve(c.func)
            cls_ok = (t.kind == 'class' and isinstance(t.obj, Class) and t.obj.name in POSE_CLASSES) or t.kind == 'selfclass'
            if not cls_ok:
                continue
            n += 1
            if kwarg(c, 's') is not None or kwarg(c, 'v') is not None:
                _sv_form(run, f, fi, c, unnormed, rule)
                continue
            if not c.args:
                continue
            e = canon(fi, c.args[0])
            _site.append(c)
            try:
                ok, why = closed_expr(fi, e, _validated(f, fi, c))
            finally:
                _site.pop()
            construct = 'unchecked ' + src(c, 70)
            if raw_only:
                if ok is False and 'raw parameter' in why:
                    run.violation(rule, f.key, construct, 'caller data reaches a construction that skips the membership check: ' + why, f=f, node=c)
                else:
                    run.holds(rule, f.key, construct, 'no raw parameter is transported into the unchecked construction', f=f, node=c)
                continue
            if ok:
                run.holds(rule, f.key, construct, why, f=f, node=c)
            elif ok is False:
                run.violation(rule, f.key, construct, 'the value stored without the membership check is not produced by a group-closed '
                              'operation: ' + why, f=f, node=c)
            else:
                run.undecided(rule, f.key, construct, 'producer not in the closed-producer table: ' + why, f=f, node=c)
    return n


def _sv_form(run, f, fi, c, unnormed, rule):
    """UnitQuaternion(s=, v=, norm=False): s = cos(A), v = sin(A) * <unit axis>"""
    s = kwarg(c, 's')
    v = kwarg(c, 'v')
    construct = 'unchecked ' + src(c, 70)
    if not unnormed:
        run.holds(rule, f.key, construct, 'the constructor normalises (s, v) itself (norm is not disabled)', f=f, node=c)
        return
    cs = canon(fi, s) if s is not None else None
    cv = canon(fi, v) if v is not None else None
    b1 = matches('cos(_A)', cs) if cs is not None else None
    b2 = None
    axis = None
    if cv is not None:
        for pat in ('sin(_A) * _U', '_U * sin(_A)'):
            b2 = matches(pat, cv)
            if b2 is not None:
                axis = b2['_U']
                break
    if b1 is None or b2 is None or ast.unparse(b1['_A']) != ast.unparse(b2['_A']):
        run.undecided(rule, f.key, construct, 'norm=False with (s, v) not of the form (cos a, sin a * axis)', f=f, node=c)
        return
    if matches('unitvec(__)', axis) is not None or matches('unit(__)', axis) is not None:
        run.holds(rule, f.key, construct, '(cos a, sin a * unit axis) with norm=False', f=f, node=c)
    else:
        run.violation(rule, f.key, construct, 'norm=False, but the axis %s multiplying sin is not normalised (no unitvec): the '
                      'quaternion has norm != 1 for a non-unit axis' % src(axis, 30), f=f, node=c)


def check_unitquaternion_ctor(run, rule='R13'):
    """Every store of caller data into a UnitQuaternion is a normalised quaternion unless norm=False was requested."""
    f = run.prog.func('quaternion:UnitQuaternion.__init__')
    fi = FuncInfo.of(f)
    cfg = CFG(f.node)
    facts = must_facts(cfg)
    reach = cfg.reachable()
    s = f.selfname
    n = 0
    for node in cfg.nodes:
        a = node.ast
        if node.id not in reach or node.kind != 'stmt' or not isinstance(a, ast.Assign):
            continue
        if not any(isinstance(t, ast.Attribute) and t.attr == 'data' and isinstance(t.value, ast.Name) and t.value.id == s for t in a.targets):
            continue
        n += 1
        fs = facts.get(node.id, frozenset())
        norm_false = any((not fc[1]) and isinstance(fc[2].ast, ast.Name) and fc[2].ast.id == 'norm' for fc in fs)
        e = canon(fi, a.value, inline=False)
        elt = e.elt if isinstance(e, ast.ListComp) else (e.elts[0] if isinstance(e, ast.List) and e.elts else e)
        construct = 'data <- ' + src(a.value, 60)
        if matches('unit(__)', elt) is not None or matches('r2q(__)', elt) is not None:
            run.holds(rule, f.key, construct, 'normalised quaternion (unit / r2q)', f=f, node=a)
        elif norm_false:
            run.holds(rule, f.key, construct, 'stored as given because norm=False was requested', f=f, node=a)
        elif matches('qnorm(__)', elt) is not None or matches('norm(__)', elt) is not None:
            run.violation(rule, f.key, construct, 'the element stored is the NORM of the quaternion (a scalar), not the normalised '
                          'quaternion: UnitQuaternion(Nx4 array) holds scalars', f=f, node=a)
        elif isinstance(elt, ast.Name):
            # q defined as unit(q) under `if norm:` just before
            from ..cfg import reaching_defs
            IN, OUT = reaching_defs(cfg, f.allparams)
            defs = [cfg.nodes[d].ast for (nm, d) in IN.get(node.id, ()) if nm == elt.id and d != cfg.entry.id]
            unit_def = [d for d in defs if isinstance(d, ast.Assign) and matches('unit(__)', canon(fi, d.value, inline=False)) is not None]
            if unit_def:
                run.holds(rule, f.key, construct, 'normalised under `if norm:` before the store', f=f, node=a)
            else:
                run.violation(rule, f.key, construct, 'caller-supplied quaternion is stored without normalisation although norm is not '
                              'disabled', f=f, node=a)
        else:
            run.violation(rule, f.key, construct, 'caller-supplied quaternion is stored without normalisation (%s)' % src(elt, 30), f=f, node=a)
    if n < 6:
        run.error('R13: only %d stores recognised in UnitQuaternion.__init__' % n)


def check_twist_sum_arm(run, rule='R15'):
    """Twist composition is log(exp(x) exp(y)).  The sum x + y equals it only when the two twists COMMUTE:
    [x, y] = (w1 x v2 + v1 x w2, w1 x w2) = 0, a condition on the linear parts as well as on the angular parts.  A kernel handed to
    the broadcasting helper in Twist3.__mul__ / Twist2.__mul__ that returns the sum of its two arguments under a guard which reads
    only the angular parts (parallel directions) decides commutation from half of the information: parallel axes through different
    points do not commute."""
    prog = run.prog
    n = 0
    for key in ('twist:Twist3.__mul__', 'twist:Twist2.__mul__'):
        f = prog.functions.get(key)
        if f is None:
            continue
        kernels = []
        for x in ast.walk(f.node):
            if isinstance(x, ast.Lambda) and len(x.args.args) == 2:
                kernels.append((x.args.args[0].arg, x.args.args[1].arg, [x.body], x))
            elif isinstance(x, ast.FunctionDef) and x is not f.node and len(x.args.args) == 2:
                kernels.append((x.args.args[0].arg, x.args.args[1].arg, x.body, x))
        for (a, b, body, node) in kernels:
            nang = 3 if 'Twist3' in key else 1
            # locals that hold the linear / angular part of an argument
            lin = set()
            for st in ast.walk(node):
                if isinstance(st, ast.Assign):
                    tg = st.targets[0]
                    vals = st.value.elts if isinstance(st.value, ast.Tuple) and isinstance(tg, ast.Tuple) else [st.value]
                    tgs = tg.elts if isinstance(tg, ast.Tuple) and isinstance(st.value, ast.Tuple) else [tg]
                    for t_, v_ in zip(tgs, vals):
                        if isinstance(t_, ast.Name) and isinstance(v_, ast.Subscript) and isinstance(v_.value, ast.Name) and v_.value.id in (a, b) \
                                and isinstance(v_.slice, ast.Slice) and v_.slice.lower is None and v_.slice.upper is not None:
                            lin.add(t_.id)

            def reads_linear(e):
                for y in ast.walk(e):
                    if isinstance(y, ast.Name) and y.id in lin:
                        return True
                    if isinstance(y, ast.Subscript) and isinstance(y.value, ast.Name) and y.value.id in (a, b) and isinstance(y.slice, ast.Slice) \
                            and y.slice.lower is None and y.slice.upper is not None:
                        return True
                    if isinstance(y, ast.Name) and y.id in (a, b) and not isinstance(getattr(y, '_parent', None), ast.Subscript):
                        pass
                return False

            def walk(stmts, guards):
                nonlocal n
                for st in stmts:
                    if isinstance(st, ast.If):
                        walk(st.body, guards + [st.test])
                        walk(st.orelse, guards)
                    elif isinstance(st, ast.Return) and st.value is not None or isinstance(st, ast.expr):
                        v = st.value if isinstance(st, ast.Return) else st
                        if isinstance(v, ast.BinOp) and isinstance(v.op, ast.Add) and {getattr(v.left, 'id', None), getattr(v.right, 'id', None)} == {a, b}:
                            n += 1
                            if not any(reads_linear(g) for g in guards):
                                run.violation(rule, f.key, 'sum arm of the twist product', 'the kernel returns %s + %s for twists whose guard (%s) reads only the '
                                              'angular parts: the sum is the product only for commuting twists, and [x, y] = (w1 x v2 + v1 x w2, w1 x w2) '
                                              'depends on the linear parts too (parallel axes through different points do not commute)' %
                                              (a, b, ' and '.join(src(g, 40) for g in guards) or 'none'), f=f, node=v)
                            else:
                                run.error('R15: %s: a sum arm of the twist product under a guard on the linear parts: commutation is not decided' % key)
            walk(body if isinstance(body[0], ast.stmt) else [ast.Return(value=body[0])], [])
    return n
