"""R6 -- operator dispatch table by abstract interpretation over class kinds.

For every ordered pair of operand kinds and every binary operator, resolve the method Python calls (forward dunder
through the MRO, reflected fallback, subclass priority), abstractly interpret its body with the operand classes
known exactly (lengths, shapes and numeric values unknown), and compare the set of possible outcomes with the
documented table (DESIGN.md appendix B)."""
import ast

from ..model import Function, Class, AnalysisError
from ..scope import FuncInfo
from ..astutil import body_nodoc, src

LIB = ['SO2', 'SE2', 'SO3', 'SE3', 'Quaternion', 'UnitQuaternion', 'Twist2', 'Twist3', 'Plucker',
       'SpatialVelocity', 'SpatialAcceleration', 'SpatialForce', 'SpatialMomentum', 'SpatialInertia',
       'DualQuaternion', 'UnitDualQuaternion']
PRIM = ['Int', 'Float', 'List', 'Tuple', 'NDArray']
OPS = {
    '*': ('__mul__', '__rmul__'), '/': ('__truediv__', '__rtruediv__'), '+': ('__add__', '__radd__'),
    '-': ('__sub__', '__rsub__'), '**': ('__pow__', '__rpow__'), '@': ('__matmul__', '__rmatmul__'),
    '==': ('__eq__', '__eq__'), '!=': ('__ne__', '__ne__'), '^': ('__xor__', '__rxor__'), '|': ('__or__', '__ror__'),
}
ARITH = ['*', '/', '+', '-', '**', '@']

# ----------------------------------------------------------------------------- abstract values


class V:
    """kind: obj | cls | int | float | bool | str | none | list | tuple | ndarray | data | value | notimpl | top | func
    data: frozenset of class names whose element arrays the list may contain (for kind data/list)."""
    __slots__ = ('kind', 'cls', 'data')

    def __init__(self, kind, cls=None, data=frozenset()):
        self.kind = kind
        self.cls = cls
        self.data = frozenset(data)

    def __repr__(self):
        if self.kind in ('obj', 'cls'):
            return '%s(%s)' % (self.kind, self.cls)
        if self.data:
            return '%s%s' % (self.kind, sorted(self.data))
        return self.kind

    def key(self):
        return (self.kind, self.cls, self.data)


TOP = V('top')
VALUE = V('value')     # some non-None value of unknown kind
NONE = V('none')
NOTIMPL = V('notimpl')

PRIMV = {'Int': V('int'), 'Float': V('float'), 'List': V('list'), 'Tuple': V('tuple'), 'NDArray': V('ndarray')}


class Raise(Exception):
    def __init__(self, what):
        self.what = what


class Budget(Exception):
    pass


class Outcome:
    __slots__ = ('kind', 'val', 'note', 'definite', 'mayraise', 'bdef')
    # kind: ret | raise ; definite: reached through decisions that are all statically known and without passing a
    # call that may raise on a runtime (shape/length/numeric) condition

    def __init__(self, kind, val=None, note='', definite=True, mayraise=False):
        self.kind = kind
        self.val = val
        self.note = note
        self.bdef = definite              # all branch decisions on the path statically known
        self.definite = definite and not mayraise
        self.mayraise = mayraise

    def key(self):
        return (self.kind, self.val.key() if isinstance(self.val, V) else self.val, self.note, self.definite, self.mayraise)

    def __repr__(self):
        return '%s%s:%r%s' % (self.kind, '' if self.definite else '?', self.val, (' [' + self.note + ']') if self.note else '')


class Interp:
    def __init__(self, prog):
        self.prog = prog
        self.steps = 0
        self.scalar_names = {'int': 'int', 'float': 'float'}

    # ------------------------------------------------------------------ class facts
    def cls(self, name):
        return self.prog.classes.get(name)

    def issub(self, a, b):
        ca, cb = self.cls(a), self.cls(b)
        if ca is None or cb is None:
            return None
        return cb in ca.mro

    def is_userlist(self, name):
        c = self.cls(name)
        return c is not None and self.prog.UserList in c.mro

    def shape_of(self, name):
        c = self.cls(name)
        if c is None:
            return None
        k, mem = self.prog.lookup_member(c, 'shape')
        if isinstance(mem, Function):
            for n in ast.walk(mem.node):
                if isinstance(n, ast.Return) and isinstance(n.value, ast.Tuple) and \
                        all(isinstance(e, ast.Constant) for e in n.value.elts):
                    return tuple(e.value for e in n.value.elts)
        return None

    # ------------------------------------------------------------------ method call
    def call_method(self, cname, mname, recv, args, kwargs, depth, start_after=None):
        """Interpret method `mname` as seen from class cname. Returns list of Outcome."""
        c = self.cls(cname)
        k, mem = self.prog.lookup_member(c, mname, start_after=start_after)
        if mem is None:
            return None
        if not isinstance(mem, Function):
            return [Outcome('ret', VALUE, 'non-function member')]
        return self.call_function(mem, recv, args, kwargs, depth)

    def call_function(self, f, recv, args, kwargs, depth):
        if depth > 4:
            return [Outcome('ret', VALUE, 'inlining depth')]
        params = list(f.params)
        env = {}
        if f.kind in ('method', 'property') and recv is not None:
            env[params[0]] = recv
            params = params[1:]
        elif f.kind == 'class':
            env[params[0]] = V('cls', recv.cls if recv is not None else None)
            params = params[1:]
        elif f.kind == 'static':
            pass
        dfl = f.defaults()
        for i, p in enumerate(params):
            if i < len(args):
                env[p] = args[i]
            elif p in kwargs:
                env[p] = kwargs[p]
            elif p in dfl:
                env[p] = self.const(dfl[p])
            else:
                env[p] = TOP
        for p in f.kwonly:
            env[p] = kwargs.get(p, self.const(dfl[p]) if p in dfl else TOP)
        fr = Frame(self, f, env, depth)
        return fr.run()

    def const(self, node):
        if isinstance(node, ast.Constant):
            v = node.value
            if v is None:
                return NONE
            if isinstance(v, bool):
                return V('bool')
            if isinstance(v, int):
                return V('int')
            if isinstance(v, float):
                return V('float')
            if isinstance(v, str):
                return V('str')
        return TOP


class Frame:
    def __init__(self, interp, f, env, depth):
        self.I = interp
        self.f = f
        self.fi = FuncInfo.of(f)
        self.env0 = env
        self.depth = depth
        self.owner = self.fi.owner_class()

    def run(self):
        outs = []
        for (env, oc) in self.block(body_nodoc(self.f.node), dict(self.env0)):
            if oc is None:
                outs.append(Outcome('ret', NONE, 'falls off the end of %s' % self.f.key, not env.get('$u', False), env.get('$r', False)))
            else:
                outs.append(oc)
        return dedup(outs)

    # ------------------------------------------------------------------ statements
    def block(self, stmts, env):
        """-> list of (env, Outcome or None[=fell through])"""
        states = [env]
        results = []
        for st in stmts:
            nxt = []
            for e in states:
                for (e2, oc) in self.stmt(st, e):
                    if oc is None:
                        nxt.append(e2)
                    else:
                        results.append((e2, oc))
            states = nxt[:24]
            if not states:
                break
        return results + [(e, None) for e in states]

    def stmt(self, st, env):
        I = self.I
        I.steps += 1
        if I.steps > 400000:
            raise Budget()
        self._u = env.get('$u', False)
        self._r = env.get('$r', False)

        def U(e):
            if (self._u and not e.get('$u')) or (self._r and not e.get('$r')):
                e = dict(e)
                e['$u'] = self._u
                e['$r'] = self._r
            return e
        try:
            if isinstance(st, ast.Return):
                if st.value is None:
                    return [(env, Outcome('ret', NONE, 'bare return', not self._u, self._r))]
                vs = self.evals(st.value, env)
                return [(env, Outcome('ret', v, n, not self._u, self._r)) for (v, n) in vs]
            if isinstance(st, ast.Raise):
                return [(env, Outcome('raise', exc_name(st.exc), '', not self._u, self._r))]
            if isinstance(st, ast.Expr):
                self.evals(st.value, env)
                return [(U(env), None)]
            if isinstance(st, ast.Assign):
                out = []
                if isinstance(st.value, (ast.BoolOp, ast.Compare)) or (isinstance(st.value, ast.UnaryOp) and isinstance(st.value.op, ast.Not)) or \
                        (isinstance(st.value, ast.Call) and self.callee_short(st.value) in ('isinstance', 'isscalar')):
                    # a dispatch decision kept in a local (both_unit = isinstance(..) and isinstance(..)): remember what is known
                    try:
                        c = self.cond(st.value, env)
                    except Raise:
                        c = None
                    if c is not None and len(st.targets) == 1 and isinstance(st.targets[0], ast.Name):
                        e2 = dict(U(env))
                        e2[st.targets[0].id] = V('bool!true' if c else 'bool!false')
                        return [(e2, None)]
                vs = self.evals(st.value, env)
                for (v, n) in vs:
                    e2 = dict(U(env))
                    for t in st.targets:
                        if isinstance(t, ast.Name):
                            e2[t.id] = v
                        elif isinstance(t, (ast.Tuple, ast.List)):
                            for x in t.elts:
                                if isinstance(x, ast.Name):
                                    e2[x.id] = VALUE
                    out.append((e2, None))
                return out
            if isinstance(st, (ast.AugAssign, ast.AnnAssign)):
                if isinstance(st.target, ast.Name):
                    env = dict(env)
                    env[st.target.id] = VALUE
                return [(env, None)]
            if isinstance(st, ast.Assert):
                c = self.cond(st.test, env)
                if c is None:
                    self._u = True
                out = []
                if c is not True:
                    out.append((env, Outcome('raise', 'AssertionError', 'assert (disabled under python -O)', not self._u, self._r)))
                if c is not False:
                    out.append((U(env), None))
                return out
            if isinstance(st, ast.If):
                c = self.cond(st.test, env)
                if c is None:
                    self._u = True
                out = []
                if c is not False:
                    out += self.block(st.body, dict(U(env)))
                if c is not True:
                    out += self.block(st.orelse, dict(U(env)))
                return out
            if isinstance(st, (ast.For, ast.While)):
                self._u = True
                env = U(env)
                e2 = dict(env)
                if isinstance(st, ast.For):
                    for x in ast.walk(st.target):
                        if isinstance(x, ast.Name):
                            e2[x.id] = VALUE
                out = [(env, None)]
                for (e3, oc) in self.block(st.body, e2):
                    out.append((e3, oc))
                return out
            if isinstance(st, ast.Try):
                out = self.block(st.body, dict(env))
                for h in st.handlers:
                    out += self.block(h.body, dict(env))
                return out
            if isinstance(st, (ast.Pass, ast.Import, ast.ImportFrom, ast.FunctionDef, ast.Global, ast.Delete)):
                if isinstance(st, ast.ImportFrom):
                    env = dict(env)
                    for a in st.names:
                        c = self.I.cls(a.name)
                        env[a.asname or a.name] = V('cls', a.name) if c is not None else VALUE
                return [(env, None)]
            return [(env, None)]
        except Raise as r:
            return [(env, Outcome('raise', r.what, '', not self._u, self._r))]

    # ------------------------------------------------------------------ conditions (three-valued)
    def cond(self, e, env):
        if isinstance(e, ast.BoolOp):
            # sequential evaluation with short-circuit; after an unknown operand later operands may or may not run
            stop = False if isinstance(e.op, ast.And) else True
            unknown = False
            for v in e.values:
                try:
                    c = self.cond(v, env)
                except Raise:
                    if unknown:
                        return None
                    raise
                if c is stop:
                    return None if unknown else stop
                if c is None:
                    unknown = True
            return None if unknown else (not stop)
        if isinstance(e, ast.UnaryOp) and isinstance(e.op, ast.Not):
            v = self.cond(e.operand, env)
            return None if v is None else (not v)
        if isinstance(e, ast.Constant):
            return bool(e.value)
        if isinstance(e, ast.Compare) and len(e.ops) == 1:
            op = e.ops[0]
            l, r = e.left, e.comparators[0]
            if isinstance(op, (ast.Is, ast.IsNot)):
                lv, rv = self.eval1(l, env), self.eval1(r, env)
                if rv.kind == 'none' or lv.kind == 'none':
                    other = lv if rv.kind == 'none' else rv
                    if other.kind == 'none':
                        res = True
                    elif other.kind in ('top',):
                        return None
                    else:
                        res = False
                    return res if isinstance(op, ast.Is) else (not res)
                if lv.kind == 'cls' and rv.kind == 'cls' and lv.cls and rv.cls:
                    res = lv.cls == rv.cls
                    return res if isinstance(op, ast.Is) else (not res)
                return None
            if isinstance(op, (ast.Eq, ast.NotEq)):
                lv, rv = self.eval1(l, env), self.eval1(r, env)
                if lv.kind == 'cls' and rv.kind == 'cls' and lv.cls and rv.cls:
                    res = lv.cls == rv.cls
                    return res if isinstance(op, ast.Eq) else (not res)
                if lv.kind == 'clsname' and isinstance(r, ast.Constant):
                    res = lv.cls == r.value
                    return res if isinstance(op, ast.Eq) else (not res)
                return None
            if isinstance(op, (ast.In, ast.NotIn)):
                lv = self.eval1(l, env)
                if lv.kind == 'clsname' and isinstance(r, (ast.Tuple, ast.List)) and \
                        all(isinstance(x, ast.Constant) for x in r.elts):
                    res = lv.cls in [x.value for x in r.elts]
                    return res if isinstance(op, ast.In) else (not res)
                if lv.kind == 'cls' and isinstance(r, (ast.Tuple, ast.List)):
                    names = []
                    for x in r.elts:
                        xv = self.eval1(x, env)
                        if xv.kind != 'cls' or not xv.cls:
                            return None
                        names.append(xv.cls)
                    res = lv.cls in names
                    return res if isinstance(op, ast.In) else (not res)
                return None
            return None
        if isinstance(e, ast.Call):
            nm = self.callee_short(e)
            if nm == 'isinstance' and len(e.args) == 2:
                v = self.eval1(e.args[0], env)
                return self.isinstance_(v, e.args[1], env)
            if nm == 'isscalar' and len(e.args) == 1:
                v = self.eval1(e.args[0], env)
                if v.kind in ('int', 'float'):
                    return True
                if v.kind in ('obj', 'list', 'tuple', 'ndarray', 'none', 'str', 'data', 'cls', 'bool'):
                    return False if v.kind != 'bool' else True
                return None
            if nm in ('isvector', 'ismatrix', 'isnumberlist', 'isvectorlist') and e.args:
                v = self.eval1(e.args[0], env)
                if v.kind in ('obj', 'none', 'str', 'cls'):
                    return False
                if nm == 'ismatrix' and v.kind in ('int', 'float', 'list', 'tuple'):
                    return False
                if nm in ('isnumberlist', 'isvectorlist') and v.kind in ('int', 'float', 'ndarray'):
                    return False
                if nm == 'isvector' and v.kind in ('int', 'float'):
                    dim = e.args[1] if len(e.args) > 1 else next((k.value for k in e.keywords if k.arg == 'dim'), None)
                    if dim is None or (isinstance(dim, ast.Constant) and dim.value in (None, 1)):
                        return True
                    if isinstance(dim, ast.Constant):
                        return False
                return None
            if nm == 'callable':
                return None
            # method returning bool on an object, e.g. l1.isparallel(l2): unknown
            return None
        if isinstance(e, ast.Attribute):
            v = self.eval1(e, env)
            if v.kind == 'bool!true':
                return True
            if v.kind == 'bool!false':
                return False
            return None
        if isinstance(e, ast.Name):
            v = self.eval1(e, env)
            if v.kind == 'bool!true':
                return True
            if v.kind == 'bool!false':
                return False
            if v.kind == 'none':
                return False
            if v.kind in ('obj',):
                return None   # truthiness of a UserList depends on its length
            return None
        return None

    def isinstance_(self, v, cexpr, env):
        kinds = self.class_set(cexpr, env)
        if kinds is None:
            return None
        if v.kind == 'obj':
            res = False
            for k in kinds:
                if k[0] == 'lib':
                    s = self.I.issub(v.cls, k[1])
                    if s is None:
                        return None
                    res = res or s
                elif k[0] == 'userlist':
                    res = res or self.I.is_userlist(v.cls)
                elif k[0] == 'unknown':
                    return None
            return res
        prim = {'int': {'int', 'integer', 'number'}, 'float': {'float', 'floating', 'number'}, 'list': {'list'},
                'tuple': {'tuple'}, 'ndarray': {'ndarray'}, 'str': {'str'}, 'bool': {'bool', 'int'}, 'none': set(),
                'data': {'list'}, 'cls': {'type'}}
        if v.kind == 'adata':
            return None
        if v.kind in prim:
            res = False
            for k in kinds:
                if k[0] == 'prim' and k[1] in prim[v.kind]:
                    res = True
                elif k[0] == 'unknown':
                    return None
            return res
        return None

    def class_set(self, cexpr, env):
        """Classes named by the second argument of isinstance -> list of ('lib',name)|('prim',name)|('userlist',)|('unknown',)"""
        if isinstance(cexpr, (ast.Tuple, ast.List)):
            out = []
            for x in cexpr.elts:
                s = self.class_set(x, env)
                if s is None:
                    return None
                out += s
            return out
        v = self.eval1(cexpr, env)
        if v.kind == 'cls' and v.cls:
            if v.cls in ('int', 'float', 'list', 'tuple', 'ndarray', 'str', 'bool', 'integer', 'floating', 'int64',
                         'float64'):
                m = {'int64': 'int', 'float64': 'float'}.get(v.cls, v.cls)
                return [('prim', m)]
            if v.cls == 'UserList':
                return [('userlist',)]
            if self.I.cls(v.cls) is not None:
                return [('lib', v.cls)]
            return [('unknown',)]
        if v.kind == 'clsset':
            return list(v.data)
        return [('unknown',)]

    # ------------------------------------------------------------------ expressions
    def callee_short(self, call):
        t = self.fi.resolve(call.func)
        if t.kind in ('func', 'method') and isinstance(t.obj, Function):
            return t.obj.name
        if t.kind == 'builtin':
            return t.obj
        if t.kind == 'external':
            return str(t.obj).split('.')[-1]
        if isinstance(call.func, ast.Attribute):
            return call.func.attr
        if isinstance(call.func, ast.Name):
            return call.func.id
        return '?'

    def eval1(self, e, env):
        vs = self.evals(e, env)
        if len(vs) == 1:
            return vs[0][0]
        ks = {v.key() for (v, n) in vs}
        if len(ks) == 1:
            return vs[0][0]
        return TOP

    def evals(self, e, env):
        """-> list of (V, note). May raise Raise when every evaluation definitely raises."""
        I = self.I
        if isinstance(e, ast.Constant):
            return [(I.const(e), '')]
        if isinstance(e, ast.Name):
            if e.id in env:
                return [(env[e.id], '')]
            if e.id == 'NotImplemented':
                return [(NOTIMPL, '')]
            k, t = self.fi.classify(e)
            if k == 'global' and t is not None:
                if t.kind == 'class' and t.obj is not None:
                    return [(V('cls', t.obj.name), '')]
                if t.kind == 'external':
                    nm = str(t.obj).split('.')[-1]
                    return [(V('cls', nm), '')]
                if t.kind == 'var' and e.id == '_numtypes':
                    return [(V('clsset', data=[('prim', 'int'), ('prim', 'float')]), '')]
                return [(VALUE, '')]
            if k == 'builtin':
                if e.id in ('int', 'float', 'list', 'tuple', 'str', 'bool', 'type'):
                    return [(V('cls', e.id), '')]
                return [(VALUE, '')]
            if k == 'unresolved':
                if self.f.module.short == 'stdlib/collections':
                    return [(V('cls', 'UserList') if e.id == 'UserList' else VALUE, '')]
                raise Raise('NameError(%s)' % e.id)
            return [(TOP, '')]
        if isinstance(e, ast.Attribute):
            return self.attr(e, env)
        if isinstance(e, ast.Call):
            return self.call(e, env)
        if isinstance(e, ast.BinOp):
            ls = self.evals(e.left, env)
            rs = self.evals(e.right, env)
            out = []
            for (lv, ln) in ls:
                for (rv, rn) in rs:
                    out += self.binop(e.op, lv, rv)
            return dedup_v(out)
        if isinstance(e, ast.UnaryOp):
            if isinstance(e.op, ast.Not):
                return [(V('bool'), '')]
            vs = self.evals(e.operand, env)
            out = []
            for (v, n) in vs:
                if v.kind == 'none':
                    raise Raise('TypeError(unary operator on None)')
                out.append((VALUE if v.kind != 'notimpl' else v, n))
            return out
        if isinstance(e, (ast.ListComp, ast.GeneratorExp, ast.SetComp)):
            # element expression may mention receiver data: track provenance for constructor calls
            e2 = dict(env)
            prov = set()
            for g in e.generators:
                itv = self.eval1(g.iter, e2)
                for x in ast.walk(g.target):
                    if isinstance(x, ast.Name):
                        e2[x.id] = V('obj', itv.cls) if itv.kind == 'obj' else VALUE
                if itv.kind == 'obj':
                    prov.add(itv.cls)
                elif itv.kind in ('data', 'list') and itv.data:
                    prov |= set(itv.data)
            try:
                self.evals(e.elt, e2)
            except Raise:
                # raises as soon as the (possibly empty) iteration yields an element
                self._r = True
            return [(V('list', data=frozenset()), '')]
        if isinstance(e, (ast.List, ast.Tuple)):
            for x in e.elts:
                self.evals(x, env)
            return [(V('list' if isinstance(e, ast.List) else 'tuple'), '')]
        if isinstance(e, ast.Lambda):
            return [(V('func'), '')]
        if isinstance(e, ast.Compare):
            for x in [e.left] + e.comparators:
                self.evals(x, env)
            return [(V('bool'), '')]
        if isinstance(e, ast.BoolOp):
            return [(VALUE, '')]
        if isinstance(e, ast.IfExp):
            c = self.cond(e.test, env)
            out = []
            if c is not False:
                out += self.evals(e.body, env)
            if c is not True:
                out += self.evals(e.orelse, env)
            return dedup_v(out)
        if isinstance(e, ast.Subscript):
            vs = self.evals(e.value, env)
            out = []
            for (v, n) in vs:
                if v.kind == 'none':
                    raise Raise('TypeError(None is not subscriptable)')
                out.append((VALUE, n))
            return dedup_v(out)
        if isinstance(e, ast.JoinedStr):
            return [(V('str'), '')]
        return [(VALUE, '')]

    def attr(self, e, env):
        I = self.I
        # super().x handled in call()
        t = self.fi.resolve(e)
        if t.kind == 'external':
            return [(V('cls', str(t.obj).split('.')[-1]), '')]
        if t.kind == 'class' and isinstance(t.obj, Class):
            return [(V('cls', t.obj.name), '')]
        bvs = self.evals(e.value, env)
        out = []
        for (b, n) in bvs:
            if e.attr == '__class__' and b.kind != 'obj':
                out.append((V('cls', b.kind if b.kind in ('int', 'float', 'list', 'tuple', 'ndarray', 'str', 'bool') else
                              ('list' if b.kind == 'data' else None)), n))
                continue
            if b.kind == 'obj':
                if e.attr == '__class__':
                    out.append((V('cls', b.cls), n))
                    continue
                if e.attr == 'data':
                    out.append((V('data', data=[b.cls]), n))
                    continue
                c = I.cls(b.cls)
                k, mem = I.prog.lookup_member(c, e.attr)
                if isinstance(mem, Function) and mem.kind == 'property':
                    if e.attr in ('A', '_A', 'S'):
                        # the value array (or, for a multi-valued object, the list of arrays)
                        out.append((V('adata', data=[b.cls]), n))
                        continue
                    if e.attr in ('isSO', 'isSE', 'N') and self.depth < 4:
                        res = I.call_function(mem, b, [], {}, self.depth + 1)
                        # evaluate to definite booleans when possible
                        out.append((VALUE, n))
                        continue
                    out.append((VALUE, n))
                    continue
                if mem is not None:
                    out.append((V('boundmethod', b.cls, data=[e.attr]), n))
                    continue
                from .r1_resolve import attr_resolves
                if attr_resolves(I.prog, c, e.attr):
                    out.append((VALUE, n))
                    continue
                raise Raise('AttributeError(%s has no attribute %s)' % (b.cls, e.attr))
            elif b.kind == 'cls':
                if e.attr == '__name__':
                    out.append((V('clsname', b.cls), n))
                else:
                    out.append((V('clsattr', b.cls, data=[e.attr]), n))
            elif b.kind == 'none':
                raise Raise('AttributeError(None has no attribute %s)' % e.attr)
            elif b.kind in ('int', 'float') and e.attr not in ('real', 'imag'):
                raise Raise('AttributeError(%s has no attribute %s)' % (b.kind, e.attr))
            elif b.kind == 'adata':
                out.append((VALUE, n))
            elif b.kind in ('list', 'tuple', 'data') and e.attr not in ('append', 'extend', 'index', 'count', 'copy',
                                                                        'pop', 'insert', 'sort', 'reverse', 'clear', 'remove'):
                raise Raise('AttributeError(%s has no attribute %s)' % (b.kind, e.attr))
            else:
                out.append((VALUE, n))
        return dedup_v(out)

    def binop(self, op, lv, rv):
        """Arithmetic between abstract values inside a method body."""
        if lv.kind == 'none' or rv.kind == 'none':
            raise Raise('TypeError(arithmetic with None)')
        ll = lv.kind in ('list', 'data', 'tuple')
        rl = rv.kind in ('list', 'data', 'tuple')
        symop = {ast.Mult: '*', ast.Div: '/', ast.Add: '+', ast.Sub: '-', ast.Pow: '**', ast.MatMult: '@'}.get(type(op))
        if (ll and rv.kind == 'obj' or rl and lv.kind == 'obj') and symop and self.depth < 3:
            # list (op) library object: Python's protocol decides (list method -> NotImplemented -> reflected)
            a = PRIMV['List'] if ll else lv
            b = PRIMV['List'] if rl else rv
            ocs = dispatch(self.I, symop, a, b, self.depth + 1)
            out = []
            for oc in ocs:
                if oc.kind == 'ret':
                    out.append((oc.val if oc.val.kind != 'notimpl' else VALUE, oc.note))
                if oc.kind == 'raise' or oc.mayraise:
                    self._r = True
            if not out:
                raise Raise('TypeError(list %s object)' % symop)
            return out
        if (ll and rv.kind in ('ndarray', 'adata', 'value', 'top')) or (rl and lv.kind in ('ndarray', 'adata', 'value', 'top')):
            self._r = True
            return [(VALUE, '')]
        if ll or rl:
            if isinstance(op, ast.Add):
                if ll and rl:
                    return [(V('data' if (lv.data or rv.data) else lv.kind, data=lv.data | rv.data), '')]
                other = rv if ll else lv
                if other.kind in ('int', 'float', 'str', 'bool'):
                    raise Raise('TypeError(list + %s)' % other.kind)
                if other.kind == 'obj':
                    # list + UserList object -> UserList.__radd__ ; object + list -> its __add__
                    return [(VALUE, 'list + object')]
                return [(VALUE, '')]
            if isinstance(op, ast.Mult):
                other = rv if ll else lv
                me = lv if ll else rv
                if other.kind == 'int' or other.kind == 'bool':
                    return [(V(me.kind, data=me.data), 'list repetition')]
                if other.kind in ('float', 'str', 'list', 'tuple', 'data'):
                    raise Raise('TypeError(list * %s)' % other.kind)
                if other.kind == 'obj':
                    return [(VALUE, 'list * object (reflected method of the object)')]
                return [(VALUE, '')]
            other = rv if ll else lv
            if other.kind in ('int', 'float', 'list', 'tuple', 'data', 'str'):
                raise Raise('TypeError(unsupported operand for list)')
            return [(VALUE, '')]
        def prim(v):
            return PRIMV['NDArray'] if v.kind in ('adata', 'ndarray') else v
        if (lv.kind == 'obj' and rv.kind in ('obj', 'int', 'float', 'adata', 'ndarray')) or \
                (rv.kind == 'obj' and lv.kind in ('int', 'float')):
            sym = {ast.Mult: '*', ast.Div: '/', ast.Add: '+', ast.Sub: '-', ast.Pow: '**', ast.MatMult: '@'}.get(type(op))
            if sym and self.depth < 3:
                ocs = dispatch(self.I, sym, prim(lv), prim(rv), self.depth + 1)
                out = []
                allraise = True
                for oc in ocs:
                    if oc.kind == 'ret':
                        allraise = False
                        out.append((oc.val if oc.val.kind != 'notimpl' else VALUE, oc.note))
                    if oc.kind == 'raise' or oc.mayraise:
                        self._r = True
                if len({(oc.val.key(), oc.note) for oc in ocs if oc.kind == 'ret'}) > 1:
                    self._u = True
                if allraise:
                    raise Raise('nested %s raises' % sym)
                return out
        if lv.kind in ('value', 'top', 'obj', 'adata', 'ndarray') or rv.kind in ('value', 'top', 'obj', 'adata', 'ndarray'):
            self._r = True
        return [(VALUE, '')]

    def call(self, c, env):
        I = self.I
        fn = c.func
        args = []
        for a in c.args:
            if isinstance(a, ast.Starred):
                args.append(TOP)
            else:
                args.append(self.eval1(a, env))
        kwargs = {k.arg: self.eval1(k.value, env) for k in c.keywords if k.arg}
        # super().m(...)
        if isinstance(fn, ast.Attribute) and isinstance(fn.value, ast.Call) and isinstance(fn.value.func, ast.Name) \
                and fn.value.func.id == 'super':
            recvname = self.f.params[0] if self.f.params else None
            recv = env.get(recvname, TOP)
            if recv.kind == 'obj' and self.owner is not None:
                ocs = I.call_method(recv.cls, fn.attr, recv, args, kwargs, self.depth + 1, start_after=self.owner)
                return self.outs_to_vals(ocs)
            return [(VALUE, '')]
        if (isinstance(fn, ast.Attribute) and fn.attr == '__class__') or \
                (isinstance(fn, ast.Call) and isinstance(fn.func, ast.Name) and fn.func.id == 'type' and len(fn.args) == 1):
            cv = self.eval1(fn, env)
            if cv.kind == 'cls' and cv.cls and I.cls(cv.cls) is not None:
                return self.construct(cv.cls, c, args, kwargs)
            self._r = True
            return [(VALUE, '')]
        if isinstance(fn, ast.Attribute):
            bvs = self.evals(fn.value, env)
            out = []
            for (b, n) in bvs:
                if b.kind == 'obj':
                    if I.prog.lookup_member(I.cls(b.cls), fn.attr)[1] is None:
                        raise Raise('AttributeError(%s has no attribute %s)' % (b.cls, fn.attr))
                    ocs = I.call_method(b.cls, fn.attr, b, args, kwargs, self.depth + 1)
                    out += self.outs_to_vals(ocs)
                elif b.kind == 'cls' and b.cls and I.cls(b.cls) is not None:
                    # Class.method(...) : classmethod / staticmethod / unbound
                    k, mem = I.prog.lookup_member(I.cls(b.cls), fn.attr)
                    if isinstance(mem, Function):
                        if mem.kind == 'class':
                            ocs = I.call_function(mem, V('obj', b.cls), args, kwargs, self.depth + 1)
                        elif mem.kind == 'static':
                            ocs = I.call_function(mem, None, args, kwargs, self.depth + 1)
                        else:
                            ocs = I.call_function(mem, args[0] if args else TOP, args[1:], kwargs, self.depth + 1)
                        out += self.outs_to_vals(ocs)
                    else:
                        out.append((VALUE, n))
                elif b.kind == 'none':
                    raise Raise('AttributeError(None.%s)' % fn.attr)
                else:
                    self._r = True
                    out.append((VALUE, n))
            return dedup_v(out)
        # plain name call
        t = self.fi.resolve(fn)
        fv = self.eval1(fn, env) if isinstance(fn, ast.Name) and fn.id in env else None
        if fv is not None and fv.kind == 'cls' and fv.cls and I.cls(fv.cls) is not None:
            return self.construct(fv.cls, c, args, kwargs)
        if fv is not None and fv.kind == 'func':
            self._r = True
            return [(VALUE, 'callback result')]
        if t.kind == 'class' and isinstance(t.obj, Class):
            return self.construct(t.obj.name, c, args, kwargs)
        if isinstance(fn, ast.Name) and fn.id == 'type' and len(args) == 1:
            a = args[0]
            if a.kind == 'obj':
                return [(V('cls', a.cls), '')]
            if a.kind in ('int', 'float', 'list', 'tuple', 'ndarray', 'str', 'bool'):
                return [(V('cls', a.kind), '')]
            if a.kind == 'data':
                return [(V('cls', 'list'), '')]
            return [(V('cls', None), '')]
        if isinstance(fn, ast.Name) and fn.id == 'len' and len(args) == 1:
            if args[0].kind in ('int', 'float', 'none', 'bool'):
                raise Raise('TypeError(len of %s)' % args[0].kind)
            return [(V('int'), '')]
        if isinstance(fn, ast.Name) and fn.id == 'list' and len(args) == 1:
            a = args[0]
            if a.kind in ('int', 'float', 'none', 'bool'):
                raise Raise('TypeError(%s is not iterable)' % a.kind)
            if a.kind == 'obj':
                return [(V('data', data=[a.cls]), '')]
            return [(V('list', data=a.data), '')]
        if isinstance(fn, ast.Name) and fn.id == 'isinstance':
            return [(V('bool'), '')]
        if t.kind == 'func' and isinstance(t.obj, Function):
            # base-package function: numeric kernel; not interpreted, except for its TYPE GUARDS: a body-level
            # `if not isinstance(p, T): raise` / `assert isinstance(p, T)` on a parameter rejects an argument whose abstract kind
            # is definitely not T (a library object or a list where an int is required), whatever its value
            for (pname, types, idx) in type_guards(t.obj):
                a = args[idx] if idx < len(args) else kwargs.get(pname)
                if a is None:
                    continue
                kk = {'int': 'int', 'bool': 'int', 'float': 'float', 'list': 'list', 'data': 'list', 'tuple': 'tuple', 'ndarray': 'ndarray',
                      'adata': 'ndarray', 'str': 'str', 'obj': 'obj', 'none': 'none'}.get(a.kind)
                if kk is None:
                    continue
                if kk == 'obj' and any(I.cls(T) is not None and I.issub(a.cls, T) for T in types):
                    continue
                if kk != 'obj' and kk in types:
                    continue
                if kk == 'obj' and any(I.cls(T) is not None for T in types) and not all(I.cls(T) is None for T in types) and \
                        any(I.issub(a.cls, T) is None for T in types):
                    continue
                raise Raise('%s rejects a %s for %r (type guard)' % (t.obj.name, a.cls if kk == 'obj' else kk, pname))
            self._r = True
            return [(VALUE, 'kernel %s' % t.obj.name)]
        if t.kind == 'unresolved':
            raise Raise('NameError(%s)' % (fn.id if isinstance(fn, ast.Name) else '?'))
        return [(VALUE, '')]

    def outs_to_vals(self, ocs):
        if ocs is None:
            return [(VALUE, '')]
        out = []
        raises = []
        for oc in ocs:
            if oc.kind == 'ret':
                out.append((oc.val, oc.note))
            else:
                raises.append(oc)
        if not out and raises:
            raise Raise(raises[0].val)
        rets = [oc for oc in ocs if oc.kind == 'ret']
        if raises or any(oc.mayraise for oc in ocs):
            self._r = True        # the call may raise
        if len({(oc.val.key(), oc.note) for oc in rets}) > 1:
            self._u = True        # which value comes back depends on a runtime condition
        return dedup_v(out)

    def construct(self, cname, call, args, kwargs):
        """Constructor call: the result is Obj(cname); note None / foreign data arguments."""
        I = self.I
        note = ''
        first = args[0] if args else None
        if first is None and not kwargs:
            note = ''
        if first is not None and first.kind == 'none':
            note = 'constructed from None (= default identity value)'
        elif first is not None and first.kind in ('data', 'list', 'adata') and first.data:
            foreign = sorted(d for d in first.data if d != cname and not (I.issub(d, cname) and I.shape_of(d) == I.shape_of(cname)))
            own = cname in first.data
            if foreign:
                same_shape = [d for d in foreign if I.shape_of(d) == I.shape_of(cname) and I.shape_of(d) is not None]
                if same_shape:
                    note = 'holds elements of %s (same element shape: accepted by validation)' % '/'.join(same_shape)
                else:
                    note = 'maybe-foreign: fed elements of %s (different shape: validation decides)' % '/'.join(foreign)
                    self._r = True
            elif own and len(args) >= 1:
                note = 'list operation on the element lists'
        # constructors of the repository may raise for arguments they do not accept; interpret the ctor lightly
        ctor_raises = False
        if first is not None and first.kind in ('int', 'float') and cname in ('SO3', 'SE3', 'Twist3', 'Twist2', 'Plucker'):
            pass
        return [(V('obj', cname), note)]


_tg_cache = {}


def type_guards(g):
    """[(param, {type names}, positional index)] for body-level isinstance guards of g whose failing edge raises; only guards
    that precede any rebinding of the parameter are summarised"""
    if g.key in _tg_cache:
        return _tg_cache[g.key]
    out = []
    rebound = set()
    body = [st for st in g.node.body if not (isinstance(st, ast.Expr) and isinstance(st.value, ast.Constant))]
    for st in body:
        test = None
        if isinstance(st, ast.If) and not st.orelse and st.body and isinstance(st.body[-1], ast.Raise) and \
                isinstance(st.test, ast.UnaryOp) and isinstance(st.test.op, ast.Not):
            test = st.test.operand
        elif isinstance(st, ast.Assert):
            test = st.test
        if test is not None and isinstance(test, ast.Call) and isinstance(test.func, ast.Name) and test.func.id == 'isinstance' and \
                len(test.args) == 2 and isinstance(test.args[0], ast.Name) and test.args[0].id in g.params and test.args[0].id not in rebound:
            tn = test.args[1]
            names = [x.id for x in (tn.elts if isinstance(tn, ast.Tuple) else [tn]) if isinstance(x, ast.Name)]
            if names and len(names) == (len(tn.elts) if isinstance(tn, ast.Tuple) else 1):
                out.append((test.args[0].id, set(names), g.params.index(test.args[0].id)))
        for y in ast.walk(st):
            if isinstance(y, ast.Name) and isinstance(y.ctx, ast.Store):
                rebound.add(y.id)
    _tg_cache[g.key] = out
    return out


def exc_name(e):
    if e is None:
        return 're-raise'
    if isinstance(e, ast.Call):
        e = e.func
    if isinstance(e, ast.Name):
        return e.id
    if isinstance(e, ast.Attribute):
        return e.attr
    return 'Exception'


def dedup(outs):
    seen = {}
    for o in outs:
        seen.setdefault(o.key(), o)
    return list(seen.values())


def dedup_v(vs):
    seen = {}
    for (v, n) in vs:
        seen.setdefault((v.key(), n), (v, n))
    return list(seen.values())


# --------------------------------------------------------------------------------- dispatch
def provides(I, cname, mname):
    c = I.cls(cname)
    k, mem = I.prog.lookup_member(c, mname)
    if mem is None:
        return None
    if getattr(k, 'name', None) in ('object', 'MutableSequence'):
        return None
    return (k, mem)


def dispatch(I, op, lv, rv, depth=0):
    """Python's binary operator protocol on abstract operands -> list of Outcome."""
    fwd, refl = OPS[op]
    tried = []
    results = []

    def run(side):
        if side == 'fwd':
            if lv.kind != 'obj':
                return None
            p = provides(I, lv.cls, fwd)
            if p is None:
                return None
            return I.call_function(p[1], lv, [rv], {}, depth + 1)
        else:
            if rv.kind != 'obj':
                return None
            p = provides(I, rv.cls, refl)
            if p is None:
                return None
            return I.call_function(p[1], rv, [lv], {}, depth + 1)

    order = ['fwd', 'refl']
    if lv.kind == 'obj' and rv.kind == 'obj' and lv.cls != rv.cls and I.issub(rv.cls, lv.cls):
        pr = provides(I, rv.cls, refl)
        pl = provides(I, lv.cls, refl)
        if pr is not None and (pl is None or pr[1] is not pl[1]):
            order = ['refl', 'fwd']
    if op in ('==', '!='):
        if lv.kind == 'obj' and rv.kind == 'obj' and lv.cls != rv.cls and I.issub(rv.cls, lv.cls):
            order = ['refl', 'fwd']
    pending = [('start', None)]
    outs = []
    first = run(order[0])
    # primitives on the left: their own method answers NotImplemented for library objects,
    # except list + / * which are handled by the rules in the table below
    def fallback(ocs_first):
        """paths of the first method that returned NotImplemented continue with the second method"""
        second = run(order[1])
        res = []
        if second is None:
            res.append(Outcome('raise', 'TypeError', 'unsupported operand types (both methods NotImplemented/absent)'))
        else:
            for oc in second:
                if oc.kind == 'ret' and oc.val.kind == 'notimpl':
                    res.append(Outcome('raise', 'TypeError', 'unsupported operand types (both NotImplemented)'))
                else:
                    res.append(oc)
        return res

    if first is None:
        # left operand has no such method (or is a primitive)
        if order[0] == 'fwd' and lv.kind in ('list', 'tuple') and op == '*' and rv.kind == 'obj':
            pass
        outs = fallback(None)
        if op in ('==', '!=') and all(o.kind == 'raise' and o.val == 'TypeError' for o in outs):
            outs = [Outcome('ret', V('bool'), 'identity comparison (default object equality)')]
    else:
        for oc in first:
            if oc.kind == 'ret' and oc.val.kind == 'notimpl':
                fb = fallback(first)
                if op in ('==', '!=') and all(o.kind == 'raise' and o.val == 'TypeError' for o in fb):
                    fb = [Outcome('ret', V('bool'), 'identity comparison')]
                outs += fb
            else:
                outs.append(oc)
    return dedup(outs)


# --------------------------------------------------------------------------------- expected table
POSES = ('SO2', 'SE2', 'SO3', 'SE3')
QS = ('Quaternion', 'UnitQuaternion')
SV = ('SpatialVelocity', 'SpatialAcceleration', 'SpatialForce', 'SpatialMomentum')
DQ = ('DualQuaternion', 'UnitDualQuaternion')
SCAL = ('Int', 'Float')
ARR = ('List', 'Tuple', 'NDArray')


def expected(op, L, R):
    """-> ('obj', C) | ('plain',) [array/scalar/bool/list, not a library object] | ('raise',) | ('unspec',)
    with a source note. Transcribed from the class docstring tables (d) and the statement of C08 (p)."""
    if L in ARR:
        if L == 'NDArray':
            return ('unspec', 'ndarray on the left: numpy coercion decides (outside this repository)')
        if op in ARITH and R in LIB:
            return ('raise', 'p: list/tuple on the left of an arithmetic operator is not a documented pairing')
        return ('unspec', 'list/tuple on the left')
    if op in ('==', '!='):
        if L == R and L in POSES + QS + ('Twist2', 'Twist3', 'Plucker'):
            return ('plain', 'p: == / != within one class return booleans')
        return ('unspec', '== / != across classes, spatial vectors and dual quaternions are not specified')
    if op in ('^', '|'):
        if L == 'Plucker' and R == 'Plucker':
            return ('plain', 'd: Plucker ^ | Plucker -> bool')
        return ('unspec', '^ and | are only documented for Plucker pairs')
    # arithmetic
    if L in POSES:
        if R == L:
            if op in ('*', '/'):
                return ('obj', L, 'd,p: composition stays in the class')
            if op in ('+', '-'):
                return ('plain', 'd,p: + - give plain arrays')
        if R in SCAL and op in ('*', '/', '+', '-'):
            return ('plain', 'd: pose op scalar -> array')
        if R in ARR and op == '*':
            return ('plainorraise', 'd: pose * vector/array -> array, or raise on non-conforming shape')
        if R == 'NDArray' and op in ('+', '-'):
            return ('plainorraise', 'd (SMPose._op2): pose +- array of the shape of the pose -> array, or raise on any other shape')
        if op == '**' and R == 'Int':
            return ('obj', L, 'd: pose ** int')
        if L == 'SE3' and op == '*' and R == 'Plucker':
            return ('obj', 'Plucker', 'p: SE3 * Plucker -> Plucker')
        if L == 'SE3' and op == '*' and R in SV:
            return ('obj', R, 'p: SE3 * spatial vector -> that class')
        return ('raise', 'p: every other pairing raises')
    if L in SCAL:
        if R in POSES and op in ('*', '+', '-'):
            return ('plain', 'd: scalar op pose -> array')
        if R in QS and op == '*':
            return ('obj', 'Quaternion', 'd: scalar * quaternion -> Quaternion')
        if R in ('Twist2', 'Twist3') and op == '*':
            return ('obj', R, 'd,p: scalar * twist -> twist')
        if R in QS and op in ('+', '-'):
            return ('unspec', 'scalar +- quaternion: only quaternion +- scalar is tabulated')
        return ('raise', 'p: every other pairing raises')
    if L in ('Twist3', 'Twist2'):
        se = 'SE3' if L == 'Twist3' else 'SE2'
        if op == '*':
            if R == L:
                return ('obj', L, 'd,p: twist * twist -> twist')
            if R == se:
                return ('obj', se, 'd,p: Twist * SE -> SE')
            if R in SCAL:
                return ('obj', L, 'd,p: twist * scalar -> twist')
            if L == 'Twist3' and R in SV:
                return ('unspec', 'Twist3 * spatial vector is mentioned only in a reflected-method docstring')
        return ('raise', 'p: every other pairing raises')
    if L in QS:
        if op == '*':
            if R in QS:
                return ('obj', 'UnitQuaternion' if (L == R == 'UnitQuaternion') else 'Quaternion', 'd,p')
            if R in SCAL:
                return ('obj', 'Quaternion', 'd: quaternion * scalar -> Quaternion')
            if L == 'UnitQuaternion' and R in ARR:
                return ('plainorraise', 'd: unit quaternion * vector -> array')
        if op == '/' and L == 'UnitQuaternion':
            if R == 'UnitQuaternion':
                return ('obj', 'UnitQuaternion', 'd')
            if R in SCAL:
                return ('obj', 'Quaternion', 'd')
        if op == '**' and R == 'Int':
            return ('obj', L, 'd: quaternion ** int')
        if op in ('+', '-') and (R in QS or R in SCAL):
            return ('obj', 'Quaternion', 'd,p: quaternion +- quaternion/scalar -> Quaternion')
        return ('raise', 'p: every other pairing raises')
    if L == 'Plucker':
        if op == '*' and R == 'Plucker':
            return ('plain', 'd: Plucker * Plucker -> scalar')
        return ('raise', 'p')
    if L in SV:
        if op in ('+', '-') and R == L:
            return ('obj', L, 'p: same-class spatial vectors add/subtract')
        if op == '@' and L == 'SpatialVelocity' and R == 'SpatialVelocity':
            return ('obj', 'SpatialAcceleration', 'd')
        if op == '@' and L == 'SpatialVelocity' and R in ('SpatialForce', 'SpatialMomentum'):
            return ('obj', 'SpatialForce', 'd')
        if op == '*' and R == 'SpatialInertia' and L in ('SpatialAcceleration', 'SpatialVelocity'):
            return ('unspec', 'reflected inertia product is mentioned only in a reflected-method docstring')
        return ('raise', 'p: every other pairing raises')
    if L == 'SpatialInertia':
        if op == '+' and R == 'SpatialInertia':
            return ('obj', 'SpatialInertia', 'd,p: inertias add')
        if op == '*' and R == 'SpatialAcceleration':
            return ('obj', 'SpatialForce', 'd,p')
        if op == '*' and R == 'SpatialVelocity':
            return ('obj', 'SpatialMomentum', 'd,p')
        return ('raise', 'p')
    if L in DQ:
        if op in ('+', '-') and R in DQ:
            return ('obj', 'DualQuaternion', 'd')
        if op == '*' and R in DQ:
            return ('obj', 'UnitDualQuaternion' if (L == R == 'UnitDualQuaternion') else 'DualQuaternion', 'd')
        if op == '*' and L == 'UnitDualQuaternion' and R in ARR:
            return ('plainorraise', 'd: unit dual quaternion * 3-vector -> array')
        return ('raise', 'p')
    return ('unspec', '')


def describe(o):
    v = o.val
    if v.kind == 'none':
        return 'None (%s)' % (o.note or 'implicit')
    if v.kind == 'obj':
        if 'constructed from None' in o.note:
            return 'a default-constructed %s built from a None result (an identity instead of an error)' % v.cls
        if o.note.startswith('holds elements'):
            return 'a %s that %s' % (v.cls, o.note)
        if o.note.startswith('list operation'):
            return 'a %s produced by a list operation on the element lists (UserList concatenation/repetition)' % v.cls
        return 'an object of class %s' % v.cls
    return 'a plain value'


def is_bad_value(o):
    """Values that are never a correct result of a documented operator."""
    v = o.val
    if o.kind != 'ret':
        return False
    if v.kind == 'none':
        return True
    if v.kind == 'obj' and ('constructed from None' in o.note or o.note.startswith('holds elements')
                            or o.note.startswith('list operation')):
        return True
    return False


def verdict(op, L, R, exp, ocs):
    """-> (status, message).  Only *definite* outcomes make a violation (all decisions on the path statically
    known, no call that may raise on a runtime condition passed)."""
    rets = [o for o in ocs if o.kind == 'ret' and o.val.kind != 'notimpl']
    raises = [o for o in ocs if o.kind == 'raise']
    if rets and len({(o.val.key(), o.note) for o in rets}) == 1:
        # every returning path returns the same abstract value: which branch was taken does not matter for WHAT is
        # returned; it is definite that a value is returned only if, in addition, nothing on the way can raise
        mr = bool(raises) or any(o.mayraise for o in rets)
        rets = [Outcome('ret', rets[0].val, rets[0].note, True, mr)]
    kind = exp[0]
    if kind == 'unspec':
        return 'info', 'unspecified pairing: ' + exp[-1]
    def_rets = [o for o in rets if o.definite]
    if kind == 'raise':
        if def_rets:
            return 'violation', 'must raise, but returns ' + '; '.join(sorted({describe(o) for o in def_rets}))
        if rets:
            mf = [o for o in rets if o.val.kind == 'obj' and o.note.startswith('maybe-foreign')]
            why = 'a value is returned on a path that depends on runtime shape/length tests or numeric kernels'
            if mf:
                why = 'constructor validation of foreign-shaped elements decides'
            return 'undecided', 'must raise; dispatch alone does not reject it: ' + why
        if raises:
            asserts = all('assert' in (o.note or '') for o in raises)
            return 'holds', 'all paths raise (%s)%s' % (', '.join(sorted({str(o.val) for o in raises})),
                                                       '; by assert only: disabled under python -O' if asserts else '')
        return 'undecided', 'no outcome computed'
    bad = [o for o in def_rets if is_bad_value(o)]
    if bad:
        return 'violation', 'documented result expected, but returns ' + '; '.join(sorted({describe(o) for o in bad}))
    if not rets and raises:
        if kind == 'plainorraise':
            return 'undecided', 'every path raises at dispatch level'
        return 'violation', 'documented pairing always raises (%s)' % ', '.join(sorted({str(o.val) for o in raises}))
    good_rets = [o for o in rets if not is_bad_value(o)]
    if kind == 'obj':
        want = exp[1]
        # a wrong result class does not become right because an earlier kernel call might raise: branch-definite suffices
        wrong = sorted({describe(o) for o in rets if o.bdef and not is_bad_value(o) and not (o.val.kind == 'obj' and o.val.cls == want)
                        and o.val.kind not in ('top', 'value')})
        if wrong:
            return 'violation', 'documented result class %s, but returns %s' % (want, '; '.join(wrong))
        if any(o.val.kind == 'obj' and o.val.cls == want for o in good_rets):
            maybe_wrong = sorted({describe(o) for o in good_rets if not (o.val.kind == 'obj' and o.val.cls == want)})
            if maybe_wrong:
                return 'undecided', 'returns %s, but on runtime-dependent paths also %s' % (want, '; '.join(maybe_wrong))
            return 'holds', 'returns %s%s' % (want, ' (or raises on a numeric/length condition)' if raises else '')
        if good_rets:
            return 'undecided', 'result class not established: ' + '; '.join(sorted({describe(o) for o in good_rets}))
        return 'undecided', 'only runtime-dependent None/invalid results found'
    # plain / plainorraise
    objs = sorted({describe(o) for o in def_rets if o.val.kind == 'obj' and not is_bad_value(o)})
    if objs:
        return 'violation', 'documented plain array/scalar result, but returns ' + '; '.join(objs)
    if any(o.val.kind not in ('obj', 'none', 'top') for o in good_rets):
        return 'holds', 'returns a plain value%s' % (' (or raises on a numeric/length condition)' if raises else '')
    return 'undecided', 'result kind unknown'


def load_baseline():
    """Frozen table of the must-raise cells confirmed by hand on the repaired tree (design/r6_baseline.json):
    'holds' = rejected by type dispatch alone, 'undecided' = a numeric kernel decides. Written only by
    tools/r6_baseline.py, never at run time."""
    import json
    import os
    from ..report import VERIF
    p = os.path.join(VERIF, 'design', 'r6_baseline.json')
    if not os.path.exists(p):
        return {}
    with open(p) as fh:
        return json.load(fh).get('cells', {})


def culprit(ocs, method):
    """The function whose code produces the offending outcome (for grouping): named in the note if inlined."""
    for o in ocs:
        if o.kind == 'ret' and o.val.kind == 'none' and 'falls off the end of ' in (o.note or ''):
            return o.note.split('falls off the end of ')[1]
    return method


def run_r6(run, rule='R6'):
    prog = run.prog
    I = Interp(prog)
    for n in LIB:
        if prog.classes.get(n) is None:
            raise AnalysisError('R6: public class %s not found' % n)
    kinds = LIB + PRIM
    baseline = load_baseline()
    cells = 0
    excluded = 0
    table = {}
    groups = {}
    for op in OPS:
        for L in kinds:
            for R in kinds:
                if L in PRIM and R in PRIM:
                    continue
                cells += 1
                exp = expected(op, L, R)
                lv = V('obj', L) if L in LIB else PRIMV[L]
                rv = V('obj', R) if R in LIB else PRIMV[R]
                if exp[0] == 'unspec':
                    excluded += 1
                    continue
                try:
                    ocs = dispatch(I, op, lv, rv)
                except Budget:
                    run.error('R6: interpretation budget exceeded at %s %s %s' % (L, op, R))
                    continue
                st, msg = verdict(op, L, R, exp, ocs)
                construct = '%s %s %s' % (L, op, R)
                if st == 'undecided' and exp[0] == 'raise' and baseline.get(construct) == 'holds':
                    # confirmed-table regression: this pairing used to be rejected by type dispatch alone
                    rets = sorted({describe(o) for o in ocs if o.kind == 'ret' and o.val.kind != 'notimpl'})
                    st = 'violation'
                    msg = ('must raise, and was rejected by type dispatch in the confirmed table, but the operand now '
                           'passes dispatch and reaches code that returns %s when its runtime shape/length tests '
                           'succeed' % '; '.join(rets))
                if st == 'undecided' and exp[0] in ('obj', 'plain') and baseline.get(construct) == 'holds':
                    # confirmed-table regression of a documented cell: every path used to return the documented class
                    st = 'violation'
                    msg = ('documented result %s, and every path returned it in the confirmed table, but now: %s (a path selected by '
                           'runtime length / shape tests returns something else: single- and multi-valued operands are all in the quantifier)'
                           % (exp[1] if exp[0] == 'obj' else 'plain value', msg))
                method = resolved_method(I, op, lv, rv)
                subj = 'operator-table'
                detail = {'expected': exp[:-1], 'source': exp[-1], 'outcomes': [repr(o) for o in ocs], 'method': method}
                f = prog.functions.get(method) if method else None
                if st == 'holds':
                    run.holds(rule, subj, construct, msg, f=f, detail=detail)
                elif st == 'violation':
                    # group cells that fail for the same reason in the same code
                    who = culprit(ocs, method)
                    g = groups.setdefault((who, op, msg), {'cells': [], 'exp': exp, 'f': prog.functions.get(who) or f,
                                                           'detail': detail})
                    g['cells'].append(construct)
                elif st == 'undecided':
                    run.undecided(rule, subj, construct, msg, f=f, detail=detail)
                table[construct] = st
    for (who, op, msg), g in sorted(groups.items(), key=lambda kv: str(kv[0])):
        cells_s = ', '.join(g['cells'][:6]) + (' ... (%d cells)' % len(g['cells']) if len(g['cells']) > 6 else '')
        run.violation(rule, who or 'operator-table', 'operator %s: %s' % (op, msg),
                      '%s for %s [table source: %s]' % (msg, cells_s, g['exp'][-1]), f=g['f'],
                      detail={'cells': g['cells'], **g['detail']})
    run.extra['r6_table'] = table
    run.extra['r6'] = {'cells': cells, 'unspecified_excluded': excluded,
                       'decided_holds': sum(1 for v in table.values() if v == 'holds'),
                       'cell_violations': sum(1 for v in table.values() if v == 'violation'),
                       'violation_groups': len(groups),
                       'undecided': sum(1 for v in table.values() if v == 'undecided'), 'interp_steps': I.steps}
    # who-defines rule: classes holding ndarrays must not inherit UserList.__eq__
    for cn in LIB:
        if I.is_userlist(cn):
            k, mem = prog.lookup_member(prog.cls(cn), '__eq__')
            if k is prog.UserList:
                run.info(rule, cn, 'inherits UserList.__eq__', 'list equality on ndarray elements (unspecified cell)')
    return table


def resolved_method(I, op, lv, rv):
    fwd, refl = OPS[op]
    if lv.kind == 'obj':
        p = provides(I, lv.cls, fwd)
        if p is not None and isinstance(p[1], Function):
            return p[1].key
    if rv.kind == 'obj':
        p = provides(I, rv.cls, refl)
        if p is not None and isinstance(p[1], Function):
            return p[1].key
    return None


def check_array_branch_dimension(run, rule='R6d'):
    """The reflected operators of the quaternion / twist / spatial-vector classes forward `left * <coefficient array>` to the left
    operand without a type test of their own, so a pose on the left is rejected only because SMPose.__mul__ accepts an array
    operand of exactly the pose's dimension.  Every value-returning path of the array branch of SMPose.__mul__ must therefore
    have established isvector(right, left.N) or right.shape[0] == left.N (a 4-element coefficient array of a quaternion, or a
    6-element twist, never has the dimension 2 or 3 of a pose)."""
    from ..cfg import CFG, must_facts
    from ..pattern import canon, matches
    from ..callgraph import own_walk
    prog = run.prog
    f = prog.func('super_pose:SMPose.__mul__')
    fi = FuncInfo.of(f)
    cfg = CFG(f.node)
    facts = must_facts(cfg)
    reach = cfg.reachable()
    left, right = f.params[0], f.params[1]
    # the premise: reflected `*` methods of non-pose classes that multiply an untested left operand into their element arrays
    smp = prog.classes.get('SMPose')
    forwarders = []
    fdims = set()
    for g in prog.analysed_functions():
        if g.cls is None or g.name != '__rmul__' or (smp is not None and smp in g.cls.mro) or len(g.params) < 2:
            continue
        gcfg = CFG(g.node)
        gfacts = must_facts(gcfg)
        other = g.params[1]
        parents = {}
        for x in ast.walk(g.node):
            for ch in ast.iter_child_nodes(x):
                parents[id(ch)] = x
        for b in own_walk(g.node):
            if isinstance(b, ast.BinOp) and isinstance(b.op, (ast.Mult, ast.MatMult)) and isinstance(b.left, ast.Name) and b.left.id == other:
                st = b
                while st is not None and gcfg.node_of(st) is None:
                    st = parents.get(id(st))
                gn = gcfg.node_of(st) if st is not None else None
                gfs = gfacts.get(gn.id, frozenset()) if gn is not None else frozenset()
                guarded = any(isinstance(fc[2].ast, ast.Call) and getattr(fc[2].ast.func, 'id', getattr(fc[2].ast.func, 'attr', None)) in ('isinstance', 'isscalar')
                              and any(isinstance(a, ast.Name) and a.id == other for a in fc[2].ast.args[:1]) for fc in gfs)
                if not guarded:
                    forwarders.append('%s (%s)' % (g.key.split(':')[1], src(b, 25)))
                    shp = Interp(prog).shape_of(g.cls.name)
                    if shp and len(shp) == 1:
                        fdims.add(shp[0])
                    else:
                        fdims.add(None)         # element size unknown: any dimension may be forwarded
    if not forwarders:
        run.holds(rule, f.key, 'array-branch dimension', 'no reflected * method forwards an untested left operand: the dimension test is not what '
                  'rejects pose * quaternion / twist', f=f, nontrivial=False)
        return 0
    n = 0
    for r in own_walk(f.node):
        if not (isinstance(r, ast.Return) and r.value is not None):
            continue
        node = cfg.node_of(r)
        if node is None or node.id not in reach:
            continue
        fs = [(fc[1], canon(fi, fc[2].ast, inline=False)) for fc in facts.get(node.id, frozenset())]
        in_array_branch = any(pol and matches('isinstance(%s, (list, tuple, ndarray))' % right, e) is not None for (pol, e) in fs) or \
            any(pol and matches('isinstance(%s, ndarray)' % right, e) is not None for (pol, e) in fs)
        if not in_array_branch:
            continue
        n += 1
        dim_ok = any(pol and (matches('isvector(%s, %s.N)' % (right, left), e) is not None or
                              matches('%s.shape[0] == %s.N' % (right, left), e) is not None) for (pol, e) in fs)
        construct = 'array-branch return ' + src(r.value, 50)
        if dim_ok:
            run.holds(rule, f.key, construct, 'reached only with an array operand of the dimension of the pose', f=f, node=r)
        else:
            dims = [src(e, 40) for (pol, e) in fs if pol and (matches('isvector(%s, _K)' % right, e) is not None or matches('%s.shape[0] == _K' % right, e) is not None)]
            # the sizes this path accepts, when the test has the form K = left.N + c / c
            accepted = None
            for (pol, e) in fs:
                b_ = (matches('isvector(%s, _K)' % right, e) or matches('%s.shape[0] == _K' % right, e)) if pol else None
                if b_ is None:
                    continue
                K = b_['_K']
                c_ = None
                if isinstance(K, ast.Constant) and isinstance(K.value, int):
                    c_ = {K.value}
                elif matches('%s.N + _C' % left, K) is not None and isinstance(matches('%s.N + _C' % left, K)['_C'], ast.Constant):
                    c_ = {2 + matches('%s.N + _C' % left, K)['_C'].value, 3 + matches('%s.N + _C' % left, K)['_C'].value}
                if c_ is not None:
                    accepted = c_ if accepted is None else accepted & c_
            if accepted is not None and None not in fdims and not (accepted & fdims):
                run.undecided(rule, f.key, construct, 'accepts arrays of size %s, which no unguarded reflected operator forwards (element sizes %s)' % (
                    sorted(accepted), sorted(fdims)), f=f, node=r)
                continue
            run.violation(rule, f.key, construct, 'a value is returned for an array operand whose dimension is not tested to be %s.N%s: coefficient '
                          'arrays handed over by the reflected operators of other classes (a quaternion\'s 4 elements, a twist\'s 6) are '
                          'then accepted, so e.g. SE3 * Quaternion returns a value instead of raising (unguarded forwarders: %s)' % (
                              left, (' (tested instead: %s)' % ', '.join(dims)) if dims else '', ', '.join(sorted(set(forwarders))[:4])), f=f, node=r)
    if n < 6:
        run.error('R6d: only %d value returns found in the array branch of SMPose.__mul__ (expected >= 6)' % n)
    return n


# ------------------------------------------------------------------------------------------ guards of the operator methods themselves
TYPE_TESTS = ('isinstance', 'isscalar', 'isvector', 'ismatrix', 'issubclass', 'isnumberlist')
FORWARD = {v[0] for v in OPS.values()}


def _type_tested(fs, name):
    """a dominating fact, with the polarity `true`, that tests the type of `name`"""
    for fc in fs:
        if not fc[1]:
            continue
        for x in ast.walk(fc[2].ast):
            if isinstance(x, ast.Call):
                fn = getattr(x.func, 'id', getattr(x.func, 'attr', None))
                if fn in TYPE_TESTS and x.args and isinstance(x.args[0], ast.Name) and x.args[0].id == name:
                    return True
                if fn == 'type' and len(x.args) == 1 and isinstance(x.args[0], ast.Name) and x.args[0].id == name:
                    return True
            if isinstance(x, ast.Attribute) and x.attr == '__class__' and isinstance(x.value, ast.Name) and x.value.id == name:
                return True
    return False


def check_reflected_guards(run, rule='R6g'):
    """A reflected operator method (__rmul__, __radd__ ...) is called with ANY left operand whose own method gave up: a list, a tuple,
    an array, an unrelated object.  Each of its value-returning paths must have tested the type of that operand, or hand the pair
    to the forward method (which the operator table R6 decides).  A method that multiplies the untested operand into its element
    arrays leaves the rejection to NumPy, which broadcasts a conforming list or array instead of raising."""
    from ..cfg import CFG, must_facts, pure_locals, _subst_pure
    from ..callgraph import own_walk
    prog = run.prog
    I = Interp(prog)
    seen = set()
    n = 0
    for cn in LIB:
        for op, (fwd, refl) in OPS.items():
            if refl == fwd:
                continue
            p = provides(I, cn, refl)
            if p is None or not isinstance(p[1], Function) or p[1].key in seen:
                continue
            g = p[1]
            seen.add(g.key)
            if len(g.params) < 2:
                continue
            other = g.params[1]
            cfg = CFG(g.node)
            facts = must_facts(cfg)
            reach = cfg.reachable()
            env = pure_locals(g.node)
            for r in own_walk(g.node):
                if not (isinstance(r, ast.Return) and r.value is not None):
                    continue
                if isinstance(r.value, ast.Name) and r.value.id == 'NotImplemented':
                    continue
                node = cfg.node_of(r)
                if node is None or node.id not in reach:
                    continue
                n += 1
                v = _subst_pure(r.value, env)          # diff = left.__sub__(right); return -diff
                while isinstance(v, ast.UnaryOp):
                    v = v.operand
                construct = '%s: return %s' % (refl, src(r.value, 50))
                if isinstance(v, ast.Call) and isinstance(v.func, ast.Attribute) and v.func.attr in FORWARD:
                    run.holds(rule, g.key, construct, 'hands the pair to the forward method %s, whose dispatch the operator table decides' % v.func.attr, f=g, node=r)
                    continue
                if _type_tested(facts.get(node.id, frozenset()), other):
                    run.holds(rule, g.key, construct, 'reached only after a type test of the left operand %r' % other, f=g, node=r)
                else:
                    run.violation(rule, g.key, construct, 'the reflected operator returns a value without any test of the type of its left operand %r: '
                                  'a list, tuple or array on the left (its own %s gives up) is combined element-wise with the stored values by '
                                  'NumPy broadcasting instead of being rejected, so an undocumented pairing returns a %s' %
                                  (other, fwd, cn), f=g, node=r)
    return n


def check_guard_direction(run, rule='R6s'):
    """`isinstance(self, other.__class__)` is true for an operand of ANY ancestor class of self's class.  Where the operator table
    requires `L op R` to raise for an ancestor R of L whose elements have the shape of L's (so that nothing downstream can tell
    them apart by shape), the same-class branch must not be entered through that test unless the helper it calls tests the class
    in the other direction (as SMPose._op2 does).  Otherwise the pair is rejected only when the element VALUES fail the
    constructor's validation."""
    from ..callgraph import own_walk
    prog = run.prog
    I = Interp(prog)
    n = 0
    seen = set()
    for L in LIB:
        anc_all = [R for R in LIB if R != L and I.issub(L, R) and I.shape_of(R) is not None and I.shape_of(R) == I.shape_of(L)]
        if not anc_all:
            continue
        for op, (fwd, refl) in OPS.items():
            if op not in ARITH:
                continue
            anc = [R for R in anc_all if expected(op, L, R)[0] == 'raise']
            if not anc:
                continue
            p = provides(I, L, fwd)
            if p is None or not isinstance(p[1], Function):
                continue
            g = p[1]
            if (g.key, L) in seen or len(g.params) < 2:
                continue
            seen.add((g.key, L))
            me, other = g.params[0], g.params[1]
            for st in own_walk(g.node):
                if not isinstance(st, ast.If):
                    continue
                t = st.test
                hit = False
                for x in ast.walk(t):
                    if isinstance(x, ast.Call) and getattr(x.func, 'id', None) == 'isinstance' and len(x.args) == 2 and \
                            isinstance(x.args[0], ast.Name) and x.args[0].id == me:
                        k = x.args[1]
                        if (isinstance(k, ast.Attribute) and k.attr == '__class__' and isinstance(k.value, ast.Name) and k.value.id == other) or \
                                (isinstance(k, ast.Call) and getattr(k.func, 'id', None) == 'type' and len(k.args) == 1 and
                                 isinstance(k.args[0], ast.Name) and k.args[0].id == other):
                            hit = True
                if not hit:
                    continue
                rets = [r for b in st.body for r in ast.walk(b) if isinstance(r, ast.Return) and r.value is not None
                        and not (isinstance(r.value, ast.Name) and r.value.id == 'NotImplemented')]
                if not rets:
                    continue
                n += 1
                # does a helper called in the branch test the class in the other direction?
                other_dir = False
                for b in st.body:
                    for c in ast.walk(b):
                        if isinstance(c, ast.Call) and isinstance(c.func, ast.Attribute) and isinstance(c.func.value, ast.Name) and c.func.value.id == me:
                            k2, mem = prog.lookup_member(prog.classes.get(L), c.func.attr)
                            if isinstance(mem, Function) and len(mem.params) >= 2:
                                hs, ho = mem.params[0], mem.params[1]
                                for y in ast.walk(mem.node):
                                    if isinstance(y, ast.Call) and getattr(y.func, 'id', None) == 'isinstance' and len(y.args) == 2 and \
                                            isinstance(y.args[0], ast.Name) and y.args[0].id == ho and isinstance(y.args[1], ast.Attribute) and \
                                            y.args[1].attr == '__class__' and isinstance(y.args[1].value, ast.Name) and y.args[1].value.id == hs:
                                        other_dir = True
                construct = '%s %s: same-class branch' % (L, op)
                if other_dir:
                    run.holds(rule, g.key, construct, 'the helper called in the branch tests the class in the other direction: only equal classes pass both', f=g, node=st)
                else:
                    run.violation(rule, g.key, construct, 'the branch is entered through %s, which is true for a right operand of the ancestor class %s; '
                                  '%s %s %s must raise, but the operand reaches %s and is rejected only if its element values fail the validation of the '
                                  'constructor (an operand of class %s holding values that pass is not rejected)' %
                                  (src(t, 50), '/'.join(anc), L, op, anc[0], src(rets[0].value, 50), anc[0]), f=g, node=st)
    return n
