"""R18 -- methods shared by rotation classes (SO(n): every row and column is data) and homogeneous classes (SE(n):
last row is the constant [0 .. 0 1]) must not apply homogeneous-structure assumptions to all receivers.

A two-dimensional subscript that EXCLUDES the last row or column (`[:-1, :]`, `[:, :-1]`, `[:n, ...]` is not meant:
only negative bounds, which are relative to the matrix size and therefore apply to every receiver class) in a method
whose receiver can be an SO(n) object, without a dominating isSE test (or its negation, isSO false), processes only
part of a rotation matrix.  Reads of the last row/column (`[-1, :]`) are reported as undecided: they may be legitimate
(the approach vector of a rotation matrix)."""
import ast

from ..scope import FuncInfo
from ..cfg import CFG, must_facts, header_expr
from ..callgraph import own_walk
from ..astutil import src
from ..pattern import matches
from .r1_resolve import receiver_classes

ROTATION = ('SO2', 'SO3')
HOMOGENEOUS = ('SE2', 'SE3')


def _neg_const(x):
    return isinstance(x, ast.UnaryOp) and isinstance(x.op, ast.USub) and isinstance(x.operand, ast.Constant) and \
        isinstance(x.operand.value, int) or (isinstance(x, ast.Constant) and isinstance(x.value, int) and x.value < 0)


def _classify_slice(sl):
    """-> 'exclude' (a bound that cuts the last row/column off), 'pick' (the last row/column itself) or None"""
    if not isinstance(sl, ast.Tuple):
        return None
    kind = None
    for d in sl.elts:
        if isinstance(d, ast.Slice):
            if d.upper is not None and _neg_const(d.upper):
                return 'exclude'
            if d.lower is not None and _neg_const(d.lower):
                kind = 'pick'
        elif _neg_const(d):
            kind = 'pick'
    return kind


def shared_methods(prog):
    out = []
    for f in prog.analysed_functions():
        if f.cls is None or f.parent is not None:
            continue
        rc = {k.name for k in receiver_classes(prog, f)}
        if rc & set(ROTATION) and rc & set(HOMOGENEOUS):
            out.append(f)
    return out


def _nested_walk(node):
    """own_walk, but descending into nested function definitions too (their bodies run for the same receiver)"""
    for x in ast.walk(node):
        yield x


def check_shared_structure(run, rule='R18'):
    prog = run.prog
    fs = shared_methods(prog)
    run.extra['R18_shared_methods'] = len(fs)
    n = 0
    for f in fs:
        fi = FuncInfo.of(f)
        cfg = CFG(f.node)
        facts = must_facts(cfg)
        owner = {}
        for node in cfg.nodes:
            for h in header_expr(node):
                if h is None:
                    continue
                for x in ast.walk(h):
                    owner.setdefault(id(x), node)
        found = False
        for x in _nested_walk(f.node):
            if not isinstance(x, ast.Subscript):
                continue
            k = _classify_slice(x.slice)
            if k is None:
                continue
            found = True
            n += 1
            node = owner.get(id(x))
            fsx = facts.get(node.id, frozenset()) if node is not None else frozenset()
            s = f.selfname
            guarded = any((fc[1] and matches('%s.isSE' % s, fc[2].ast) is not None) or
                          ((not fc[1]) and matches('%s.isSO' % s, fc[2].ast) is not None) for fc in fsx)
            construct = 'last row/column %s: %s' % ('excluded' if k == 'exclude' else 'selected', src(x, 40))
            if guarded:
                run.holds(rule, f.key, construct, 'under an isSE test', f=f, node=x)
            elif k == 'exclude':
                run.violation(rule, f.key, construct, 'the method is inherited by %s, whose matrices have no constant last row: a slice that '
                              'cuts the last row/column off without an isSE test leaves part of every rotation matrix unprocessed'
                              % '/'.join(sorted({c.name for c in receiver_classes(prog, f)} & set(ROTATION))), f=f, node=x)
            else:
                run.undecided(rule, f.key, construct, 'last row/column read in a method shared by SO(n) and SE(n) without an isSE test', f=f, node=x)
        if not found:
            run.holds(rule, f.key, 'uniform element treatment', 'no size-relative row/column selection: elements of SO(n) and SE(n) receivers '
                      'are treated uniformly', f=f, nontrivial=False)
    return len(fs)
