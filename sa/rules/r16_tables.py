"""R16 -- term / sign tables: literal matrices, vector forms and block structures are compared entry by entry with
their mathematical definition (DESIGN.md appendix C).  Verdicts: HOLDS (recognised and equal), VIOLATION (recognised,
an entry differs), ANALYSIS-ERROR (the subject no longer has a recognisable literal/block form)."""
import ast

from ..model import AnalysisError
from ..scope import FuncInfo
from ..cfg import CFG, must_facts
from ..callgraph import own_walk
from ..astutil import src, body_nodoc
from ..pattern import canon, matches, find_all, parse_pat
from ..terms import Normaliser, Poly, matrix_literal, vector_literal, parse_expr, compare_tables, Unrecognised
from .r2_none import own_returns

RULE = 'R16'


class Ctx:
    """Per-function helper: canonical returns with their guard facts, parameter renaming P0, P1, ..."""

    def __init__(self, run, key):
        self.run = run
        self.f = run.prog.func(key)
        self.fi = FuncInfo.of(self.f)
        self.cfg = CFG(self.f.node)
        self.facts = must_facts(self.cfg)
        ps = [p for p in self.f.params if p != self.f.selfname]
        self.rename = {p: 'P%d' % i for i, p in enumerate(ps)}
        if self.f.selfname:
            self.rename[self.f.selfname] = 'SELF'
        self.norm = Normaliser(rename=self.rename)

    def returns(self):
        out = []
        reach = self.cfg.reachable()
        for r in own_returns(self.f.node):
            n = self.cfg.node_of(r)
            if n is None or n.id not in reach or r.value is None:
                continue
            out.append((r, self.facts.get(n.id, frozenset())))
        return out

    def ret_where(self, pats, pol=True):
        """returns whose guard facts contain one of the patterns (canonical) with the given polarity"""
        out = []
        for r, fs in self.returns():
            for fc in fs:
                if fc[1] != pol:
                    continue
                ct = canon(self.fi, fc[2].ast)
                if any(matches(p, ct) is not None for p in pats):
                    out.append(r)
                    break
        return out

    def c(self, e):
        return canon(self.fi, e)

    def P(self, s):
        """expected expression written over P0, P1 ... -> Poly"""
        return Normaliser().poly(parse_expr(s))

    def poly(self, e):
        return self.norm.poly(self.c(e))

    def pname(self, i):
        ps = [p for p in self.f.params if p != self.f.selfname]
        return ps[i]


def _report_table(run, cx, subject, name, got_rows, want_rows, node=None):
    """got_rows: list of list of AST (canonical); want_rows: list of list of str over P-names"""
    try:
        got = [[cx.norm.poly(x) for x in r] for r in got_rows]
    except Unrecognised as e:
        run.error('R16: %s in %s has an entry of unrecognised form (%s)' % (name, subject, e))
        return False
    want = [[Normaliser().poly(parse_expr(x)) for x in r] for r in want_rows]
    bad = compare_tables(got, want)
    if bad is None:
        run.error('R16: %s in %s has shape %dx%d, expected %dx%d' % (name, subject, len(got), len(got[0]) if got else 0,
                                                                      len(want), len(want[0])))
        return False
    if bad:
        for (i, j, g, w) in bad[:4]:
            run.violation(RULE, subject, '%s[%d][%d]' % (name, i, j),
                          'entry (%d,%d) of %s is %s but the definition requires %s' % (i, j, name, g, w), f=cx.f, node=node)
        return False
    run.holds(RULE, subject, name, 'all %d entries agree with the definition' % sum(len(r) for r in want), f=cx.f, node=node)
    return True


def _single_return_value(cx):
    rs = cx.returns()
    if len(rs) != 1:
        return None
    return rs[0][0]


def check_matrix_fn(run, key, name, want_rows, select=None):
    """The (selected) return value of the function is a literal matrix equal to want_rows."""
    cx = Ctx(run, key)
    if select is None:
        r = _single_return_value(cx)
        rets = [r] if r is not None else []
    else:
        rets = cx.ret_where(select[0], select[1])
    if len(rets) != 1:
        run.error('R16: %s: expected exactly one return for table %s, found %d' % (key, name, len(rets)))
        return
    e = cx.c(rets[0].value)
    rows = matrix_literal(e)
    if rows is None:
        run.error('R16: %s: return value for table %s is not a literal matrix: %s' % (key, name, src(e, 60)))
        return
    _report_table(run, cx, key, name, rows, want_rows, node=rets[0])


def check_vector_fn(run, key, name, want, select=None, scale=None):
    cx = Ctx(run, key)
    if select is None:
        r = _single_return_value(cx)
        rets = [r] if r is not None else []
    else:
        rets = cx.ret_where(select[0], select[1])
    if len(rets) != 1:
        run.error('R16: %s: expected exactly one return for %s, found %d' % (key, name, len(rets)))
        return
    e = cx.c(rets[0].value)
    factor = Poly.const(1)
    # allow  <vector> / 2   or  0.5 * <vector>
    if isinstance(e, ast.BinOp) and isinstance(e.op, ast.Div) and vector_literal(e.left) is not None:
        d = cx.norm.poly(e.right).const_value()
        if d:
            factor = Poly.const(1 / d)
            e = e.left
    elif isinstance(e, ast.BinOp) and isinstance(e.op, ast.Mult):
        for a, b in ((e.left, e.right), (e.right, e.left)):
            cv = cx.norm.poly(a).const_value()
            if cv is not None and vector_literal(b) is not None:
                factor = Poly.const(cv)
                e = b
                break
    ents = vector_literal(e)
    if ents is None:
        run.error('R16: %s: return value for %s is not a literal vector: %s' % (key, name, src(e, 60)))
        return
    try:
        got = [[cx.norm.poly(x) * factor for x in ents]]
    except Unrecognised as ex:
        run.error('R16: %s: unrecognised entry in %s (%s)' % (key, name, ex))
        return
    wantp = [[Normaliser().poly(parse_expr(x)) for x in want]]
    bad = compare_tables(got, wantp)
    if bad is None:
        run.error('R16: %s: %s has %d entries, expected %d' % (key, name, len(ents), len(want)))
        return
    if bad:
        for (i, j, g, w) in bad[:4]:
            run.violation(RULE, key, '%s[%d]' % (name, j), 'entry %d of %s is %s but the definition requires %s' % (j, name, g, w),
                          f=cx.f, node=rets[0])
    else:
        run.holds(RULE, key, name, 'all %d entries agree with the definition' % len(want), f=cx.f, node=rets[0])


def check_expr_fn(run, key, name, want, select=None, alts=()):
    """The selected return expression equals `want` (or one of alts) as a polynomial over atoms."""
    cx = Ctx(run, key)
    if select is None:
        r = _single_return_value(cx)
        rets = [r] if r is not None else []
    else:
        rets = cx.ret_where(select[0], select[1])
    if len(rets) != 1:
        run.error('R16: %s: expected exactly one return for %s, found %d' % (key, name, len(rets)))
        return
    try:
        g = cx.poly(rets[0].value)
    except Unrecognised as ex:
        run.error('R16: %s: %s unrecognised (%s)' % (key, name, ex))
        return
    wants = [Normaliser().poly(parse_expr(w)) for w in (want,) + tuple(alts)]
    if any(g == w for w in wants):
        run.holds(RULE, key, name, 'equals %s' % want, f=cx.f, node=rets[0])
    else:
        run.violation(RULE, key, name, '%s is %s but the definition requires %s' % (name, g, wants[0]), f=cx.f, node=rets[0])


def slice_assign_table(cx, var, stmts=None):
    """Collect `var[<slice>] = expr` assignments in the function -> {slice text: canonical expr AST}, plus allocation."""
    tbl = {}
    alloc = None
    for n in own_walk(cx.f.node):
        if isinstance(n, ast.Assign) and len(n.targets) == 1:
            t = n.targets[0]
            if isinstance(t, ast.Name) and t.id == var:
                alloc = n.value
            elif isinstance(t, ast.Subscript) and isinstance(t.value, ast.Name) and t.value.id == var:
                key = cx.norm.slice_str(cx.c(t.slice) if False else t.slice)
                tbl[key] = n.value
    return alloc, tbl


# =========================================================================== C13 tables
def tables_c13(run):
    # T05/T06 skew
    check_matrix_fn(run, 'base/transformsNd:skew', 'skew (n=1)', [['0', '-P0[0]'], ['P0[0]', '0']],
                    select=(['len(P0) == 1'.replace('P0', 'v')], True))
    check_matrix_fn(run, 'base/transformsNd:skew', 'skew (n=3)',
                    [['0', '-P0[2]', 'P0[1]'], ['P0[2]', '0', '-P0[0]'], ['-P0[1]', 'P0[0]', '0']],
                    select=(['len(v) == 3'], True))
    # T07 vex (reader): half the antisymmetric differences; composition with skew = identity
    check_vector_fn(run, 'base/transformsNd:vex', 'vex (3x3)',
                    ['0.5*P0[2, 1] - 0.5*P0[1, 2]', '0.5*P0[0, 2] - 0.5*P0[2, 0]', '0.5*P0[1, 0] - 0.5*P0[0, 1]'],
                    select=(['s.shape == (3, 3)'], True))
    check_vector_fn(run, 'base/transformsNd:vex', 'vex (2x2)', ['0.5*P0[1, 0] - 0.5*P0[0, 1]'],
                    select=(['s.shape == (2, 2)'], True))
    _compose_vex_skew(run)
    # cross product helper
    check_vector_fn(run, 'base/vectors:cross', 'cross', ['P0[1]*P1[2] - P0[2]*P1[1]', 'P0[2]*P1[0] - P0[0]*P1[2]',
                                                         'P0[0]*P1[1] - P0[1]*P1[0]'])
    _skewa_vexa(run)
    _adjoint(run)
    _delta(run)


def _compose_vex_skew(run):
    """vex(skew(v)) == v over atoms: substitute the writer's table into the reader's formula."""
    prog = run.prog
    cs = Ctx(run, 'base/transformsNd:skew')
    cv = Ctx(run, 'base/transformsNd:vex')
    for n, sel_s, sel_v in ((3, 'len(v) == 3', 's.shape == (3, 3)'), (1, 'len(v) == 1', 's.shape == (2, 2)')):
        rs = cs.ret_where([sel_s], True)
        rv = cv.ret_where([sel_v], True)
        if len(rs) != 1 or len(rv) != 1:
            run.error('R16: vex/skew composition: branches not found for n=%d' % n)
            continue
        rows = matrix_literal(cs.c(rs[0].value))
        if rows is None:
            run.error('R16: skew n=%d is not a literal matrix' % n)
            continue
        # substitute S[i, j] := skew table entry into vex's entries
        S = cv.pname(0)
        subst = {}
        wr = Normaliser(rename={cs.pname(0): 'V'})
        table = {(i, j): wr.poly(rows[i][j]) for i in range(len(rows)) for j in range(len(rows))}

        class Sub(Normaliser):
            def poly(self2, e):
                if isinstance(e, ast.Subscript) and isinstance(e.value, ast.Name) and e.value.id == S and \
                        isinstance(e.slice, ast.Tuple) and all(isinstance(x, ast.Constant) for x in e.slice.elts):
                    return table[(e.slice.elts[0].value, e.slice.elts[1].value)]
                return Normaliser.poly(self2, e)
        e = cv.c(rv[0].value)
        factor = Poly.const(1)
        if isinstance(e, ast.BinOp) and isinstance(e.op, ast.Div):
            d = Normaliser().poly(e.right).const_value()
            factor = Poly.const(1 / d) if d else factor
            e = e.left
        ents = vector_literal(e)
        if ents is None:
            run.error('R16: vex n=%d is not a literal vector' % n)
            continue
        sub = Sub()
        got = [sub.poly(x) * factor for x in ents]
        want = [Normaliser().poly(parse_expr('V[%d]' % i)) for i in range(n)]
        if got == want:
            run.holds(RULE, 'skew/vex', 'vex(skew(v)) == v (n=%d)' % n, 'writer and reader tables compose to the identity', f=cv.f)
        else:
            run.violation(RULE, 'skew/vex', 'vex(skew(v)) == v (n=%d)' % n,
                          'vex(skew(v)) evaluates over the literal tables to [%s], not to v' % ', '.join(str(g) for g in got), f=cv.f)


def _skewa_vexa(run):
    # T08 skewa: rotation block skew(v[n_t:]), last column v[:n_t], zero last row (fresh zeros)
    cx = Ctx(run, 'base/transformsNd:skewa')
    v = cx.pname(0)
    ok = 0
    for n in own_walk(cx.f.node):
        if isinstance(n, ast.If):
            for dim, nt, N in ((3, 2, 3), (6, 3, 4)):
                if matches('len(%s) == %d' % (v, dim), cx.c(n.test)) is not None:
                    tbl = {}
                    alloc = None
                    for st in n.body:
                        if isinstance(st, ast.Assign) and len(st.targets) == 1:
                            t = st.targets[0]
                            if isinstance(t, ast.Name):
                                alloc = (t.id, cx.c(st.value))
                            elif isinstance(t, ast.Subscript):
                                tbl[cx.norm.slice_str(t.slice)] = cx.norm.poly(cx.c(st.value))
                    want = {':%d, :%d' % (nt, nt): Normaliser().poly(parse_expr('skew(P0[%d:%d])' % (nt, dim) if nt == 3 else 'skew(P0[2])')),
                            ':%d, %d' % (nt, nt): Normaliser().poly(parse_expr('P0[0:%d]' % nt))}
                    name = 'skewa (%d-vector)' % dim
                    if alloc is None or matches('zeros((%d, %d), *_X)' % (N, N), alloc[1]) is None and \
                            matches('zeros((%d, %d), dtype=__)' % (N, N), alloc[1]) is None:
                        run.error('R16: %s: allocation is not a fresh zeros((%d,%d))' % (name, N, N))
                        continue
                    bad = [(k, tbl.get(k), w) for k, w in want.items() if tbl.get(k) != w]
                    extra = [k for k in tbl if k not in want]
                    if bad or extra:
                        for (k, g, w) in bad:
                            run.violation(RULE, cx.f.key, '%s block [%s]' % (name, k), 'block [%s] is %s, the definition requires %s'
                                          % (k, g, w), f=cx.f, node=n)
                        for k in extra:
                            run.violation(RULE, cx.f.key, '%s block [%s]' % (name, k), 'unexpected write into [%s] (last row must stay zero)' % k, f=cx.f, node=n)
                    else:
                        ok += 1
                        run.holds(RULE, cx.f.key, name, 'rotation block = skew of the rotational part, last column = translational part, last row zero', f=cx.f, node=n)
    if ok == 0 and not any(o['subject'] == cx.f.key and o['status'] == 'violation' for o in run.obs):
        run.error('R16: skewa: no branch recognised')
    # T09 vexa = hstack(transl(Omega), vex(t2r(Omega)))
    for shape, tr in (('(4, 4)', 'transl'), ('(3, 3)', 'transl2')):
        check_expr_fn(run, 'base/transformsNd:vexa', 'vexa %s' % shape, 'hstack((%s(P0), vex(t2r(P0), check=P1)))' % tr,
                      select=(['Omega.shape == %s' % shape], True),
                      alts=('hstack((%s(P0), vex(t2r(P0))))' % tr, 'hstack([%s(P0), vex(t2r(P0), check=P1)])' % tr,
                            'r_[%s(P0), vex(t2r(P0), check=P1)]' % tr))


def _blocks(e):
    """np.block([[a, b], [c, d]]) -> rows of AST"""
    if isinstance(e, ast.Call) and isinstance(e.func, ast.Name) and e.func.id == 'block' and e.args:
        return matrix_literal(e.args[0])
    return None


def _adjoint(run):
    cx = Ctx(run, 'base/transforms3d:adjoint')
    for shape, want in (('(4, 4)', [['R', 'skew(t) @ R'], ['Z', 'R']]), ('(3, 3)', [['R', 'Z'], ['Z', 'R']])):
        rets = cx.ret_where(['T.shape == %s' % shape], True)
        if len(rets) != 1:
            run.error('R16: adjoint: branch %s not found' % shape)
            continue
        # do not inline locals here: blocks are compared by role (R, t from tr2rt / T itself; Z zeros)
        b = _blocks(canon(cx.fi, rets[0].value, inline=False))
        if b is None:
            run.error('R16: adjoint %s is not an np.block literal' % shape)
            continue
        roles = _roles(cx, rets[0], shape)
        if roles is None:
            run.error('R16: adjoint %s: cannot identify R/t/Z' % shape)
            continue
        nm = Normaliser(rename=roles)
        got = [[nm.poly(x) for x in r] for r in b]
        wantp = [[Normaliser().poly(parse_expr(x)) for x in r] for r in want]
        bad = compare_tables(got, wantp)
        if bad is None:
            run.error('R16: adjoint %s block shape' % shape)
        elif bad:
            for (i, j, g, w) in bad:
                run.violation(RULE, cx.f.key, 'adjoint %s block (%d,%d)' % (shape, i, j), 'block (%d,%d) is %s, the definition '
                              '[[R, skew(t)R],[0, R]] requires %s' % (i, j, g, w), f=cx.f, node=rets[0])
        else:
            run.holds(RULE, cx.f.key, 'adjoint ' + shape, 'blocks agree with [[R, skew(t) R], [0, R]]' if shape == '(4, 4)' else 'blocks agree with [[R,0],[0,R]]', f=cx.f, node=rets[0])
    # tr2jac
    cj = Ctx(run, 'base/transforms3d:tr2jac')
    for sel, pol, want, nm_ in ((['samebody'], True, [['R.T', 'R.T @ skew(t).T'], ['Z', 'R.T']], 'samebody'),
                                (['samebody'], False, [['R.T', 'Z'], ['Z', 'R.T']], 'world')):
        rets = cj.ret_where(sel, pol)
        if len(rets) != 1:
            run.error('R16: tr2jac: %s branch not found' % nm_)
            continue
        b = _blocks(canon(cj.fi, rets[0].value, inline=False))
        roles = _roles(cj, rets[0], '(4, 4)')
        if b is None or roles is None:
            run.error('R16: tr2jac %s: unrecognised' % nm_)
            continue
        nmz = Normaliser(rename=roles)
        got = [[nmz.poly(x) for x in r] for r in b]
        wantp = [[Normaliser().poly(parse_expr(x)) for x in r] for r in want]
        bad = compare_tables(got, wantp)
        if bad:
            for (i, j, g, w) in bad:
                run.violation(RULE, cj.f.key, 'tr2jac %s block (%d,%d)' % (nm_, i, j), 'block (%d,%d) is %s, the definition requires %s' % (i, j, g, w), f=cj.f, node=rets[0])
        elif bad is None:
            run.error('R16: tr2jac %s block shape' % nm_)
        else:
            run.holds(RULE, cj.f.key, 'tr2jac ' + nm_, 'blocks agree with the definition', f=cj.f, node=rets[0])
    # Twist3.ad
    ca = Ctx(run, 'twist:Twist3.ad')
    r = _single_return_value(ca)
    b = _blocks(ca.c(r.value)) if r is not None else None
    if b is None:
        run.error('R16: Twist3.ad is not an np.block literal')
    else:
        nmz = Normaliser(rename={ca.f.selfname: 'S'})
        got = [[nmz.poly(x) for x in r_] for r_ in b]
        wantp = [[Normaliser().poly(parse_expr(x)) for x in r_] for r_ in [['skew(S.w)', 'skew(S.v)'], ['zeros((3, 3))', 'skew(S.w)']]]
        bad = compare_tables(got, wantp)
        if bad:
            for (i, j, g, w) in bad:
                run.violation(RULE, ca.f.key, 'ad block (%d,%d)' % (i, j), 'block (%d,%d) is %s, the definition [[skew(w), skew(v)],[0, skew(w)]] requires %s' % (i, j, g, w), f=ca.f, node=r)
        elif bad is None:
            run.error('R16: Twist3.ad block shape')
        else:
            run.holds(RULE, ca.f.key, 'ad', 'blocks agree with [[skew(w), skew(v)], [0, skew(w)]]', f=ca.f, node=r)


def _roles(cx, ret, shape):
    """Map local names to roles R (rotation part of the argument), t (translation part), Z (zero block)."""
    T = cx.pname(0)
    roles = {}
    for n in own_walk(cx.f.node):
        if isinstance(n, ast.Assign) and len(n.targets) == 1:
            t = n.targets[0]
            v = canon(cx.fi, n.value, inline=False)
            if isinstance(t, ast.Name):
                if matches('zeros((3, 3), *_X)', v) is not None or matches('zeros((3, 3), dtype=__)', v) is not None:
                    roles[t.id] = 'Z'
                elif matches('t2r(%s)' % T, v) is not None:
                    roles[t.id] = 'R'
                elif matches(T, v) is not None and shape == '(3, 3)':
                    roles[t.id] = 'R'
            elif isinstance(t, (ast.Tuple, ast.List)) and len(t.elts) == 2 and matches('tr2rt(%s)' % T, v) is not None:
                roles[t.elts[0].id] = 'R'
                roles[t.elts[1].id] = 't'
    # only assignments that reach the return matter: approximate by requiring the names used in the return to be mapped
    used = {y.id for y in ast.walk(ret.value) if isinstance(y, ast.Name)}
    need = {u for u in used if u not in ('np', 'base') and u != T}
    if shape == '(3, 3)':
        # in the 3x3 branch R must be the argument itself
        from ..cfg import reaching_defs
        IN, OUT = reaching_defs(cx.cfg, cx.f.allparams)
        node = cx.cfg.node_of(ret)
        for u in need:
            defs = [d for (nm, d) in IN.get(node.id, ()) if nm == u]
            for d in defs:
                a = cx.cfg.nodes[d].ast
                if isinstance(a, ast.Assign) and isinstance(a.targets[0], ast.Name) and a.targets[0].id == u:
                    v = canon(cx.fi, a.value, inline=False)
                    if matches(T, v) is not None:
                        roles[u] = 'R'
    if not need <= set(roles):
        return None
    return roles


def _delta(run):
    """T32: tr2delta(T0, T1) = [transl(Td), vex(t2r(Td) - I)] with Td = T0^-1 T1 (group word), delta2tr = I + skewa(d)."""
    from .words import group_word
    cx = Ctx(run, 'base/transforms3d:tr2delta')
    T0, T1 = cx.pname(0), cx.pname(1)
    rets = cx.returns()
    for r, fs in rets:
        two = any((not fc[1]) and matches('%s is None' % T1, fc[2].ast) is not None for fc in fs)
        one = any(fc[1] and matches('%s is None' % T1, fc[2].ast) is not None for fc in fs)
        e = canon(cx.fi, r.value)
        ents = vector_literal(e)
        if ents is None or len(ents) != 2:
            run.error('R16: tr2delta: return is not r_[translation, rotation] (%s)' % src(e, 60))
            continue
        tr, rot = ents
        # rotational part: vex(<Rd> - eye(3)), translational: transl(<Td>) or an explicit vector
        b = matches('vex(_RD - eye(3))', rot) or matches('vex(_RD - eye(3), *_X)', rot)
        if b is None:
            run.error('R16: tr2delta: rotational part is not vex(Rd - eye(3)): %s' % src(rot, 50))
            continue
        cases = []
        if two or not (one or two):
            cases.append(('two-argument', [(T0, -1), (T1, 1)]))
        if one or not (one or two):
            cases.append(('one-argument', [(T0, 1)]))
        for label, want in cases:
            # when the return is shared by both call forms, Td is a local with two reaching definitions: analyse per def
            words = group_word(cx, b['_RD'], r, rotation=True, assume={T1: None} if label == 'one-argument' else {})
            if words is None:
                run.error('R16: tr2delta %s: rotation increment has no recognisable group-word form: %s' % (label, src(b['_RD'], 50)))
                continue
            ok = [w for w in words if w == want]
            wrong = [w for w in words if w != want]
            construct = 'tr2delta %s rotation word' % label
            if two and not one and label == 'one-argument':
                continue
            if one and not two and label == 'two-argument':
                continue
            if wrong and not (one or two):
                # shared return: words of both forms appear; accept iff the set equals the two expected words
                allw = {tuple(w) for w in words}
                if allw == {((T0, -1), (T1, 1)), ((T0, 1),)}:
                    run.holds(RULE, cx.f.key, 'tr2delta rotation words', 'Td = T0^-1 T1 (two arguments) or T0 (one argument)', f=cx.f, node=r)
                else:
                    run.violation(RULE, cx.f.key, 'tr2delta rotation words', 'the rotation increment is formed from %s; the definition '
                                  'requires T0^-1 * T1 (and T0 alone for one argument)' % _wfmt(words), f=cx.f, node=r)
                break
            if wrong:
                run.violation(RULE, cx.f.key, construct, 'the rotation increment is the group word %s but the definition requires %s '
                              '(the increment expressed in the T0 frame)' % (_wfmt(wrong), _wfmt([want])), f=cx.f, node=r)
            else:
                run.holds(RULE, cx.f.key, construct, 'rotation increment is %s' % _wfmt([want]), f=cx.f, node=r)
    check_expr_fn(run, 'base/transforms3d:delta2tr', 'delta2tr', 'eye(4, 4) + skewa(P0)', alts=('eye(4) + skewa(P0)',))


def _wfmt(words):
    return ' | '.join(' * '.join('%s%s' % (n, '^-1' if p < 0 else '') for (n, p) in w) for w in words)
