"""R16 -- term / sign tables: literal matrices, vector forms and block structures are compared entry by entry with
their mathematical definition (DESIGN.md appendix C).  Verdicts: HOLDS (recognised and equal), VIOLATION (recognised,
an entry differs), ANALYSIS-ERROR (the subject no longer has a recognisable literal/block form)."""
import ast

from ..model import AnalysisError
from ..scope import FuncInfo
from ..cfg import CFG, must_facts
from ..callgraph import own_walk
from ..astutil import src, body_nodoc
from ..pattern import canon, matches, find_all, parse_pat
from ..terms import Normaliser, Poly, matrix_literal, vector_literal, parse_expr, compare_tables, Unrecognised
from .r2_none import own_returns

RULE = 'R16'


class Ctx:
    """Per-function helper: canonical returns with their guard facts, parameter renaming P0, P1, ..."""

    def __init__(self, run, key):
        self.run = run
        self.f = run.prog.func(key)
        self.fi = FuncInfo.of(self.f)
        self.cfg = CFG(self.f.node)
        self.facts = must_facts(self.cfg)
        ps = [p for p in self.f.params if p != self.f.selfname]
        self.rename = {p: 'P%d' % i for i, p in enumerate(ps)}
        if self.f.selfname:
            self.rename[self.f.selfname] = 'SELF'
        if self.f.cls is not None:
            # positional parameters of the class's constructor: cls(a, w=b) and cls(a, b) are one call (terms.atom_str)
            _, init = run.prog.lookup_member(self.f.cls, '__init__')
            if init is not None and hasattr(init, 'params') and init.node.args.vararg is None:
                self.rename['__ctor__'] = tuple(init.params[1:])
        self.norm = Normaliser(rename=self.rename)

    def returns(self):
        out = []
        reach = self.cfg.reachable()
        for r in own_returns(self.f.node):
            n = self.cfg.node_of(r)
            if n is None or n.id not in reach or r.value is None:
                continue
            out.append((r, self.facts.get(n.id, frozenset())))
        return out

    def ret_where(self, pats, pol=True):
        """returns whose guard facts contain one of the patterns (canonical) with the given polarity"""
        out = []
        for r, fs in self.returns():
            for fc in fs:
                if fc[1] != pol:
                    continue
                ct = canon(self.fi, fc[2].ast)
                if any(matches(p, ct) is not None for p in pats):
                    out.append(r)
                    break
        return out

    def c(self, e):
        return canon(self.fi, e)

    def P(self, s):
        """expected expression written over P0, P1 ... -> Poly"""
        return Normaliser().poly(parse_expr(s))

    def poly(self, e):
        return self.norm.poly(self.c(e))

    def pname(self, i):
        ps = [p for p in self.f.params if p != self.f.selfname]
        return ps[i]


def _report_table(run, cx, subject, name, got_rows, want_rows, node=None):
    """got_rows: list of list of AST (canonical); want_rows: list of list of str over P-names"""
    try:
        got = [[cx.norm.poly(x) for x in r] for r in got_rows]
    except Unrecognised as e:
        run.error('R16: %s in %s has an entry of unrecognised form (%s)' % (name, subject, e))
        return False
    want = [[Normaliser().poly(parse_expr(x)) for x in r] for r in want_rows]
    bad = compare_tables(got, want)
    if bad is None:
        run.error('R16: %s in %s has shape %dx%d, expected %dx%d' % (name, subject, len(got), len(got[0]) if got else 0,
                                                                      len(want), len(want[0])))
        return False
    if bad:
        for (i, j, g, w) in bad[:4]:
            run.violation(RULE, subject, '%s[%d][%d]' % (name, i, j),
                          'entry (%d,%d) of %s is %s but the definition requires %s' % (i, j, name, g, w), f=cx.f, node=node)
        return False
    run.holds(RULE, subject, name, 'all %d entries agree with the definition' % sum(len(r) for r in want), f=cx.f, node=node)
    return True


def _single_return_value(cx):
    rs = cx.returns()
    if len(rs) != 1:
        return None
    return rs[0][0]


def check_matrix_fn(run, key, name, want_rows, select=None):
    """The (selected) return value of the function is a literal matrix equal to want_rows."""
    cx = Ctx(run, key)
    if select is None:
        r = _single_return_value(cx)
        rets = [r] if r is not None else []
    else:
        rets = cx.ret_where(select[0], select[1])
    if len(rets) != 1:
        run.error('R16: %s: expected exactly one return for table %s, found %d' % (key, name, len(rets)))
        return
    e = cx.c(rets[0].value)
    rows = matrix_literal(e)
    if rows is None:
        run.error('R16: %s: return value for table %s is not a literal matrix: %s' % (key, name, src(e, 60)))
        return
    _report_table(run, cx, key, name, rows, want_rows, node=rets[0])


def check_vector_fn(run, key, name, want, select=None, scale=None):
    cx = Ctx(run, key)
    if select is None:
        r = _single_return_value(cx)
        rets = [r] if r is not None else []
    else:
        rets = cx.ret_where(select[0], select[1])
    if len(rets) != 1:
        run.error('R16: %s: expected exactly one return for %s, found %d' % (key, name, len(rets)))
        return
    e = cx.c(rets[0].value)
    factor = Poly.const(1)
    # allow  <vector> / 2   or  0.5 * <vector>
    if isinstance(e, ast.BinOp) and isinstance(e.op, ast.Div) and vector_literal(e.left) is not None:
        d = cx.norm.poly(e.right).const_value()
        if d:
            factor = Poly.const(1 / d)
            e = e.left
    elif isinstance(e, ast.BinOp) and isinstance(e.op, ast.Mult):
        for a, b in ((e.left, e.right), (e.right, e.left)):
            cv = cx.norm.poly(a).const_value()
            if cv is not None and vector_literal(b) is not None:
                factor = Poly.const(cv)
                e = b
                break
    ents = vector_literal(e)
    if ents is None:
        run.error('R16: %s: return value for %s is not a literal vector: %s' % (key, name, src(e, 60)))
        return
    try:
        got = [[cx.norm.poly(x) * factor for x in ents]]
    except Unrecognised as ex:
        run.error('R16: %s: unrecognised entry in %s (%s)' % (key, name, ex))
        return
    wantp = [[Normaliser().poly(parse_expr(x)) for x in want]]
    bad = compare_tables(got, wantp)
    if bad is None:
        run.error('R16: %s: %s has %d entries, expected %d' % (key, name, len(ents), len(want)))
        return
    if bad:
        for (i, j, g, w) in bad[:4]:
            run.violation(RULE, key, '%s[%d]' % (name, j), 'entry %d of %s is %s but the definition requires %s' % (j, name, g, w),
                          f=cx.f, node=rets[0])
    else:
        run.holds(RULE, key, name, 'all %d entries agree with the definition' % len(want), f=cx.f, node=rets[0])


def check_expr_fn(run, key, name, want, select=None, alts=()):
    """The selected return expression equals `want` (or one of alts) as a polynomial over atoms."""
    cx = Ctx(run, key)
    if select is None:
        r = _single_return_value(cx)
        rets = [r] if r is not None else []
    else:
        rets = cx.ret_where(select[0], select[1])
    if len(rets) != 1:
        run.error('R16: %s: expected exactly one return for %s, found %d' % (key, name, len(rets)))
        return
    try:
        g = cx.poly(rets[0].value)
    except Unrecognised as ex:
        run.error('R16: %s: %s unrecognised (%s)' % (key, name, ex))
        return
    wants = [Normaliser().poly(parse_expr(w)) for w in (want,) + tuple(alts)]
    if any(g == w for w in wants):
        run.holds(RULE, key, name, 'equals %s' % want, f=cx.f, node=rets[0])
    else:
        run.violation(RULE, key, name, '%s is %s but the definition requires %s' % (name, g, wants[0]), f=cx.f, node=rets[0])


def slice_assign_table(cx, var, stmts=None):
    """Collect `var[<slice>] = expr` assignments in the function -> {slice text: canonical expr AST}, plus allocation."""
    tbl = {}
    alloc = None
    for n in own_walk(cx.f.node):
        if isinstance(n, ast.Assign) and len(n.targets) == 1:
            t = n.targets[0]
            if isinstance(t, ast.Name) and t.id == var:
                alloc = n.value
            elif isinstance(t, ast.Subscript) and isinstance(t.value, ast.Name) and t.value.id == var:
                key = cx.norm.slice_str(cx.c(t.slice) if False else t.slice)
                tbl[key] = n.value
    return alloc, tbl


# =========================================================================== C13 tables
def tables_c13(run):
    # T05/T06 skew
    check_matrix_fn(run, 'base/transformsNd:skew', 'skew (n=1)', [['0', '-P0[0]'], ['P0[0]', '0']],
                    select=(['len(P0) == 1'.replace('P0', 'v')], True))
    check_matrix_fn(run, 'base/transformsNd:skew', 'skew (n=3)',
                    [['0', '-P0[2]', 'P0[1]'], ['P0[2]', '0', '-P0[0]'], ['-P0[1]', 'P0[0]', '0']],
                    select=(['len(v) == 3'], True))
    # T07 vex (reader): half the antisymmetric differences; composition with skew = identity
    check_vector_fn(run, 'base/transformsNd:vex', 'vex (3x3)',
                    ['0.5*P0[2, 1] - 0.5*P0[1, 2]', '0.5*P0[0, 2] - 0.5*P0[2, 0]', '0.5*P0[1, 0] - 0.5*P0[0, 1]'],
                    select=(['s.shape == (3, 3)'], True))
    check_vector_fn(run, 'base/transformsNd:vex', 'vex (2x2)', ['0.5*P0[1, 0] - 0.5*P0[0, 1]'],
                    select=(['s.shape == (2, 2)'], True))
    _compose_vex_skew(run)
    # cross product helper
    check_vector_fn(run, 'base/vectors:cross', 'cross', ['P0[1]*P1[2] - P0[2]*P1[1]', 'P0[2]*P1[0] - P0[0]*P1[2]',
                                                         'P0[0]*P1[1] - P0[1]*P1[0]'])
    _skewa_vexa(run)
    _adjoint(run)
    _adjoint2(run)
    _delta(run)


def _compose_vex_skew(run):
    """vex(skew(v)) == v over atoms: substitute the writer's table into the reader's formula."""
    prog = run.prog
    cs = Ctx(run, 'base/transformsNd:skew')
    cv = Ctx(run, 'base/transformsNd:vex')
    for n, sel_s, sel_v in ((3, 'len(v) == 3', 's.shape == (3, 3)'), (1, 'len(v) == 1', 's.shape == (2, 2)')):
        rs = cs.ret_where([sel_s], True)
        rv = cv.ret_where([sel_v], True)
        if len(rs) != 1 or len(rv) != 1:
            run.error('R16: vex/skew composition: branches not found for n=%d' % n)
            continue
        rows = matrix_literal(cs.c(rs[0].value))
        if rows is None:
            run.error('R16: skew n=%d is not a literal matrix' % n)
            continue
        # substitute S[i, j] := skew table entry into vex's entries
        S = cv.pname(0)
        subst = {}
        wr = Normaliser(rename={cs.pname(0): 'V'})
        table = {(i, j): wr.poly(rows[i][j]) for i in range(len(rows)) for j in range(len(rows))}

        class Sub(Normaliser):
            def poly(self2, e):
                if isinstance(e, ast.Subscript) and isinstance(e.value, ast.Name) and e.value.id == S and \
                        isinstance(e.slice, ast.Tuple) and all(isinstance(x, ast.Constant) for x in e.slice.elts):
                    return table[(e.slice.elts[0].value, e.slice.elts[1].value)]
                return Normaliser.poly(self2, e)
        e = cv.c(rv[0].value)
        factor = Poly.const(1)
        if isinstance(e, ast.BinOp) and isinstance(e.op, ast.Div):
            d = Normaliser().poly(e.right).const_value()
            factor = Poly.const(1 / d) if d else factor
            e = e.left
        ents = vector_literal(e)
        if ents is None:
            run.error('R16: vex n=%d is not a literal vector' % n)
            continue
        sub = Sub()
        got = [sub.poly(x) * factor for x in ents]
        want = [Normaliser().poly(parse_expr('V[%d]' % i)) for i in range(n)]
        if got == want:
            run.holds(RULE, 'skew/vex', 'vex(skew(v)) == v (n=%d)' % n, 'writer and reader tables compose to the identity', f=cv.f)
        else:
            run.violation(RULE, 'skew/vex', 'vex(skew(v)) == v (n=%d)' % n,
                          'vex(skew(v)) evaluates over the literal tables to [%s], not to v' % ', '.join(str(g) for g in got), f=cv.f)


def _skewa_vexa(run):
    # T08 skewa: rotation block skew(v[n_t:]), last column v[:n_t], zero last row (fresh zeros)
    cx = Ctx(run, 'base/transformsNd:skewa')
    v = cx.pname(0)
    ok = 0
    for n in own_walk(cx.f.node):
        if isinstance(n, ast.If):
            for dim, nt, N in ((3, 2, 3), (6, 3, 4)):
                if matches('len(%s) == %d' % (v, dim), cx.c(n.test)) is not None:
                    tbl = {}
                    alloc = None
                    for st in n.body:
                        if isinstance(st, ast.Assign) and len(st.targets) == 1:
                            t = st.targets[0]
                            if isinstance(t, ast.Name):
                                alloc = (t.id, cx.c(st.value))
                            elif isinstance(t, ast.Subscript):
                                tbl[cx.norm.slice_str(t.slice)] = cx.norm.poly(cx.c(st.value))
                    want = {':%d, :%d' % (nt, nt): Normaliser().poly(parse_expr('skew(P0[%d:%d])' % (nt, dim) if nt == 3 else 'skew(P0[2])')),
                            ':%d, %d' % (nt, nt): Normaliser().poly(parse_expr('P0[0:%d]' % nt))}
                    name = 'skewa (%d-vector)' % dim
                    if alloc is None or matches('zeros((%d, %d), *_X)' % (N, N), alloc[1]) is None and \
                            matches('zeros((%d, %d), dtype=__)' % (N, N), alloc[1]) is None:
                        run.error('R16: %s: allocation is not a fresh zeros((%d,%d))' % (name, N, N))
                        continue
                    bad = [(k, tbl.get(k), w) for k, w in want.items() if tbl.get(k) != w]
                    extra = [k for k in tbl if k not in want]
                    if bad or extra:
                        for (k, g, w) in bad:
                            run.violation(RULE, cx.f.key, '%s block [%s]' % (name, k), 'block [%s] is %s, the definition requires %s'
                                          % (k, g, w), f=cx.f, node=n)
                        for k in extra:
                            run.violation(RULE, cx.f.key, '%s block [%s]' % (name, k), 'unexpected write into [%s] (last row must stay zero)' % k, f=cx.f, node=n)
                    else:
                        ok += 1
                        run.holds(RULE, cx.f.key, name, 'rotation block = skew of the rotational part, last column = translational part, last row zero', f=cx.f, node=n)
    if ok == 0 and not any(o['subject'] == cx.f.key and o['status'] == 'violation' for o in run.obs):
        run.error('R16: skewa: no branch recognised')
    # T09 vexa = hstack(transl(Omega), vex(t2r(Omega)))
    for shape, tr in (('(4, 4)', 'transl'), ('(3, 3)', 'transl2')):
        check_expr_fn(run, 'base/transformsNd:vexa', 'vexa %s' % shape, 'hstack((%s(P0), vex(t2r(P0), check=P1)))' % tr,
                      select=(['Omega.shape == %s' % shape], True),
                      alts=('hstack((%s(P0), vex(t2r(P0))))' % tr, 'hstack([%s(P0), vex(t2r(P0), check=P1)])' % tr,
                            'r_[%s(P0), vex(t2r(P0), check=P1)]' % tr))


def _blocks(e):
    """np.block([[a, b], [c, d]]) -> rows of AST"""
    if isinstance(e, ast.Call) and isinstance(e.func, ast.Name) and e.func.id == 'block' and e.args:
        return matrix_literal(e.args[0])
    return None


class _NameParts(ast.NodeTransformer):
    """tr2rt(T)[0] / t2r(T) / T[:3, :3] -> R ;  tr2rt(T)[1] / transl(T) / T[:3, 3] -> t ;  zeros((3, 3)) -> Z"""

    whole_is_R = False

    def __init__(self, T):
        self.T = T

    def visit_Name(self, n):
        # under the 3x3 shape test the argument itself is the rotation
        if self.whole_is_R and n.id == self.T and isinstance(n.ctx, ast.Load):
            return ast.Name(id='R', ctx=ast.Load())
        return n

    def visit_Attribute(self, n):
        if isinstance(n.value, ast.Name) and n.value.id == self.T and n.attr in ('dtype', 'shape'):
            return n
        return self.generic_visit(n)

    def visit_Subscript(self, n):
        self.generic_visit(n)
        for pat, nm in (('tr2rt(%s)[0]' % self.T, 'R'), ('tr2rt(%s)[1]' % self.T, 't'), ('%s[:3, :3]' % self.T, 'R'), ('%s[:3, 3]' % self.T, 't')):
            if matches(pat, n) is not None:
                return ast.Name(id=nm, ctx=ast.Load())
        return n

    def visit_Call(self, n):
        self.generic_visit(n)
        for pat, nm in (('t2r(%s)' % self.T, 'R'), ('transl(%s)' % self.T, 't'), ('zeros((3, 3))', 'Z'), ('zeros((3, 3), *_K)', 'Z')):
            if matches(pat, n) is not None:
                return ast.Name(id=nm, ctx=ast.Load())
        if isinstance(n.func, ast.Name) and n.func.id == 'zeros' and n.args and ast.unparse(n.args[0]) in ('(3, 3)', '[3, 3]'):
            return ast.Name(id='Z', ctx=ast.Load())
        return n


def _adjoint(run):
    cx = Ctx(run, 'base/transforms3d:adjoint')
    for shape, want in (('(4, 4)', [['R', 'skew(t) @ R'], ['Z', 'R']]), ('(3, 3)', [['R', 'Z'], ['Z', 'R']])):
        rets = cx.ret_where(['T.shape == %s' % shape], True)
        if len(rets) != 1:
            run.error('R16: adjoint: branch %s not found' % shape)
            continue
        # blocks are compared by role (R, t from tr2rt / T itself; Z zeros): first by the names of the locals ...
        b = _blocks(canon(cx.fi, rets[0].value, inline=False))
        roles = _roles(cx, rets[0], shape) if b is not None else None
        if roles is not None and shape == '(3, 3)':
            roles = dict(roles)
            roles.setdefault(cx.pname(0), 'R')       # under the 3x3 shape test the argument itself is the rotation
        if b is None or roles is None:
            # ... otherwise by evaluating the path and naming the parts of the argument (whatever the temporaries are called)
            ev = [e for (r_, e) in sl_eval(cx) if r_ is rets[0]]
            np_ = _NameParts(cx.pname(0))
            np_.whole_is_R = (shape == '(3, 3)')
            b = _blocks(np_.visit(_copy.deepcopy(ev[0]))) if len(ev) == 1 else None
            roles = {}
            if b is None:
                run.error('R16: adjoint %s: not an np.block literal over R, t and zeros' % shape)
                continue
        nm = Normaliser(rename=roles)
        got = [[nm.poly(x) for x in r] for r in b]
        wantp = [[Normaliser().poly(parse_expr(x)) for x in r] for r in want]
        bad = compare_tables(got, wantp)
        if bad is None:
            run.error('R16: adjoint %s block shape' % shape)
        elif bad:
            for (i, j, g, w) in bad:
                run.violation(RULE, cx.f.key, 'adjoint %s block (%d,%d)' % (shape, i, j), 'block (%d,%d) is %s, the definition '
                              '[[R, skew(t)R],[0, R]] requires %s' % (i, j, g, w), f=cx.f, node=rets[0])
        else:
            run.holds(RULE, cx.f.key, 'adjoint ' + shape, 'blocks agree with [[R, skew(t) R], [0, R]]' if shape == '(4, 4)' else 'blocks agree with [[R,0],[0,R]]', f=cx.f, node=rets[0])
    # tr2jac
    cj = Ctx(run, 'base/transforms3d:tr2jac')
    for sel, pol, want, nm_ in ((['samebody'], True, [['R.T', 'R.T @ skew(t).T'], ['Z', 'R.T']], 'samebody'),
                                (['samebody'], False, [['R.T', 'Z'], ['Z', 'R.T']], 'world')):
        rets = cj.ret_where(sel, pol)
        if len(rets) != 1:
            run.error('R16: tr2jac: %s branch not found' % nm_)
            continue
        b = _blocks(canon(cj.fi, rets[0].value, inline=False))
        roles = _roles(cj, rets[0], '(4, 4)')
        if b is None or roles is None:
            # roles by substitution: evaluate the path symbolically and name the parts of T
            ev = [e for (r_, e) in sl_eval(cj) if r_ is rets[0]]
            b = _blocks(_NameParts(cj.pname(0)).visit(_copy.deepcopy(ev[0]))) if len(ev) == 1 else None
            roles = {}
            if b is None:
                run.error('R16: tr2jac %s: unrecognised' % nm_)
                continue
        nmz = Normaliser(rename=roles)
        got = [[nmz.poly(x) for x in r] for r in b]
        wantp = [[Normaliser().poly(parse_expr(x)) for x in r] for r in want]
        bad = compare_tables(got, wantp)
        if bad:
            for (i, j, g, w) in bad:
                run.violation(RULE, cj.f.key, 'tr2jac %s block (%d,%d)' % (nm_, i, j), 'block (%d,%d) is %s, the definition requires %s' % (i, j, g, w), f=cj.f, node=rets[0])
        elif bad is None:
            run.error('R16: tr2jac %s block shape' % nm_)
        else:
            run.holds(RULE, cj.f.key, 'tr2jac ' + nm_, 'blocks agree with the definition', f=cj.f, node=rets[0])
    # Twist3.ad
    ca = Ctx(run, 'twist:Twist3.ad')
    r = _single_return_value(ca)
    b = _blocks(ca.c(r.value)) if r is not None else None
    if b is None:
        run.error('R16: Twist3.ad is not an np.block literal')
    else:
        nmz = Normaliser(rename={ca.f.selfname: 'S'})
        got = [[nmz.poly(x) for x in r_] for r_ in b]
        wantp = [[Normaliser().poly(parse_expr(x)) for x in r_] for r_ in [['skew(S.w)', 'skew(S.v)'], ['zeros((3, 3))', 'skew(S.w)']]]
        bad = compare_tables(got, wantp)
        if bad:
            for (i, j, g, w) in bad:
                run.violation(RULE, ca.f.key, 'ad block (%d,%d)' % (i, j), 'block (%d,%d) is %s, the definition [[skew(w), skew(v)],[0, skew(w)]] requires %s' % (i, j, g, w), f=ca.f, node=r)
        elif bad is None:
            run.error('R16: Twist3.ad block shape')
        else:
            run.holds(RULE, ca.f.key, 'ad', 'blocks agree with [[skew(w), skew(v)], [0, skew(w)]]', f=ca.f, node=r)


def _adjoint2(run):
    """SE(2) adjoint [[R, (t_y, -t_x)^T], [0, 0, 1]]: the arm guarded by the 3x3 shape must exist and return that block table;
    the arm guarded by the 2x2 shape must not be the same test (each shape selects its own arm)."""
    cx = Ctx(run, 'base/transforms2d:adjoint2')
    T = cx.pname(0)
    from . import r7_binary
    nv = sum(1 for o in run.obs if o['status'] == 'violation')
    r7_binary.check_duplicates(run, cx.f)        # the same shape test twice in the chain leaves one arm unreachable
    if sum(1 for o in run.obs if o['status'] == 'violation') > nv:
        return
    rets3 = cx.ret_where(['%s.shape == (3, 3)' % T], True)
    rets2 = cx.ret_where(['%s.shape == (2, 2)' % T], True)
    if len(rets3) != 1:
        run.error('R16: adjoint2: the arm selected by the 3x3 shape was not found')
        return
    if rets2 and any(r is rets3[0] for r in rets2):
        run.error('R16: adjoint2: one return under both shapes')
        return
    ev = [e for (r_, e) in sl_eval(cx) if r_ is rets3[0]]
    if len(ev) != 1:
        run.error('R16: adjoint2: the SE(2) arm has %d evaluated paths' % len(ev))
        return

    class Parts(ast.NodeTransformer):
        def visit_Subscript(self, n):
            self.generic_visit(n)
            for pat, nm in (('tr2rt(%s)[0]' % T, 'R'), ('tr2rt(%s)[1]' % T, 't'), ('%s[:2, :2]' % T, 'R'), ('%s[:2, 2]' % T, 't'),
                            ('%s[0:2, 0:2]' % T, 'R'), ('%s[0:2, 2]' % T, 't')):
                if matches(pat, n) is not None:
                    return ast.Name(id=nm, ctx=ast.Load())
            for pat, nm in (('%s[0, 2]' % T, 't[0]'), ('%s[1, 2]' % T, 't[1]')):
                if matches(pat, n) is not None:
                    return parse_expr(nm)
            return n

        def visit_Call(self, n):
            self.generic_visit(n)
            for pat, nm in (('t2r(%s)' % T, 'R'), ('transl2(%s)' % T, 't')):
                if matches(pat, n) is not None:
                    return ast.Name(id=nm, ctx=ast.Load())
            return n
    e = Parts().visit(_copy.deepcopy(ev[0]))
    b = None
    if isinstance(e, ast.Call) and isinstance(e.func, ast.Name) and e.func.id == 'block' and e.args and \
            isinstance(e.args[0], (ast.List, ast.Tuple)) and all(isinstance(r, (ast.List, ast.Tuple)) for r in e.args[0].elts):
        b = [list(r.elts) for r in e.args[0].elts]
    if b is None or len(b) != 2 or len(b[0]) != 2:
        run.error('R16: adjoint2: the SE(2) arm is not np.block([[R, column], [last row]])')
        return
    key = cx.f.key
    # block (0,0): the rotation part
    if not (isinstance(b[0][0], ast.Name) and b[0][0].id == 'R'):
        run.violation(RULE, key, 'adjoint2 block (0,0)', 'the rotation block is %s, the SE(2) adjoint [[R, (t_y, -t_x)^T],[0, 0, 1]] has R there'
                      % ast.unparse(b[0][0]), f=cx.f, node=rets3[0])
        return
    # block (0,1): a 2x1 column; recognised spellings give its two entries
    col = None
    for pat in ('c_[_A, _B].T', 'array([[_A], [_B]])', 'array([_A, _B]).reshape(2, 1)', 'array([_A, _B]).reshape(-1, 1)',
                'r_[_A, _B].reshape(2, 1)', 'r_[_A, _B].reshape(-1, 1)', 'array([_A, _B])[:, newaxis]', 'colvec([_A, _B])',
                'colvec(array([_A, _B]))', 'colvec(r_[_A, _B])', 'vstack((_A, _B))', 'vstack([_A, _B])'):
        m = matches(pat, b[0][1])
        if m is not None:
            col = (m['_A'], m['_B'])
            break
    if col is None:
        run.error('R16: adjoint2: the translation column %s is not a recognised 2x1 spelling' % ast.unparse(b[0][1]))
        return
    nm = Normaliser()
    got = [nm.poly(col[0]), nm.poly(col[1])]
    want = [nm.poly(parse_expr('t[1]')), nm.poly(parse_expr('-t[0]'))]
    if got != want:
        run.violation(RULE, key, 'adjoint2 block (0,1)', 'the translation column is (%s, %s); Ad(T) (v, w) = vee(T [S] T^-1) requires (t_y, -t_x)'
                      % (got[0], got[1]), f=cx.f, node=rets3[0])
        return
    # last row: 0 0 1
    last = b[1]
    flat = []
    for x in last:
        m = matches('zeros((1, 2), *_X)', x)
        m2 = matches('zeros(2, *_X)', x)
        if m is not None or m2 is not None:
            flat += [0, 0]
        else:
            cv = nm.poly(x).const_value()
            flat.append(cv if cv is not None else ast.unparse(x))
    if flat != [0, 0, 1]:
        run.violation(RULE, key, 'adjoint2 last row', 'the last row is %s, the SE(2) adjoint has (0, 0, 1)' % (flat,), f=cx.f, node=rets3[0])
        return
    run.holds(RULE, key, 'adjoint2 (3, 3)', 'blocks agree with [[R, (t_y, -t_x)^T], [0, 0, 1]] under the 3x3 shape test', f=cx.f, node=rets3[0])


def _roles(cx, ret, shape):
    """Map local names to roles R (rotation part of the argument), t (translation part), Z (zero block)."""
    T = cx.pname(0)
    roles = {}
    for n in own_walk(cx.f.node):
        if isinstance(n, ast.Assign) and len(n.targets) == 1:
            t = n.targets[0]
            v = canon(cx.fi, n.value, inline=False)
            if isinstance(t, ast.Name):
                if matches('zeros((3, 3), *_X)', v) is not None or matches('zeros((3, 3), dtype=__)', v) is not None:
                    roles[t.id] = 'Z'
                elif matches('t2r(%s)' % T, v) is not None:
                    roles[t.id] = 'R'
                elif matches(T, v) is not None and shape == '(3, 3)':
                    roles[t.id] = 'R'
            elif isinstance(t, (ast.Tuple, ast.List)) and len(t.elts) == 2 and matches('tr2rt(%s)' % T, v) is not None:
                roles[t.elts[0].id] = 'R'
                roles[t.elts[1].id] = 't'
    # only assignments that reach the return matter: approximate by requiring the names used in the return to be mapped
    used = {y.id for y in ast.walk(ret.value) if isinstance(y, ast.Name)}
    need = {u for u in used if u not in ('np', 'base') and u != T}
    if shape == '(3, 3)':
        # in the 3x3 branch R must be the argument itself
        from ..cfg import reaching_defs
        IN, OUT = reaching_defs(cx.cfg, cx.f.allparams)
        node = cx.cfg.node_of(ret)
        for u in need:
            defs = [d for (nm, d) in IN.get(node.id, ()) if nm == u]
            for d in defs:
                a = cx.cfg.nodes[d].ast
                if isinstance(a, ast.Assign) and isinstance(a.targets[0], ast.Name) and a.targets[0].id == u:
                    v = canon(cx.fi, a.value, inline=False)
                    if matches(T, v) is not None:
                        roles[u] = 'R'
    if not need <= set(roles):
        return None
    return roles


def _delta(run):
    """T32: tr2delta(T0, T1) = [transl(Td), vex(t2r(Td) - I)] with Td = T0^-1 T1 (group word), delta2tr = I + skewa(d)."""
    from .words import group_word
    cx = Ctx(run, 'base/transforms3d:tr2delta')
    T0, T1 = cx.pname(0), cx.pname(1)
    rets = cx.returns()
    for r, fs in rets:
        two = any((not fc[1]) and matches('%s is None' % T1, fc[2].ast) is not None for fc in fs)
        one = any(fc[1] and matches('%s is None' % T1, fc[2].ast) is not None for fc in fs)
        e = canon(cx.fi, r.value)
        ents = vector_literal(e)
        if ents is not None and len(ents) == 4 and all(isinstance(z, ast.Constant) and z.value == 0 for z in ents[1:]):
            # a translation-only arm (equal rotations): the displacement expressed in the T0 frame is R0^T (t1 - t0)
            tr = ents[0]
            good = any(matches(p_ % dict(a=T0, b=T1), tr) is not None for p_ in (
                '%(a)s[:3, :3].T @ (%(b)s[:3, 3] - %(a)s[:3, 3])', 't2r(%(a)s).T @ (transl(%(b)s) - transl(%(a)s))',
                '%(b)s[:3, :3].T @ (%(b)s[:3, 3] - %(a)s[:3, 3])', 't2r(%(b)s).T @ (transl(%(b)s) - transl(%(a)s))'))
            near = any(matches(p_ % dict(a=T0, b=T1), tr) is not None for p_ in (
                '%(a)s[:3, :3] @ (%(b)s[:3, 3] - %(a)s[:3, 3])', 't2r(%(a)s) @ (transl(%(b)s) - transl(%(a)s))',
                '%(b)s[:3, :3] @ (%(b)s[:3, 3] - %(a)s[:3, 3])', '%(a)s[:3, :3].T @ (%(a)s[:3, 3] - %(b)s[:3, 3])',
                '%(b)s[:3, 3] - %(a)s[:3, 3]', 'transl(%(b)s) - transl(%(a)s)'))
            if good:
                run.holds(RULE, cx.f.key, 'tr2delta translation-only arm', 'displacement R0^T (t1 - t0), rotation increment zero', f=cx.f, node=r)
            elif near:
                run.violation(RULE, cx.f.key, 'tr2delta translation-only arm', 'the displacement of the arm is %s; the translation of T0^-1 T1 is '
                              'R0^T (t1 - t0): the difference of the origins must be rotated INTO the T0 frame (transpose), in that order' % src(tr, 60),
                              f=cx.f, node=r)
            else:
                run.error('R16: tr2delta: translation-only arm with an unrecognised displacement (%s)' % src(tr, 60))
            continue
        if ents is None or len(ents) != 2:
            run.error('R16: tr2delta: return is not r_[translation, rotation] (%s)' % src(e, 60))
            continue
        tr, rot = ents
        # rotational part: vex(<Rd> - eye(3)), translational: transl(<Td>) or an explicit vector
        b = matches('vex(_RD - eye(3))', rot) or matches('vex(_RD - eye(3), *_X)', rot)
        if b is None:
            run.error('R16: tr2delta: rotational part is not vex(Rd - eye(3)): %s' % src(rot, 50))
            continue
        cases = []
        if two or not (one or two):
            cases.append(('two-argument', [(T0, -1), (T1, 1)]))
        if one or not (one or two):
            cases.append(('one-argument', [(T0, 1)]))
        for label, want in cases:
            # when the return is shared by both call forms, Td is a local with two reaching definitions: analyse per def
            words = group_word(cx, b['_RD'], r, rotation=True, assume={T1: None} if label == 'one-argument' else {})
            if words is None:
                run.error('R16: tr2delta %s: rotation increment has no recognisable group-word form: %s' % (label, src(b['_RD'], 50)))
                continue
            ok = [w for w in words if w == want]
            wrong = [w for w in words if w != want]
            construct = 'tr2delta %s rotation word' % label
            if two and not one and label == 'one-argument':
                continue
            if one and not two and label == 'two-argument':
                continue
            if wrong and not (one or two):
                # shared return: words of both forms appear; accept iff the set equals the two expected words
                allw = {tuple(w) for w in words}
                if allw == {((T0, -1), (T1, 1)), ((T0, 1),)}:
                    run.holds(RULE, cx.f.key, 'tr2delta rotation words', 'Td = T0^-1 T1 (two arguments) or T0 (one argument)', f=cx.f, node=r)
                else:
                    run.violation(RULE, cx.f.key, 'tr2delta rotation words', 'the rotation increment is formed from %s; the definition '
                                  'requires T0^-1 * T1 (and T0 alone for one argument)' % _wfmt(words), f=cx.f, node=r)
                break
            if wrong:
                run.violation(RULE, cx.f.key, construct, 'the rotation increment is the group word %s but the definition requires %s '
                              '(the increment expressed in the T0 frame)' % (_wfmt(wrong), _wfmt([want])), f=cx.f, node=r)
            else:
                run.holds(RULE, cx.f.key, construct, 'rotation increment is %s' % _wfmt([want]), f=cx.f, node=r)
    check_expr_fn(run, 'base/transforms3d:delta2tr', 'delta2tr', 'eye(4, 4) + skewa(P0)', alts=('eye(4) + skewa(P0)',))


def _wfmt(words):
    return ' | '.join(' * '.join('%s%s' % (n, '^-1' if p < 0 else '') for (n, p) in w) for w in words)


# =========================================================================== C12 tables
def check_quaternion_explog(run, rule='R16'):
    """Quaternion.exp / Quaternion.log against their closed forms, on every return path:
         exp(s, v) = e^s (cos|v|, v/|v| sin|v|)          log(q) = (ln|q|, acos(s/|q|) unitvec(v))
    A return through the NORMALISING constructor UnitQuaternion(s=, v=) rescales the value to norm 1: it equals the closed form only
    where e^s = 1, i.e. only under a test that the scalar part of the OPERAND is zero (abs(self.s) < tol)."""
    for key, want_s, want_v in (('quaternion:Quaternion.exp', 'exp(SELF.s) * cos(norm(SELF.v))', 'exp(SELF.s) * SELF.v / norm(SELF.v) * sin(norm(SELF.v))'),
                                ('quaternion:Quaternion.log', 'log(SELF.norm())', 'acos(SELF.s / SELF.norm()) * unitvec(SELF.v)')):
        f = run.prog.functions.get(key)
        if f is None:
            run.error('R16: %s not found in the current source' % key)
            continue
        cx = Ctx(run, key)
        nm = Normaliser(rename=cx.rename)
        ws, wv = Normaliser().poly(parse_expr(want_s)), Normaliser().poly(parse_expr(want_v))
        rets = sl_eval(cx, with_conds=True)
        if not rets:
            run.error('R16: %s: no return evaluated' % key)
        for (r, e, conds) in rets:
            b = None
            ctor = None
            for cname_ in ('Quaternion', 'UnitQuaternion'):
                b = matches('%s(s=_S, v=_V)' % cname_, e) or matches('%s(_S, _V)' % cname_, e)
                if b is not None:
                    ctor = cname_
                    break
            if b is None:
                run.error('R16: %s: return %s is not Quaternion(s=.., v=..)' % (key, src(r.value, 50)))
                continue
            gs, gv = nm.poly(b['_S']), nm.poly(b['_V'])
            what = key.split('.')[-1]
            if gs == ws and gv == wv:
                run.holds(rule, key, '%s closed form (%s)' % (what, ctor), 'scalar and vector part agree with the definition', f=f, node=r)
            else:
                run.violation(rule, key, '%s closed form (%s)' % (what, ctor), 'the result is (%s, %s); the definition is (%s, %s)' % (gs, gv, ws, wv), f=f, node=r)
            if ctor == 'UnitQuaternion':
                s_ = f.selfname
                guarded = any(pol and (matches('abs(%s.s) < _T' % s_, c) is not None or matches('%s.s == 0' % s_, c) is not None) for (c, pol) in conds)
                construct = '%s: normalising return' % what
                if guarded:
                    run.holds(rule, key, construct, 'UnitQuaternion(..) is returned only where the scalar part of the operand is (numerically) zero', f=f, node=r)
                else:
                    tests = [src(c, 30) for (c, pol) in conds if pol]
                    run.violation(rule, key, construct, 'the value is returned through the normalising constructor UnitQuaternion(s=, v=), which rescales it '
                                  'to norm 1 and so drops the factor e^s, but the path is not guarded by a test that the scalar part of the OPERAND '
                                  '(%s.s) is zero%s: for a quaternion with s != 0 whose result happens to pass the test, exp(q) is wrong and '
                                  'log(exp(q)) != q' % (s_, (' (tested: %s)' % ', '.join(tests)) if tests else ''), f=f, node=r)


def tables_c12(run):
    check_quaternion_explog(run)
    Q = ['P0[0]', 'P0[1]', 'P0[2]', 'P0[3]']
    s, x, y, z = Q
    check_matrix_fn(run, 'base/quaternions:matrix', 'matrix(q)',
                    [[s, '-' + x, '-' + y, '-' + z], [x, s, '-' + z, y], [y, z, s, '-' + x], [z, '-' + y, x, s]])
    check_vector_fn(run, 'base/quaternions:conj', 'conj', ['P0[0]', '-P0[1:4]'])
    check_vector_fn(run, 'base/quaternions:qqmul', 'qqmul',
                    ['P0[0]*P1[0] - dot(P0[1:4], P1[1:4])', 'P0[0]*P1[1:4] + P1[0]*P0[1:4] + cross(P0[1:4], P1[1:4])'])
    check_expr_fn(run, 'base/quaternions:qvmul', 'qvmul sandwich', 'qqmul(P0, qqmul(pure(P1), conj(P0)))[1:4]',
                  alts=('qqmul(qqmul(P0, pure(P1)), conj(P0))[1:4]',))
    check_vector_fn(run, 'base/quaternions:pure', 'pure', ['0', 'P0'])
    # minimal vector form: v(a) v(b) = a x b + s_a b + s_b a with s_x = sqrt(1 - |x|^2) -- the vector part of the full product
    # of (s_a, a) and (s_b, b); the scalar parts are recomputed from the vector parts
    sa, sb = 'sqrt(1 - sum(P0**2))', 'sqrt(1 - sum(P1**2))'
    check_vector_fn(run, 'base/quaternions:vvmul', 'vvmul (minimal vector form of the product)',
                    ['P0[1]*P1[2] - P0[2]*P1[1] + %s*P1[0] + %s*P0[0]' % (sa, sb),
                     'P0[2]*P1[0] - P0[0]*P1[2] + %s*P1[1] + %s*P0[1]' % (sa, sb),
                     'P0[0]*P1[1] - P0[1]*P1[0] + %s*P1[2] + %s*P0[2]' % (sa, sb)])
    check_expr_fn(run, 'base/quaternions:inner', 'inner', 'dot(P0, P1)')
    check_vector_fn(run, 'base/quaternions:dot', 'dot (world frame rate)',
                    ['-0.5*dot(P0[1:4], P1)', '0.5*((P0[0]*eye(3, 3) - skew(P0[1:4])) @ P1)'])
    check_vector_fn(run, 'base/quaternions:dotb', 'dotb (body frame rate)',
                    ['-0.5*dot(P0[1:4], P1)', '0.5*((P0[0]*eye(3, 3) + skew(P0[1:4])) @ P1)'])
    check_matrix_fn(run, 'base/quaternions:q2r', 'q2r',
                    [['1 - 2*(%s**2 + %s**2)' % (y, z), '2*(%s*%s - %s*%s)' % (x, y, s, z), '2*(%s*%s + %s*%s)' % (x, z, s, y)],
                     ['2*(%s*%s + %s*%s)' % (x, y, s, z), '1 - 2*(%s**2 + %s**2)' % (x, z), '2*(%s*%s - %s*%s)' % (y, z, s, x)],
                     ['2*(%s*%s - %s*%s)' % (x, z, s, y), '2*(%s*%s + %s*%s)' % (y, z, s, x), '1 - 2*(%s**2 + %s**2)' % (x, y)]])
    check_vector_fn(run, 'base/quaternions:v2q', 'v2q', ['sqrt(1 - sum(P0**2))', 'P0'])
    check_expr_fn(run, 'base/quaternions:q2v', 'q2v (non-negative scalar part)', 'P0[1:4]', select=(['q[0] >= 0'], True))
    check_expr_fn(run, 'base/quaternions:q2v', 'q2v (negative scalar part)', '-P0[1:4]', select=(['q[0] >= 0'], False))
    check_expr_fn(run, 'base/quaternions:qnorm', 'qnorm', 'norm(P0)')
    _qpow(run)
    _dualquat(run)


def _qpow(run):
    """R15: qpow folds |power| Hamilton products from the identity and conjugates for a negative exponent."""
    cx = Ctx(run, 'base/quaternions:qpow')
    f = cx.f
    q, power = cx.pname(0), cx.pname(1)
    loops = [n for n in own_walk(f.node) if isinstance(n, (ast.For, ast.While))]
    subj = f.key
    if len(loops) != 1:
        run.error('R15: qpow: expected exactly one loop, found %d' % len(loops))
        return
    lp = loops[0]
    acc = None
    if isinstance(lp, ast.For):
        it = cx.c(lp.iter)
        ok_range = matches('range(0, abs(%s))' % power, it) is not None or matches('range(abs(%s))' % power, it) is not None
        body = [s for s in lp.body if not isinstance(s, ast.Pass)]
        ok_body = False
        if len(body) == 1 and isinstance(body[0], ast.Assign) and isinstance(body[0].targets[0], ast.Name):
            acc = body[0].targets[0].id
            v = cx.c(body[0].value)
            if matches('qqmul(%s, %s)' % (acc, q), v) is not None or matches('qqmul(%s, %s)' % (q, acc), v) is not None:
                ok_body = True
        if ok_range and ok_body:
            run.holds('R15', subj, 'fold', 'linear fold: |power| products qr = qqmul(qr, q)', f=f, node=lp)
        elif not ok_range:
            run.violation('R15', subj, 'fold range', 'the fold does not run abs(power) times: %s' % src(lp.iter, 40), f=f, node=lp)
        else:
            run.violation('R15', subj, 'fold step', 'the fold step is not qr = qqmul(qr, q): %s' % src(body[0] if body else lp, 50), f=f, node=lp)
    else:
        # square-and-multiply: while n > 0: if n & 1: qr = qqmul(qr, qs); qs = qqmul(qs, qs); n >>= 1
        body = lp.body
        mult = sq = shift = None
        for st in body:
            if isinstance(st, ast.If) and matches('_N & 1', cx.c(st.test)) is not None and len(st.body) == 1 \
                    and isinstance(st.body[0], ast.Assign):
                mult = st.body[0]
            elif isinstance(st, ast.Assign) and isinstance(st.value, ast.Call):
                sq = st
            elif isinstance(st, ast.AugAssign) and isinstance(st.op, ast.RShift):
                shift = st
        if mult is None or sq is None or shift is None:
            run.error('R15: qpow: loop is neither the linear fold nor square-and-multiply')
            return
        acc = mult.targets[0].id
        base_ = sq.targets[0].id
        okm = matches('qqmul(%s, %s)' % (acc, base_), canon(cx.fi, mult.value, inline=False)) is not None or \
            matches('qqmul(%s, %s)' % (base_, acc), canon(cx.fi, mult.value, inline=False)) is not None
        oks = matches('qqmul(%s, %s)' % (base_, base_), canon(cx.fi, sq.value, inline=False)) is not None
        if okm and oks:
            run.holds('R15', subj, 'fold', 'square-and-multiply: qr *= qs on set bits, qs = qs*qs each step', f=f, node=lp)
        elif not oks:
            run.violation('R15', subj, 'fold squaring step', 'square-and-multiply: the per-bit factor must be squared '
                          '(%s = qqmul(%s, %s)) but the code has %s: exponents above 3 give the wrong power'
                          % (base_, base_, base_, src(sq, 50)), f=f, node=sq)
        else:
            run.violation('R15', subj, 'fold multiply step', 'accumulator update is not qqmul(%s, %s)' % (acc, base_), f=f, node=mult)
    # accumulator starts at the identity, negative exponent conjugates
    start_ok = False
    conj_ok = False
    for n in own_walk(f.node):
        if isinstance(n, ast.Assign) and isinstance(n.targets[0], ast.Name) and acc and n.targets[0].id == acc and \
                matches('eye()', cx.c(n.value)) is not None:
            start_ok = True
        if isinstance(n, ast.If) and matches('%s < 0' % power, n.test) is not None:
            for st in n.body:
                if isinstance(st, (ast.Assign, ast.Return)) and st.value is not None and matches('conj(%s)' % acc, cx.c(st.value)) is not None:
                    conj_ok = True
    (run.holds if start_ok else run.violation)('R15', subj, 'fold start', 'accumulator starts at the identity quaternion' if start_ok
                                               else 'accumulator does not start at eye(): q**0 is not the identity', f=f)
    (run.holds if conj_ok else run.violation)('R15', subj, 'negative exponent', 'negative power conjugates the result' if conj_ok
                                              else 'no conjugation under power < 0', f=f)


def _dualquat(run):
    nc = dict(noncomm=True)
    cx = Ctx(run, 'DualQuaternion:DualQuaternion.__mul__')
    f = cx.f
    L, R = cx.pname(0) if f.selfname is None else f.params[0], f.params[1]
    vals = {}
    for n in own_walk(f.node):
        if isinstance(n, ast.Assign) and isinstance(n.targets[0], ast.Name) and n.targets[0].id in ('real', 'dual'):
            vals[n.targets[0].id] = n.value
    nm = Normaliser(rename={f.params[0]: 'L', f.params[1]: 'R'}, noncomm=True)
    want = {'real': 'L.real * R.real', 'dual': 'L.real * R.dual + L.dual * R.real'}
    for k, w in want.items():
        if k not in vals:
            run.error('R16: DualQuaternion.__mul__: no assignment to %s' % k)
            continue
        g = nm.poly(canon(cx.fi, vals[k], inline=False))
        wp = Normaliser(noncomm=True).poly(parse_expr(w))
        if g == wp:
            run.holds(RULE, f.key, 'dual product ' + k, '%s = %s (operand order kept)' % (k, w), f=f)
        else:
            run.violation(RULE, f.key, 'dual product ' + k, '%s part is %s but the dual-number product requires %s' % (k, g, wp), f=f)
    # matrix: [[R, 0], [D, R]]
    cm = Ctx(run, 'DualQuaternion:DualQuaternion.matrix')
    r = _single_return_value(cm)
    b = _blocks(cm.c(r.value)) if r is not None else None
    if b is None:
        run.error('R16: DualQuaternion.matrix is not an np.block literal')
    else:
        nmz = Normaliser(rename={cm.f.selfname: 'S'})
        got = [[nmz.poly(x) for x in r_] for r_ in b]
        wantp = [[Normaliser().poly(parse_expr(x)) for x in r_] for r_ in [['S.real.matrix', 'zeros((4, 4))'], ['S.dual.matrix', 'S.real.matrix']]]
        bad = compare_tables(got, wantp)
        if bad:
            for (i, j, g, w) in bad:
                run.violation(RULE, cm.f.key, 'matrix block (%d,%d)' % (i, j), 'block is %s, [[R, 0], [D, R]] requires %s' % (g, w), f=cm.f, node=r)
        elif bad is None:
            run.error('R16: DualQuaternion.matrix block shape')
        else:
            run.holds(RULE, cm.f.key, '8x8 matrix', 'blocks agree with [[R, 0], [D, R]]', f=cm.f, node=r)
    for key, want_, nm_ in (('DualQuaternion:DualQuaternion.conj', 'DualQuaternion(SELF.real.conj(), SELF.dual.conj())', 'conj'),
                            ('DualQuaternion:DualQuaternion.vec', 'r_[SELF.real.vec, SELF.dual.vec]', 'vec'),
                            # the dual-number extension is component-wise for + and -: (a + eps b) +/- (c + eps d) = (a +/- c) + eps (b +/- d)
                            ('DualQuaternion:DualQuaternion.__add__', 'DualQuaternion(SELF.real + P0.real, SELF.dual + P0.dual)', 'sum'),
                            ('DualQuaternion:DualQuaternion.__sub__', 'DualQuaternion(SELF.real - P0.real, SELF.dual - P0.dual)', 'difference')):
        check_expr_fn(run, key, nm_, want_)
    # norm: the dual-number square root of a + eps b with a = real*conj(real), b = real*conj(dual) + dual*conj(real):
    #        (sqrt(a.s), b.s / (2 sqrt(a.s)))      -- evaluated on the return with every local in place, whatever the locals are called
    cn = Ctx(run, 'DualQuaternion:DualQuaternion.norm')
    nmn = Normaliser(rename={cn.f.selfname: 'S'}, noncomm=True)
    wa = Normaliser(noncomm=True).poly(parse_expr('S.real * S.real.conj()'))
    wb = Normaliser(noncomm=True).poly(parse_expr('S.real * S.dual.conj() + S.dual * S.real.conj()'))
    rets = sl_eval(cn)
    if len(rets) != 1:
        run.error('R16: DualQuaternion.norm: expected a single return')
    else:
        r, e = rets[0]
        if not (isinstance(e, ast.Tuple) and len(e.elts) == 2):
            run.error('R16: DualQuaternion.norm does not return a 2-tuple')
        else:
            ba = matches('sqrt(_A.s)', e.elts[0])
            a_ok = ba is not None and nmn.poly(ba['_A']) == wa
            (run.holds if a_ok else run.violation)(RULE, cn.f.key, 'norm: real part', 'sqrt of the scalar part of q conj(q)' if a_ok else
                                                   'the real part of the norm is %s, not sqrt((real * real.conj()).s)' % src(e.elts[0], 50), f=cn.f, node=r)
            bd = matches('_B.s / (2 * sqrt(_A.s))', e.elts[1])
            bs = matches('sqrt(_B.s)', e.elts[1])
            if bd is not None:
                b_ok = nmn.poly(bd['_B']) == wb and nmn.poly(bd['_A']) == wa
                if b_ok:
                    run.holds(RULE, cn.f.key, 'norm terms', 'a = q conj(q), b = q conj(d) + d conj(q)', f=cn.f)
                    run.holds(RULE, cn.f.key, 'norm: dual part', 'b / (2 sqrt(a)): dual-number square root', f=cn.f, node=r)
                else:
                    run.violation(RULE, cn.f.key, 'norm terms', 'dual-quaternion norm terms are %s and %s; the definition requires %s and %s'
                                  % (nmn.poly(bd['_A']), nmn.poly(bd['_B']), wa, wb), f=cn.f)
            elif bs is not None:
                run.violation(RULE, cn.f.key, 'norm: dual part', 'the dual part is sqrt(b); the square root of the dual number a + eps b is sqrt(a) + eps b/(2 sqrt(a)). '
                              'For a unit dual quaternion b is 0 up to rounding, so sqrt(b) raises a math domain error whenever the rounding error is negative', f=cn.f, node=r)
            else:
                run.error('R16: DualQuaternion.norm: dual part %s has an unrecognised form' % src(e.elts[1], 40))


# --------------------------------------------------------------------------- routing (R15 / R13)
WRONG_FORMS = {
    # near-misses that are definitely wrong, by description keyword -> [(pattern, message)]
    'composition multiplies left then right': [
        ('left.__class__(left._op2(right, lambda x, y: y @ x), check=False)', 'the composition lambda multiplies right @ left: operands are composed in reverse order'),
        ('left.__class__(right._op2(left, lambda x, y: x @ y), check=False)', 'operands are handed to the helper in reverse order')],
    'division composes with the inverse of the right operand': [
        ('left.__class__(left._op2(right, lambda x, y: x @ y), check=False)', 'division composes with the right operand itself, not with its inverse'),
        ('left.__class__(left._op2(right.inv(), lambda x, y: y @ x), check=False)', 'X / Y is computed as Y^-1 X instead of X Y^-1'),
        ('left.__class__(left.inv()._op2(right, lambda x, y: x @ y), check=False)', 'the LEFT operand is inverted')],
    'q1 / q2 = q1 * conj(q2)': [
        ('UnitQuaternion(left.binop(right, lambda x, y: qqmul(conj(x), y)))', 'the left operand is conjugated instead of the right one'),
        ('UnitQuaternion(left.binop(right, lambda x, y: qqmul(x, y)))', 'the right operand is not conjugated: this is the product, not the quotient'),
        ('UnitQuaternion(left.binop(right, lambda x, y: qqmul(conj(y), x)))', 'conj(y) multiplies on the left: q2^-1 q1 instead of q1 q2^-1')],
    'minimal vector form of the value': [('self._A[1:4]', 'the vector part is returned without the sign choice of q2v: q and -q (the same rotation) get different minimal forms, and Vec3(q.vec3) is -q'),
                                         ('self.v', 'the vector part is returned without the sign choice of q2v: q and -q (the same rotation) get different minimal forms'),
                                         ('self.vec[1:4]', 'the vector part is returned without the sign choice of q2v')],
    'product in minimal vector form': [('vvmul(qv2, qv1)', 'the operands are exchanged: the quaternion product does not commute')],
    'rate (world)': [('dotb(self._A, omega)', 'the body-frame rate is returned for the world-frame method'), ('dot(omega, self._A)', 'quaternion and angular velocity are exchanged')],
    'rate (body)': [('dot(self._A, omega)', 'the world-frame rate is returned for the body-frame method'), ('dotb(omega, self._A)', 'quaternion and angular velocity are exchanged')],
    'sum is component-wise through binop': [('Quaternion(left.binop(right, lambda x, y: x - y))', 'the sum subtracts the components'),
                                            ('Quaternion(left.binop(right, lambda x, y: x * y))', 'the sum multiplies the components')],
    'difference is component-wise through binop': [('Quaternion(left.binop(right, lambda x, y: y - x))', 'the difference is right - left'),
                                                   ('Quaternion(right.binop(left, lambda x, y: x - y))', 'the difference is right - left'),
                                                   ('Quaternion(left.binop(right, lambda x, y: x + y))', 'the difference adds the components')],
    'twist unit through unittwist / unittwist2': [('self.__class__(self)', 'the twist is returned unscaled on this path: isunit tests the length of the WHOLE coordinate vector, a unit twist has a unit rotational part (or, if irrotational, a unit translational part)'),
                                                  ('self', 'the twist itself is returned unscaled on this path'),
                                                  ('self.__class__(self.S)', 'the twist is returned unscaled on this path')],
    'twist inverse is negation': [('self.__class__([t for t in self.data])', 'inverse returns the twist itself')],
    'twist of a pose is its logarithm': [('Twist3(self.log())', 'the twist=True option is not passed to log(): the matrix logarithm is handed to the twist constructor'),
                                         ('Twist2(self.log())', 'the twist=True option is not passed to log(): the matrix logarithm is handed to the twist constructor'),
                                         ('Twist3(self.log(twist=False))', 'log(twist=False) returns the matrix, not the twist vector'),
                                         ('Twist2(self.log(twist=False))', 'log(twist=False) returns the matrix, not the twist vector')],
    'twist of a pose': [('Twist3(self.log())', 'the twist=True option is not passed to log()'), ('Twist2(self.log())', 'the twist=True option is not passed to log()')],
    # interpolation routes: start and end exchanged (s=0 then gives the end pose), or the interpolation variable dropped
    '2D vector s -> trinterp2 per s': [('self.__class__([trinterp2(self.A, start, s=_s) for _s in s])', 'start and end pose are exchanged: s = 0 gives the end pose')],
    '2D sequence -> trinterp2 per element': [('self.__class__([trinterp2(x, start, s=s[0]) for x in self.data])', 'start and end pose are exchanged: s = 0 gives the end pose')],
    '3D vector s -> trinterp per s': [('self.__class__([trinterp(self.A, start, s=_s) for _s in s])', 'start and end pose are exchanged: s = 0 gives the end pose')],
    '3D sequence -> trinterp per element': [('self.__class__([trinterp(x, start, s=s[0]) for x in self.data])', 'start and end pose are exchanged: s = 0 gives the end pose')],
    'rotational twist about x': [('cls([r_[_A, _B, _C, _D, _E, _F] for _X in getunit(getvector(theta), unit)])', 'the twist vector is not [0, 0, 0, theta, 0, 0]'),
                                 ('cls([r_[0, 0, 0, _X, 0, 0] for _X in _IT])', 'the angles are not getunit(getvector(theta), unit)')],
    'rotational twist about y': [('cls([r_[_A, _B, _C, _D, _E, _F] for _X in getunit(getvector(theta), unit)])', 'the twist vector is not [0, 0, 0, 0, theta, 0]'),
                                 ('cls([r_[0, 0, 0, 0, _X, 0] for _X in _IT])', 'the angles are not getunit(getvector(theta), unit)')],
    'rotational twist about z': [('cls([r_[_A, _B, _C, _D, _E, _F] for _X in getunit(getvector(theta), unit)])', 'the twist vector is not [0, 0, 0, 0, 0, theta]'),
                                 ('cls([r_[0, 0, 0, 0, 0, _X] for _X in _IT])', 'the angles are not getunit(getvector(theta), unit)')],
    '3D logarithm of every element with the twist option': [('[trlog(x) for x in self.data]', 'the twist option is not passed to trlog: log(twist=True) returns matrices')],
    '2D logarithm of every element with the twist option': [('[trlog2(x) for x in self.data]', 'the twist option is not passed to trlog2: log(twist=True) returns matrices')],
}


def check_routes(run, routes, rule='R15'):
    """routes: list of (function key, description, [accepted canonical patterns], where).
    where = 'return': every value return matches one accepted pattern; 'any': some expression in the body does.
    A recognised near-miss (WRONG_FORMS) is a VIOLATION; any other shape is an ANALYSIS-ERROR (unrecognised form)."""
    for key, desc, pats, where in routes:
        f = run.prog.func(key)
        fi = FuncInfo.of(f)
        wrong = WRONG_FORMS.get(desc, [])
        exprs = []
        if where == 'return':
            exprs = [(r, canon(fi, r.value)) for r in own_returns(f.node) if r.value is not None]
            bad = [(r, e) for (r, e) in exprs if not any(matches(p, e) is not None for p in pats)]
            if not exprs:
                run.error('%s: %s has no value return' % (rule, key))
                continue
            if not bad:
                run.holds(rule, key, desc, 'every return has the form %s' % pats[0], f=f)
                continue
            r, e = bad[0]
            hit = [m for (p, m) in wrong if matches(p, e) is not None]
            if hit:
                run.violation(rule, key, desc, hit[0] + ': ' + src(r.value, 70), f=f, node=r)
            elif key in ('pose3d:SE3.inv', 'pose2d:SE2.inv') and check_batched_inverse(run, key, 3 if key.startswith('pose3d') else 2, rule=rule) is not None:
                pass
            else:
                run.error('%s: %s: return %s has none of the recognised forms for "%s" (%s)' % (rule, key, src(r.value, 70), desc, pats[0]))
        else:
            found = False
            hit = None
            for n in own_walk(f.node):
                if isinstance(n, (ast.Call, ast.Attribute, ast.BinOp, ast.ListComp)):
                    try:
                        e = canon(fi, n)
                    except Exception:
                        continue
                    if any(matches(p, e) is not None for p in pats):
                        found = True
                        break
                    for (p, m) in wrong:
                        if matches(p, e) is not None:
                            hit = (m, n)
            if found:
                run.holds(rule, key, desc, 'contains %s' % pats[0], f=f)
            elif hit:
                run.violation(rule, key, desc, hit[0] + ': ' + src(hit[1], 70), f=f, node=hit[1])
            else:
                run.error('%s: %s: no expression of a recognised form for "%s" (%s)' % (rule, key, desc, pats[0]))


ROUTES_C12 = [
    ('quaternion:Quaternion.__mul__', 'Quaternion * Quaternion -> qqmul through binop', ['Quaternion(left.binop(right, qqmul))'], 'any'),
    ('quaternion:UnitQuaternion.__mul__', 'UnitQuaternion * UnitQuaternion -> qqmul through binop', ['right.__class__(left.binop(right, qqmul))'], 'any'),
    ('quaternion:UnitQuaternion.__truediv__', 'q1 / q2 = q1 * conj(q2)', ['UnitQuaternion(left.binop(right, lambda x, y: qqmul(x, conj(y))))'], 'any'),
    ('quaternion:Quaternion.__add__', 'sum is component-wise through binop', ['Quaternion(left.binop(right, lambda x, y: x + y))', 'Quaternion(left.binop(right, add))'], 'any'),
    ('quaternion:Quaternion.__sub__', 'difference is component-wise through binop', ['Quaternion(left.binop(right, lambda x, y: x - y))', 'Quaternion(left.binop(right, sub))', 'Quaternion(left.binop(right, subtract))'], 'any'),
    ('quaternion:Quaternion.__pow__', 'power through qpow on every element', ['self.__class__([qpow(q._A, n) for q in self])'], 'return'),
    ('quaternion:Quaternion.conj', 'conjugate of every element', ['self.__class__([conj(q._A) for q in self])'], 'return'),
    ('quaternion:Quaternion.inner', 'inner product through binop', ['self.binop(other, inner, list1=False)'], 'return'),
    ('quaternion:UnitQuaternion.inv', 'inverse of a unit quaternion is its conjugate', ['UnitQuaternion([conj(q._A) for q in self])'], 'return'),
    ('quaternion:Quaternion.matrix', 'matrix form', ['matrix(self._A)'], 'return'),
    ('quaternion:UnitQuaternion.dot', 'rate (world)', ['dot(self._A, omega)'], 'return'),
    ('quaternion:UnitQuaternion.dotb', 'rate (body)', ['dotb(self._A, omega)'], 'return'),
    ('quaternion:UnitQuaternion.vec3', 'minimal vector form of the value', ['q2v(self._A)'], 'return'),
    ('quaternion:UnitQuaternion.qvmul', 'product in minimal vector form', ['vvmul(qv1, qv2)'], 'return'),
]


# =========================================================================== straight-line symbolic environment
import copy as _copy


class _StripNorm(ast.NodeTransformer):
    """getvector(x, ...) is the identity on the abstract vector (its forms/dimension are R10's subject)"""

    def visit_Call(self, n):
        self.generic_visit(n)
        if isinstance(n.func, ast.Name) and n.func.id == 'getvector' and n.args:
            return n.args[0]
        return n


class _Subst(ast.NodeTransformer):
    def __init__(self, env):
        self.env = env

    def visit_Name(self, n):
        if isinstance(n.ctx, ast.Load) and n.id in self.env:
            return _copy.deepcopy(self.env[n.id])
        return n


def sl_eval(cx, stmts=None, env=None, keep_params=True, with_conds=False, keep=(), max_depth=6):
    """Symbolic evaluation by path enumeration over structured code without loops: returns a list of
    (Return node, canonical value expression with every local substituted by its defining expression along that path).
    `if` arms that only raise are skipped; other `if/else` statements fork the environment."""
    out = []

    def assign(env, st):
        v = _Subst(env).visit(canon(cx.fi, st.value, inline=False))
        t = st.targets[0]
        env = dict(env)
        if isinstance(t, ast.Name) and t.id in keep:
            env.pop(t.id, None)          # stays symbolic under its own name
        elif isinstance(t, ast.Name):
            env[t.id] = v
        elif isinstance(t, (ast.Tuple, ast.List)) and isinstance(v, (ast.Tuple, ast.List)) and len(t.elts) == len(v.elts):
            for a, b in zip(t.elts, v.elts):
                if isinstance(a, ast.Name):
                    env[a.id] = b
        elif isinstance(t, (ast.Tuple, ast.List)):
            for i, a in enumerate(t.elts):
                if isinstance(a, ast.Name):
                    env[a.id] = ast.Subscript(value=_copy.deepcopy(v), slice=ast.Constant(value=i), ctx=ast.Load())
        else:
            for y in ast.walk(t):
                if isinstance(y, ast.Name):
                    env.pop(y.id, None)
        return env

    def run(stmts, envs, depth=0):
        """-> list of environments that fall through the statement list"""
        from ..astutil import ends_in_raise
        for st in stmts:
            if not envs:
                return []
            if isinstance(st, ast.Assign) and len(st.targets) == 1:
                envs = [assign(e, st) for e in envs]
            elif isinstance(st, ast.AugAssign):
                new = []
                for e in envs:
                    e = dict(e)
                    t = st.target
                    if isinstance(t, ast.Name) and t.id in e:
                        v = _Subst(e).visit(canon(cx.fi, st.value, inline=False))
                        e[t.id] = ast.BinOp(left=_copy.deepcopy(e[t.id]), op=st.op, right=v)
                    else:
                        for y in ast.walk(t):
                            if isinstance(y, ast.Name):
                                e.pop(y.id, None)
                    new.append(e)
                envs = new
            elif isinstance(st, ast.Return):
                if st.value is not None:
                    for e in envs:
                        ee = {k: v for k, v in e.items() if k != '__conds'}
                        val = _Subst(ee).visit(canon(cx.fi, st.value, inline=False))
                        out.append((st, val, list(e.get('__conds', []))) if with_conds else (st, val))
                return []
            elif isinstance(st, ast.Raise):
                return []
            elif isinstance(st, ast.If):
                if ends_in_raise(st.body) and not st.orelse and not any(isinstance(x, ast.Return) for s_ in st.body for x in ast.walk(s_)):
                    continue            # a guard: the arm only raises (an arm that returns on some paths and raises at its end is a branch)
                nxt = []
                if len(envs) > 16 or depth > max_depth:
                    # too many paths: give up on precision for names assigned inside
                    for e in envs:
                        for y in ast.walk(st):
                            if isinstance(y, ast.Name) and isinstance(y.ctx, ast.Store):
                                e.pop(y.id, None)
                    continue
                def withc(e, pol):
                    e = dict(e)
                    ee = {k: v for k, v in e.items() if k != '__conds'}
                    e['__conds'] = list(e.get('__conds', [])) + [(_Subst(ee).visit(canon(cx.fi, st.test, inline=False)), pol)]
                    return e
                nxt += run(st.body, [withc(e, True) for e in envs], depth + 1)
                nxt += run(st.orelse, [withc(e, False) for e in envs], depth + 1) if st.orelse else [withc(e, False) for e in envs]
                envs = nxt
            elif isinstance(st, (ast.Expr, ast.Pass, ast.Assert, ast.Import, ast.ImportFrom)):
                continue
            else:
                for e in envs:
                    for y in ast.walk(st):
                        if isinstance(y, ast.Name) and isinstance(y.ctx, ast.Store):
                            e.pop(y.id, None)
        return envs

    stmts = body_nodoc(cx.f.node) if stmts is None else stmts
    run(stmts, [dict(env or {})])
    # de-duplicate identical (return, expression) pairs
    seen = set()
    res = []
    for item in out:
        r, e = item[0], item[1]
        e = _StripNorm().visit(e)
        k = (id(r), ast.dump(e)) if not with_conds else (id(r), ast.dump(e), tuple((ast.dump(c), p) for c, p in item[2]))
        if k not in seen:
            seen.add(k)
            res.append((r, e, item[2]) if with_conds else (r, e))
    return res


# =========================================================================== C01 / C05 / C14 tables
def tables_rot(run):
    """T01-T04 literal rotation matrices."""
    c, s = 'cos(P0)', 'sin(P0)'
    check_matrix_fn(run, 'base/transforms3d:rotx', 'rotx', [['1', '0', '0'], ['0', c, '-' + s], ['0', s, c]])
    check_matrix_fn(run, 'base/transforms3d:roty', 'roty', [[c, '0', s], ['0', '1', '0'], ['-' + s, '0', c]])
    check_matrix_fn(run, 'base/transforms3d:rotz', 'rotz', [[c, '-' + s, '0'], [s, c, '0'], ['0', '0', '1']])
    check_matrix_fn(run, 'base/transforms2d:rot2', 'rot2', [[c, '-' + s], [s, c]])
    # the angle entering cos/sin has passed getunit(theta, unit)
    for k in ('base/transforms3d:rotx', 'base/transforms3d:roty', 'base/transforms3d:rotz', 'base/transforms2d:rot2'):
        f = run.prog.func(k)
        fi = FuncInfo.of(f)
        th, un = f.params[0], f.params[1]
        ok = any(isinstance(n, ast.Assign) and isinstance(n.targets[0], ast.Name) and n.targets[0].id == th and
                 matches('getunit(%s, %s)' % (th, un), canon(fi, n.value, inline=False)) is not None for n in body_nodoc(f.node))
        (run.holds if ok else run.violation)(RULE, k, 'angle passes getunit', 'theta = getunit(theta, unit) precedes the table' if ok
                                             else 'the angle is not converted with getunit(theta, unit) before the table', f=f)
    # homogeneous wrappers: r2t of the rotation, optional translation column, nothing else
    for k, rot in (('base/transforms3d:trotx', 'rotx'), ('base/transforms3d:troty', 'roty'), ('base/transforms3d:trotz', 'rotz')):
        _trot(run, k, rot, 3)
    _trot2(run)


def _trot(run, key, rot, n):
    cx = Ctx(run, key)
    f = cx.f
    th, un, t = f.params[0], f.params[1], f.params[2]
    defs = {}
    stores = []
    for st in own_walk(f.node):
        if isinstance(st, ast.Assign) and len(st.targets) == 1:
            tg = st.targets[0]
            if isinstance(tg, ast.Name):
                defs[tg.id] = canon(cx.fi, st.value, inline=False)
            elif isinstance(tg, ast.Subscript) and isinstance(tg.value, ast.Name):
                stores.append((tg.value.id, cx.norm.slice_str(tg.slice), canon(cx.fi, st.value, inline=False)))
    r = _single_return_value(cx)
    name = r.value.id if r is not None and isinstance(r.value, ast.Name) else None
    ok = name in defs and (matches('r2t(%s(%s, %s))' % (rot, th, un), defs[name]) is not None or
                           matches('r2t(%s(%s, unit=%s))' % (rot, th, un), defs[name]) is not None)
    (run.holds if ok else run.violation)(RULE, key, 'r2t of ' + rot, 'T = r2t(%s(theta, unit))' % rot if ok else
                                         'result is not r2t(%s(theta, unit)): %s' % (rot, src(defs.get(name), 50) if name in defs else '?'), f=f)
    bad = [(v, k) for (v, k, e) in stores if v == name and k != ':%d, %d' % (n, n)]
    good = [(v, k, e) for (v, k, e) in stores if v == name and k == ':%d, %d' % (n, n)]
    if bad:
        run.violation(RULE, key, 'only the translation column is written', 'writes into T[%s] besides the translation column' % bad[0][1], f=f)
    elif good and (matches("getvector(%s, %d, 'array')" % (t, n), good[0][2]) is not None or matches('getvector(%s, %d)' % (t, n), good[0][2]) is not None):
        run.holds(RULE, key, 'translation column', 'T[:%d, %d] = getvector(t, %d)' % (n, n, n), f=f)
    else:
        run.violation(RULE, key, 'translation column', 'translation is not stored as T[:%d, %d] = getvector(t, %d)' % (n, n, n), f=f)


def _trot2(run):
    for key, ang, tr_slice, trv in (('base/transforms2d:trot2', None, ':2, 2', "getvector(P2, 2, 'array')"),
                                    ('base/transforms2d:xyt2tr', None, ':2, 2', 'P0[0:2]')):
        cx = Ctx(run, key)
        f = cx.f
        defs, stores = {}, {}
        from ..cfg import pure_locals as _pl, _subst_pure as _sp
        # R = rot2(theta, unit); T = np.pad(R, ...): every local but the padded matrix itself (whatever it is called) is put in place
        padded = {st.targets[0].id for st in own_walk(f.node) if isinstance(st, ast.Assign) and len(st.targets) == 1 and isinstance(st.targets[0], ast.Name)
                  and isinstance(st.value, ast.Call) and getattr(st.value.func, 'attr', getattr(st.value.func, 'id', None)) == 'pad'}
        env_ = {k: v for k, v in _pl(f.node).items() if k not in padded}
        for st in own_walk(f.node):
            if isinstance(st, ast.Assign) and len(st.targets) == 1:
                tg = st.targets[0]
                val_ = st.value
                for _ in range(3):
                    val_ = _sp(val_, env_)
                if isinstance(tg, ast.Name):
                    defs[tg.id] = cx.norm.poly(canon(cx.fi, val_, inline=False))
                elif isinstance(tg, ast.Subscript) and isinstance(tg.value, ast.Name):
                    stores[cx.norm.slice_str(tg.slice)] = cx.norm.poly(canon(cx.fi, val_, inline=False))
        if key.endswith('trot2'):
            wantT = Normaliser().poly(parse_expr("pad(rot2(P0, P1), (0, 1), mode='constant')"))
        else:
            wantT = Normaliser().poly(parse_expr("pad(rot2(P0[2], P1), (0, 1), mode='constant')"))
        tname = next(iter(padded)) if len(padded) == 1 else 'T'
        okT = defs.get(tname) == wantT
        ok1 = stores.get('2, 2') == Poly.const(1)
        okt = stores.get(tr_slice) == Normaliser().poly(parse_expr(trv))
        (run.holds if okT else run.violation)(RULE, key, 'padded rotation', 'T = pad(rot2(theta, unit))' if okT else 'T is %s' % defs.get(tname), f=f)
        (run.holds if ok1 else run.violation)(RULE, key, 'corner element', 'T[2,2] = 1' if ok1 else 'T[2,2] is not set to 1 (last row [0 0 1] lost)', f=f)
        (run.holds if okt else run.violation)(RULE, key, 'translation column', 'T[:2,2] = translation' if okt else 'translation column is %s' % stores.get(tr_slice), f=f)


RPY_WORDS = {
    frozenset(['zyx', 'vehicle']): [('z', 2), ('y', 1), ('x', 0)],
    frozenset(['xyz', 'arm']): [('x', 2), ('y', 1), ('z', 0)],
    frozenset(['yxz', 'camera']): [('y', 2), ('x', 1), ('z', 0)],
}


def _rot_word(cx, e, angles):
    """rotx(angles[2]) @ roty(angles[1]) @ ... -> [(axis, index)] or None"""
    if isinstance(e, ast.BinOp) and isinstance(e.op, ast.MatMult):
        a = _rot_word(cx, e.left, angles)
        b = _rot_word(cx, e.right, angles)
        return None if a is None or b is None else a + b
    for ax in 'xyz':
        # the angle vector is whatever local is indexed inside the axis rotations -- one and the same in every factor of the word
        b = matches('rot%s(_A[_I])' % ax, e)
        if b is not None and isinstance(b['_I'], ast.Constant) and isinstance(b['_A'], ast.Name):
            seen = getattr(cx, '_angle_name', None)
            if seen is None:
                cx._angle_name = b['_A'].id
            elif seen != b['_A'].id:
                return None
            return [(ax, b['_I'].value)]
        b = matches('rot%s(_N)' % ax, e)
        if b is not None and isinstance(b['_N'], ast.Name) and b['_N'].id in _unpacked_slots(cx):
            return [(ax, _unpacked_slots(cx)[b['_N'].id])]
    return None


def _indexed_in_rotations(fnode):
    """names N that occur as rotx/roty/rotz(N[i]) in the function: the angle vector(s), which stay symbolic"""
    out = set()
    for c in ast.walk(fnode):
        if isinstance(c, ast.Call) and c.args and isinstance(c.args[0], ast.Subscript) and isinstance(c.args[0].value, ast.Name):
            fn = c.func.attr if isinstance(c.func, ast.Attribute) else (c.func.id if isinstance(c.func, ast.Name) else '')
            if fn in ('rotx', 'roty', 'rotz'):
                out.add(c.args[0].value.id)
    return tuple(sorted(out)) or ('angles',)


def _unpacked_slots(cx):
    """r, p, y = <angle vector>  ->  {r: 0, p: 1, y: 2}  (a 3-name tuple assignment whose value is not itself a tuple display)"""
    m = getattr(cx, '_slots', None)
    if m is None:
        m = {}
        for st in own_walk(cx.f.node):
            if isinstance(st, ast.Assign) and len(st.targets) == 1 and isinstance(st.targets[0], (ast.Tuple, ast.List)) and \
                    len(st.targets[0].elts) == 3 and all(isinstance(t, ast.Name) for t in st.targets[0].elts) and \
                    not isinstance(st.value, (ast.Tuple, ast.List)):
                for i, t in enumerate(st.targets[0].elts):
                    m[t.id] = i
        cx._slots = m
    return m


def _packs_params(run, f, depth=0):
    """the scalar call form packs the first three parameters in order: `[p0, p1, p2]` in f, or in a helper that f calls with
    (p0, p1, p2, ...) as its first arguments"""
    ps = [p for p in f.params if p != f.selfname][:3]
    if len(ps) < 3:
        return False
    for st in ast.walk(f.node):
        if isinstance(st, (ast.List, ast.Tuple)) and len(st.elts) == 3 and all(isinstance(x, ast.Name) for x in st.elts) and \
                [x.id for x in st.elts] == ps and isinstance(getattr(st, 'ctx', None), ast.Load):
            return True
    if depth < 1:
        fi = FuncInfo.of(f)
        for c in own_walk(f.node):
            if isinstance(c, ast.Call) and len(c.args) >= 3 and all(isinstance(a, ast.Name) for a in c.args[:3]) and [a.id for a in c.args[:3]] == ps:
                t = fi.resolve(c.func)
                if t.kind == 'func' and t.obj is not None and hasattr(t.obj, 'node') and _packs_params(run, t.obj, depth + 1):
                    return True
    return False


def rotation_words(run, rule='R12'):
    from ..astutil import if_chain
    cx = Ctx(run, 'base/transforms3d:rpy2r')
    f = cx.f
    chain = None
    for st in body_nodoc(f.node):
        if isinstance(st, ast.If) and chain is None:
            arms, els = if_chain(st)
            if any('order' in ast.unparse(t) for (t, _) in arms):
                chain = (arms, els)
    if chain is None:
        run.error('R12: rpy2r: no if-chain over order')
        return
    seen = set()
    for (t, body) in chain[0]:
        names = frozenset(c.value for n in ast.walk(t) if isinstance(n, ast.Compare) for c in n.comparators if isinstance(c, ast.Constant))
        want = RPY_WORDS.get(names)
        if want is None:
            run.violation(rule, f.key, 'order names %s' % sorted(names), 'unexpected set of order names in one branch (documented: '
                          'zyx|vehicle, xyz|arm, yxz|camera)', f=f, node=t)
            continue
        seen.add(names)
        w = None
        from ..cfg import pure_locals, _subst_pure
        for st in body:
            if isinstance(st, (ast.Assign, ast.Return)) and st.value is not None:
                w = _rot_word(cx, canon(cx.fi, _subst_pure(st.value, pure_locals(f.node, keep=_indexed_in_rotations(f.node))), inline=False), 'angles')
        label = '/'.join(sorted(names))
        if w is None:
            run.error('R12: rpy2r branch %s: not a product of rotx/roty/rotz(angles[i])' % label)
        elif w == want:
            run.holds(rule, f.key, 'order ' + label, 'R = %s' % ' '.join('R%s(a%d)' % (a, i) for a, i in w), f=f, node=t)
        else:
            run.violation(rule, f.key, 'order ' + label, 'branch %s builds %s but the documented order is %s (a = [roll, pitch, yaw])'
                          % (label, ' '.join('R%s(a%d)' % (a, i) for a, i in w), ' '.join('R%s(a%d)' % (a, i) for a, i in want)), f=f, node=t)
    for names in RPY_WORDS:
        if names not in seen:
            run.violation(rule, f.key, 'order ' + '/'.join(sorted(names)), 'no branch for this documented order', f=f)
    # angles = [roll, pitch, yaw] | getvector(roll, 3), then getunit
    okv = _packs_params(run, f)
    (run.holds if okv else run.violation)(rule, f.key, 'angle slots', 'angles = [roll, pitch, yaw]' if okv else
                                          'scalar call form does not pack [roll, pitch, yaw] in this order', f=f)
    ce = Ctx(run, 'base/transforms3d:eul2r')
    r = _single_return_value(ce)
    from ..cfg import pure_locals, _subst_pure
    w = _rot_word(ce, canon(ce.fi, _subst_pure(r.value, pure_locals(ce.f.node, keep=_indexed_in_rotations(ce.f.node))), inline=False), 'angles') if r is not None else None
    want = [('z', 0), ('y', 1), ('z', 2)]
    if w is None:
        run.error('R12: eul2r: return is not a product of rotations of angles[i]')
    elif w == want:
        run.holds(rule, ce.f.key, 'ZYZ', 'R = Rz(a0) Ry(a1) Rz(a2)', f=ce.f)
    else:
        run.violation(rule, ce.f.key, 'ZYZ', 'eul2r builds %s, documented is Rz(phi) Ry(theta) Rz(psi)' %
                      ' '.join('R%s(a%d)' % (a, i) for a, i in w), f=ce.f)
    okv = _packs_params(run, ce.f)
    (run.holds if okv else run.violation)(rule, ce.f.key, 'angle slots', 'angles = [phi, theta, psi]' if okv else 'scalar call form does not pack [phi, theta, psi]', f=ce.f)
    check_routes(run, [
        ('base/transforms3d:rpy2tr', 'rpy2tr = r2t(rpy2r(...)) with order and unit threaded', ['r2t(rpy2r(roll, pitch, yaw, order=order, unit=unit))', 'r2t(rpy2r(roll, pitch, yaw, unit=unit, order=order))'], 'return'),
        ('base/transforms3d:eul2tr', 'eul2tr = r2t(eul2r(...)) with unit threaded', ['r2t(eul2r(phi, theta, psi, unit=unit))'], 'return'),
        ('base/transforms3d:angvec2tr', 'angvec2tr = r2t(angvec2r(...))', ['r2t(angvec2r(theta, v, unit=unit))'], 'return'),
        ('base/transforms3d:oa2tr', 'oa2tr = r2t(oa2r(o, a))', ['r2t(oa2r(o, a))'], 'return'),
    ], rule='R12')


def tables_frames(run):
    """T19 Rodrigues / exponential, T20 two-vector frame and trnorm (every column normalised after the cross products)."""
    cx = Ctx(run, 'base/transformsNd:rodrigues')
    rets = sl_eval(cx)
    main = [r for r in rets if matches('eye(__)', r[1]) is None]
    nm = Normaliser(rename=cx.rename)
    nm.scalars = {'P1', cx.pname(1)}
    if not main:
        run.error('R16: rodrigues: no non-trivial return')
    for (r, e) in main:
        try:
            g = nm.poly(e)
            wn = Normaliser()
            wn.scalars = {'P1'}
            ws = []
            # theta given: axis = w, angle = theta ; theta omitted: (w, theta) = unitvec_norm(w)
            for K, th in (('skew(P0)', 'P1'), ('skew(unitvec_norm(P0)[0])', 'unitvec_norm(P0)[1]')):
                ws.append(wn.poly(parse_expr('eye(%s.shape[0]) + sin(%s) * %s + (1.0 - cos(%s)) * %s @ %s' % (K, th, K, th, K, K))))
            if g in ws:
                run.holds(RULE, cx.f.key, 'Rodrigues formula' + (' (angle from the vector norm)' if g == ws[1] else ''),
                          'I + sin(theta) K + (1 - cos(theta)) K K with K = skew(w)', f=cx.f, node=r)
            else:
                run.violation(RULE, cx.f.key, 'Rodrigues formula', 'rodrigues returns %s; the definition is %s' % (g, ws[0]), f=cx.f, node=r)
        except Unrecognised as ex:
            run.error('R16: rodrigues unrecognised: %s' % ex)
    # angvec2r: axis through unitvec, same formula
    ca = Ctx(run, 'base/transforms3d:angvec2r')
    rets = [r for r in sl_eval(ca) if matches('eye(__)', r[1]) is None]
    if len(rets) != 1:
        run.error('R16: angvec2r: expected one non-trivial return')
    else:
        nm = Normaliser(rename=ca.rename)
        nm.scalars = {ca.pname(0), 'P0'}
        g = nm.poly(rets[0][1])
        wn = Normaliser()
        wn.scalars = {'P0'}
        K = 'skew(unitvec(P1))'
        th = 'getunit(P0, P2)'
        w = wn.poly(parse_expr('eye(3) + sin(%s) * %s + (1.0 - cos(%s)) * %s @ %s' % (th, K, th, K, K)))
        if g == w:
            run.holds(RULE, ca.f.key, 'axis-angle formula', 'Rodrigues form about unitvec(v) with the converted angle', f=ca.f, node=rets[0][0])
        else:
            run.violation(RULE, ca.f.key, 'axis-angle formula', 'angvec2r returns %s; the definition is %s (normalised axis, converted angle)' % (g, w), f=ca.f, node=rets[0][0])
    _frame(run, 'base/transforms3d:oa2r', o='P0', a='P1', ret_plain=True)
    _frame(run, 'base/transforms3d:trnorm', o='P0[:3, 1]', a='P0[:3, 2]', ret_plain=False)
    _trexp(run)


def _frame(run, key, o, a, ret_plain):
    cx = Ctx(run, key)
    rets = sl_eval(cx)
    want_R = "stack((unitvec(cross({o}, {a})), unitvec(cross({a}, cross({o}, {a}))), unitvec({a})), axis=1)".format(o=o, a=a)
    nm = Normaliser(rename=cx.rename)
    # getvector(x, 3, out='array') is the identity on the abstract vector
    class Strip(ast.NodeTransformer):
        def visit_Call(self, n):
            self.generic_visit(n)
            if isinstance(n.func, ast.Name) and n.func.id == 'getvector' and n.args:
                return n.args[0]
            return n
    wR = Normaliser().poly(parse_expr(want_R))
    found = False
    for (r, e) in rets:
        e = Strip().visit(_copy.deepcopy(e))
        g = nm.poly(e)
        if ret_plain:
            found = True
            if g == wR:
                run.holds(RULE, key, 'frame columns', 'columns [unit(o x a), unit(a x (o x a)), unit(a)] stacked as columns', f=cx.f, node=r)
            else:
                _frame_diagnose(run, cx, key, e, want_R, r)
        else:
            b = matches('rt2tr(_R, _T)', e)
            if b is not None:
                found = True
                gR = nm.poly(b['_R'])
                gT = nm.poly(b['_T'])
                if gR == wR:
                    run.holds(RULE, key, 'frame columns', 'columns normalised after the cross products', f=cx.f, node=r)
                else:
                    _frame_diagnose(run, cx, key, b['_R'], want_R, r)
                wT = Normaliser().poly(parse_expr('P0[:3, 3]'))
                (run.holds if gT == wT else run.violation)(RULE, key, 'translation kept', 'translation T[:3,3] is carried over' if gT == wT
                                                           else 'translation part is %s, not T[:3,3]' % gT, f=cx.f, node=r)
            else:
                if nm.poly(e) == wR:
                    run.holds(RULE, key, 'frame columns (SO3 result)', 'same frame for a rotation-matrix argument', f=cx.f, node=r)
                else:
                    _frame_diagnose(run, cx, key, e, want_R, r)
                found = True
    if not found:
        run.error('R16: %s: no recognisable return' % key)


def _frame2(run, key='base/transforms2d:trnorm2'):
    """Planar normalisation: the second column keeps its direction, y = unit(T[:2, 1]); the first is y turned by -90 degrees,
    x = (y_1, -y_0) (so that det [x y] = |y|^2 = +1); the two are the COLUMNS of the result; a homogeneous argument keeps its
    translation T[:2, 2]."""
    cx = Ctx(run, key)
    T = cx.pname(0)
    rets = sl_eval(cx)
    nm = Normaliser()
    found = 0
    for (r, e) in rets:
        b = matches('rt2tr(_R, _T)', e)
        R = b['_R'] if b is not None else e
        if b is not None:
            ok = matches('%s[:2, 2]' % T, b['_T']) is not None or matches('transl2(%s)' % T, b['_T']) is not None
            (run.holds if ok else run.violation)(RULE, key, 'translation kept (planar)', 'translation T[:2, 2] is carried over' if ok else
                                                 'translation part is %s, not %s[:2, 2]' % (src(b['_T'], 30), T), f=cx.f, node=r)
        cols = None
        for pat, ax in (('stack((_X, _Y), axis=1)', 1), ('stack([_X, _Y], axis=1)', 1), ('column_stack((_X, _Y))', 1), ('c_[_X, _Y]', 1),
                        ('array([_X, _Y]).T', 1), ('stack((_X, _Y))', 0), ('array([_X, _Y])', 0), ('vstack((_X, _Y))', 0), ('stack((_X, _Y), axis=0)', 0)):
            m = matches(pat, R)
            if m is not None:
                cols = (m['_X'], m['_Y'], ax)
                break
        if cols is None:
            run.error('R16: %s: result %s is not two vectors stacked as columns' % (key, src(R, 60)))
            continue
        found += 1
        X, Y, ax = cols
        if ax != 1:
            run.violation(RULE, key, 'stack axis (planar)', 'the two vectors are stacked as ROWS: the result is the transpose of the normalised rotation', f=cx.f, node=r)
            continue
        yb = None
        for pat in ('unitvec(_V)', 'unit(_V)', '_V / norm(_V)'):
            yb = matches(pat, Y)
            if yb is not None:
                break
        if yb is None or matches('%s[:2, 1]' % T, yb['_V']) is None:
            run.violation(RULE, key, 'planar frame: second column', 'the second column of the result is %s; the definition keeps the direction of the second '
                          'column of the argument: unit(%s[:2, 1])' % (src(Y, 40), T), f=cx.f, node=r)
            continue
        # x = (y[1], -y[0]) with y the same normalised vector
        xs = vector_literal(X)
        if xs is None or len(xs) != 2:
            run.error('R16: %s: first column %s is not a 2-vector display' % (key, src(X, 40)))
            continue
        class _Y(ast.NodeTransformer):
            def visit_Call(self2, n):
                if ast.dump(n) == ast.dump(Y):
                    return ast.Name(id='Yv', ctx=ast.Load())
                return self2.generic_visit(n)
            def visit_BinOp(self2, n):
                if ast.dump(n) == ast.dump(Y):
                    return ast.Name(id='Yv', ctx=ast.Load())
                return self2.generic_visit(n)
        g = [nm.poly(_Y().visit(_copy.deepcopy(x))) for x in xs]
        w = [nm.poly(parse_expr('Yv[1]')), nm.poly(parse_expr('-Yv[0]'))]
        if g == w:
            run.holds(RULE, key, 'planar frame', 'columns [(y1, -y0), y] with y = unit(T[:2, 1])', f=cx.f, node=r)
        else:
            run.violation(RULE, key, 'planar frame: first column', 'the first column is (%s, %s); perpendicular to y with determinant +1 requires (y[1], -y[0])'
                          % (g[0], g[1]), f=cx.f, node=r)
    if found < 2:
        run.error('R16: %s: fewer than 2 returns with a recognised frame (rotation and homogeneous result)' % key)


def _frame_diagnose(run, cx, key, e, want_R, r):
    nm = Normaliser(rename=cx.rename)
    b = matches('stack((_C0, _C1, _C2), axis=_AX)', e) or matches('stack([_C0, _C1, _C2], axis=_AX)', e)
    if b is None:
        b0 = matches('stack((_C0, _C1, _C2))', e) or matches('stack([_C0, _C1, _C2])', e) or matches('array((_C0, _C1, _C2))', e) or \
            matches('array([_C0, _C1, _C2])', e) or matches('vstack((_C0, _C1, _C2))', e)
        if b0 is not None:
            b = dict(b0)
            b['_AX'] = ast.Constant(value=0)      # the default: the vectors become the ROWS
    if b is None:
        run.error('R16: %s: result is not stack((c0, c1, c2), axis=1): %s' % (key, src(e, 70)))
        return
    wb = matches('stack((_C0, _C1, _C2), axis=_AX)', parse_expr(want_R))
    if not (isinstance(b['_AX'], ast.Constant) and b['_AX'].value == 1):
        run.violation(RULE, key, 'stack axis', 'the three vectors are stacked along axis %s: they must be the COLUMNS (axis=1)' % src(b['_AX']), f=cx.f, node=r)
    for i in range(3):
        g = nm.poly(b['_C%d' % i])
        w = Normaliser().poly(wb['_C%d' % i])
        if g != w:
            run.violation(RULE, key, 'frame column %d' % i, 'column %d is %s but the definition requires %s (each column normalised '
                          'after the cross products: o x a of two non-orthogonal unit vectors is not a unit vector)' % (i, g, w), f=cx.f, node=r)


def _enclosing_block(fnode, target):
    """innermost statement list that contains `target`"""
    best = None

    def visit(stmts):
        nonlocal best
        for st in stmts:
            if st is target:
                best = stmts
                return True
            for fld in ('body', 'orelse', 'finalbody'):
                sub = getattr(st, fld, None)
                if isinstance(sub, list) and sub and isinstance(sub[0], ast.stmt):
                    if visit(sub):
                        if best is None:
                            best = sub
                        return True
        return False
    visit(fnode.body)
    return best


def _rt2tr_product(e):
    """bindings _R, _V, _T of rt2tr(R, V @ t); the product may be spelt V.dot(t) / dot(V, t) (V is then compared with the matrix
    closed form, so the matrix reading of dot is the one checked)"""
    for pat in ('rt2tr(_R, _V @ _T)', 'rt2tr(_R, _V.dot(_T))', 'rt2tr(_R, dot(_V, _T))'):
        b = matches(pat, e)
        if b is not None:
            return b
    return None


def _trexp(run):
    for key, n, rod_w in (('base/transforms3d:trexp', 3, 'tw[3:6]'), ('base/transforms2d:trexp2', 2, 'tw[2]')):
        cx = Ctx(run, key)
        f = cx.f
        fi = cx.fi
        target = None
        for r in own_returns(f.node):
            if r.value is not None and _rt2tr_product(canon(fi, r.value, inline=False)) is not None:
                target = r
        if target is None:
            run.error('R16: %s: no `rt2tr(R, V @ t)` return' % key)
            continue
        blk = _enclosing_block(f.node, target)
        # the closed form is the straight-line tail starting at `t = tw[0:n]`; tw and theta stay symbolic
        start = 0
        for i, st in enumerate(blk):
            if isinstance(st, ast.Assign) and matches('tw[0:%d]' % n, st.value) is not None:
                start = i
                break
        rets = [e for (r, e) in sl_eval(cx, blk[start:]) if r is target]
        if len(rets) != 1:
            run.error('R16: %s: cannot evaluate the se(%d) branch symbolically' % (key, n))
            continue
        b = _rt2tr_product(rets[0])
        if b is None:
            run.error('R16: %s: the se(%d) return lost its rt2tr(R, V @ t) form under evaluation' % (key, n))
            continue
        nm = Normaliser()
        nm.scalars = {'theta'}
        try:
            gR, gV, gT = nm.poly(b['_R']), nm.poly(b['_V']), nm.poly(b['_T'])
        except Unrecognised as ex:
            run.error('R16: %s unrecognised: %s' % (key, ex))
            continue
        K = 'skew(%s)' % rod_w
        wR = nm.poly(parse_expr('rodrigues(%s, theta)' % rod_w))
        wV = nm.poly(parse_expr('eye(%d) * theta + (1.0 - cos(theta)) * %s + (theta - sin(theta)) * %s @ %s' % (n, K, K, K)))
        wT = nm.poly(parse_expr('tw[0:%d]' % n))
        for nm_, g, w in (('rotation part', gR, wR), ('translation integral V', gV, wV), ('translational slot', gT, wT)):
            if g == w:
                run.holds(RULE, f.key, 'exp ' + nm_, 'agrees with the closed form', f=f, node=target)
            else:
                run.violation(RULE, f.key, 'exp ' + nm_, '%s is %s; the closed form is %s' % (nm_, g, w), f=f, node=target)


# =========================================================================== C02: inverses, composition, powers
def _assign_table(cx, var):
    """slice-assignment table of `var` in the function -> (alloc canonical AST, {slice: Poly})"""
    alloc = None
    tbl = {}
    for st in own_walk(cx.f.node):
        if isinstance(st, ast.Assign) and len(st.targets) == 1:
            t = st.targets[0]
            if isinstance(t, ast.Name) and t.id == var:
                alloc = canon(cx.fi, st.value, inline=False)
            elif isinstance(t, ast.Subscript) and isinstance(t.value, ast.Name) and t.value.id == var:
                tbl[cx.norm.slice_str(t.slice)] = cx.norm.poly(cx.c(st.value))
    return alloc, tbl


def tables_c02(run):
    for key, n in (('base/transforms3d:trinv', 3), ('base/transforms2d:trinv2', 2)):
        cx = Ctx(run, key)
        r = _single_return_value(cx)
        if r is None:
            # a stacked-array arm next to the single-matrix arm: each is held to the structured inverse
            res = check_batched_inverse(run, key, n, rule=RULE, param=cx.pname(0))
            if res is None:
                run.error('R16: %s: expected a single return' % key)
            continue
        rv = canon(cx.fi, r.value, inline=False)
        if matches('inv(%s)' % cx.pname(0), rv) is not None:
            run.holds(RULE, key, 'structured inverse', 'general matrix inverse', f=cx.f)
            continue
        if not isinstance(r.value, ast.Name):
            run.error('R16: %s: return is neither a table variable nor inv(T)' % key)
            continue
        alloc, tbl = _assign_table(cx, r.value.id)
        N = n + 1
        if alloc is None or (matches('zeros((%d, %d), dtype=__)' % (N, N), alloc) is None and matches('zeros((%d, %d))' % (N, N), alloc) is None):
            run.error('R16: %s: result is not allocated as fresh zeros((%d,%d))' % (key, N, N))
            continue
        R = 'P0[:%d, :%d]' % (n, n)
        t = 'P0[:%d, %d]' % (n, n)
        want = {':%d, :%d' % (n, n): '%s.T' % R, ':%d, %d' % (n, n): '-%s.T @ %s' % (R, t), '%d, %d' % (n, n): '1'}
        ok = True
        for k, w in want.items():
            wp = Normaliser().poly(parse_expr(w))
            if tbl.get(k) != wp:
                ok = False
                run.violation(RULE, key, 'inverse block [%s]' % k, 'block [%s] is %s; the structured inverse [[R^T, -R^T t],[0, 1]] requires %s'
                              % (k, tbl.get(k), wp), f=cx.f)
        for k in tbl:
            if k not in want:
                ok = False
                run.violation(RULE, key, 'inverse block [%s]' % k, 'unexpected write into [%s]' % k, f=cx.f)
        if ok:
            run.holds(RULE, key, 'structured inverse', '[[R^T, -R^T t], [0, 1]] on a fresh zero matrix', f=cx.f)
    check_routes(run, ROUTES_C02)
    _prod(run)


ROUTES_C02 = [
    ('super_pose:SMPose.__mul__', 'composition multiplies left then right', ['left.__class__(left._op2(right, lambda x, y: x @ y), check=False)'], 'any'),
    ('super_pose:SMPose.__truediv__', 'division composes with the inverse of the right operand', ['left.__class__(left._op2(right.inv(), lambda x, y: x @ y), check=False)'], 'any'),
    ('super_pose:SMPose.__pow__', 'integer power by matrix_power on every element', ['self.__class__([matrix_power(x, n) for x in self.data], check=False)'], 'return'),
    ('pose3d:SO3.inv', 'inverse of a rotation is its transpose', ['SO3(self.A.T, check=False)', 'SO3([x.T for x in self.A], check=False)', 'SO3([x.T for x in self.data], check=False)', 'SO3([x.A.T for x in self], check=False)'], 'return'),
    ('pose3d:SE3.inv', 'SE3 inverse through trinv', ['SE3(trinv(self.A), check=False)', 'SE3([trinv(x) for x in self.A], check=False)', 'SE3(list(trinv(array(self.A))), check=False)', 'SE3(trinv(array(self.A)), check=False)', 'SE3([trinv(x) for x in self.data], check=False)'], 'return'),
    ('pose2d:SO2.inv', 'inverse of a rotation is its transpose', ['SO2(self.A.T)', 'SO2([x.T for x in self.A])', 'SO2(self.A.T, check=False)', 'SO2([x.T for x in self.A], check=False)', 'SO2([x.T for x in self.data])', 'SO2([x.T for x in self.data], check=False)', 'SO2([x.A.T for x in self])'], 'return'),
    ('pose2d:SE2.inv', 'SE2 inverse [[R^T, -R^T t],[0,1]]', ['SE2(rt2tr(self.R.T, -self.R.T @ self.t))', 'SE2([rt2tr(x.R.T, -x.R.T @ x.t) for x in self])',
                                                             'SE2(trinv2(self.A))', 'SE2([trinv2(x) for x in self.A])',
                                                             'SE2(rt2tr(self.R.T, -self.R.T @ self.t), check=False)', 'SE2([rt2tr(x.R.T, -x.R.T @ x.t) for x in self], check=False)'], 'return'),
    ('twist:SMTwist.inv', 'twist inverse is negation', ['self.__class__([-t for t in self.data])'], 'return'),
    ('twist:Twist3.__mul__', 'twist composition through exp and log', ['Twist3(left.binop(right, lambda x, y: trlog(trexp(x) @ trexp(y), twist=True)))'], 'any'),
    ('twist:Twist2.__mul__', 'twist composition through exp and log', ['Twist2(left.binop(right, lambda x, y: trlog2(trexp2(x) @ trexp2(y), twist=True)))'], 'any'),
    ('twist:Twist3.__mul__', 'twist * SE3 composes exp(twist) with the pose', ['SE3(left.binop(right, lambda x, y: trexp(x) @ y), check=False)'], 'any'),
    ('twist:Twist2.__mul__', 'twist * SE2 composes exp(twist) with the pose', ['SE2(left.binop(right, lambda x, y: trexp2(x) @ y), check=False)'], 'any'),
    ('quaternion:UnitQuaternion.__truediv__', 'q1 / q2 = q1 * conj(q2)', ['UnitQuaternion(left.binop(right, lambda x, y: qqmul(x, conj(y))))'], 'any'),
    ('quaternion:UnitQuaternion.__mul__', 'unit quaternion product', ['right.__class__(left.binop(right, qqmul))'], 'any'),
    ('super_pose:SMPose.__imul__', '*= delegates', ['left.__mul__(right)'], 'return'),
    ('quaternion:UnitQuaternion.__imul__', '*= delegates', ['left.__mul__(right)'], 'return'),
]


def _prod(run):
    """prod folds left-to-right from the identity."""
    f = run.prog.func('super_pose:SMPose.prod')
    fi = FuncInfo.of(f)
    s = f.selfname
    body = body_nodoc(f.node)
    ok_init = ok_loop = ok_ret = False
    acc = None
    for st in body:
        if isinstance(st, ast.Assign) and isinstance(st.targets[0], ast.Name) and \
                (matches('%s.__class__._identity()' % s, st.value) is not None or matches('%s._identity()' % s, st.value) is not None):
            acc = st.targets[0].id
            ok_init = True
        if isinstance(st, ast.For) and acc and matches('%s.data' % s, st.iter) is not None and isinstance(st.target, ast.Name):
            T = st.target.id
            if len(st.body) == 1 and isinstance(st.body[0], ast.Assign) and matches('%s @ %s' % (acc, T), st.body[0].value) is not None \
                    and isinstance(st.body[0].targets[0], ast.Name) and st.body[0].targets[0].id == acc:
                ok_loop = True
            elif len(st.body) == 1 and isinstance(st.body[0], ast.Assign) and matches('%s @ %s' % (T, acc), st.body[0].value) is not None:
                run.violation('R15', f.key, 'fold order', 'prod multiplies each new element on the LEFT (T @ acc): the product is taken in reverse order', f=f, node=st)
                return
        if isinstance(st, ast.Return) and acc and (matches('%s.__class__(%s)' % (s, acc), st.value) is not None or
                                                   matches('%s.__class__(%s, check=False)' % (s, acc), st.value) is not None):
            ok_ret = True
    if ok_init and ok_loop and ok_ret:
        run.holds('R15', f.key, 'fold', 'product starts at the identity and multiplies the elements left to right', f=f)
    else:
        run.violation('R15', f.key, 'fold', 'prod is not `acc = identity; for T in self.data: acc = acc @ T; return cls(acc)` '
                      '(identity start %s, left-to-right step %s, same-class result %s)' % (ok_init, ok_loop, ok_ret), f=f)
    g = run.prog.func('twist:SMTwist.prod')
    gi = FuncInfo.of(g)
    txt = [canon(gi, st, inline=False) if isinstance(st, ast.expr) else st for st in body_nodoc(g.node)]
    # every loop over the elements (one per dimension branch once the exp / log aliases are put in place) folds acc = acc @ exp(tw)
    loops = [st for st in own_walk(g.node) if isinstance(st, ast.For) and matches('%s.data[1:]' % g.selfname, st.iter) is not None]
    ok = bool(loops)
    for st in loops:
        good = False
        if len(st.body) == 1 and isinstance(st.body[0], ast.Assign) and isinstance(st.body[0].targets[0], ast.Name) and isinstance(st.target, ast.Name):
            acc_, T = st.body[0].targets[0].id, st.target.id
            v = canon(gi, st.body[0].value, inline=False)
            for ex in ('exp', 'trexp', 'trexp2'):
                if matches('%s @ %s(%s)' % (acc_, ex, T), v) is not None:
                    good = True
                if matches('%s(%s) @ %s' % (ex, T, acc_), v) is not None:
                    run.violation('R15', g.key, 'fold order', 'twist prod multiplies each new exponential on the LEFT: the product is taken in reverse order', f=g, node=st)
                    return
        ok = ok and good
    if not loops:
        run.error('R15: SMTwist.prod: no loop over self.data[1:]')
    else:
        (run.holds if ok else run.violation)('R15', g.key, 'fold', 'twist product multiplies exp of each element left to right' if ok else
                                             'twist prod is not a left-to-right fold of exp(tw)', f=g)


# =========================================================================== C19 Pluecker / plane conventions
class _Neg(ast.NodeTransformer):
    """negate every occurrence of <obj>.<attr> for attr in attrs"""

    def __init__(self, obj, attrs):
        self.obj = obj
        self.attrs = attrs

    def visit_Attribute(self, n):
        self.generic_visit(n)
        if isinstance(n.value, ast.Name) and n.value.id == self.obj and n.attr in self.attrs:
            return ast.UnaryOp(op=ast.USub(), operand=n)
        return n


def check_even(run, key, desc, obj, attrs, rule='R16s'):
    """The returned predicate is invariant under negation of obj.attr (direction sense): normal forms before and
    after the substitution x -> -x coincide (cross/dot/skew odd, abs/norm even)."""
    cx = Ctx(run, key)
    r = _single_return_value(cx)
    if r is None:
        run.error('%s: %s: expected a single return' % (rule, key))
        return
    e = cx.c(r.value)
    nm = Normaliser(rename=cx.rename, odd_funcs=('skew', 'sin', 'transl', 'vex', 'unitvec'))
    try:
        a = nm.poly(e)
        b = nm.poly(_Neg(obj, attrs).visit(_copy.deepcopy(e)))
    except Unrecognised as ex:
        run.error('%s: %s unrecognised: %s' % (rule, key, ex))
        return
    if a == b:
        run.holds(rule, key, desc, 'normal form is unchanged when %s.%s is negated' % (obj, '/'.join(attrs)), f=cx.f, node=r)
    else:
        run.violation(rule, key, desc, 'the test changes when the direction %s.%s is reversed (%s becomes %s): lines with opposite '
                      'direction sense are treated differently from lines with the same sense' % (obj, '/'.join(attrs), a, b), f=cx.f, node=r)


def tables_c19(run):
    # writers of the moment convention v = w x p
    _plucker_ctor(run, 'geom3d:Plucker.PQ', ['cross(P0 - P1, P0)', 'P0 - P1'], 'moment = (P - Q) x P')
    _plucker_ctor(run, 'geom3d:Plucker.PointDir', ['cross(P1, P0)', 'P1'], 'moment = dir x point')
    _plucker_planes(run)
    check_expr_fn(run, 'geom3d:Plucker.pp', 'principal point', 'cross(SELF.v, SELF.w) / dot(SELF.w, SELF.w)')
    check_expr_fn(run, 'geom3d:Plucker.uw', 'unit direction', 'unitvec(SELF.w)')
    check_expr_fn(run, 'geom3d:Plucker.vec', 'vec', 'r_[SELF.v, SELF.w]')
    check_expr_fn(run, 'geom3d:Plucker.v', 'moment slot', 'SELF.data[0][0:3]')
    check_expr_fn(run, 'geom3d:Plucker.w', 'direction slot', 'SELF.data[0][3:6]')
    # point(lam) = pp + uw * lam
    cx = Ctx(run, 'geom3d:Plucker.point')
    r = _single_return_value(cx)
    if r is not None:
        from ..cfg import pure_locals as _pl2, _subst_pure as _sp2
        rv_ = r.value
        for _ in range(3):
            rv_ = _sp2(rv_, _pl2(cx.f.node))          # origin = self.pp.reshape((3, 1)); direction = ...; return origin + direction * lam
        g = cx.norm.poly(canon(cx.fi, rv_, inline=False))
        w = Normaliser().poly(parse_expr('SELF.pp.reshape((3, 1)) + SELF.uw.reshape((3, 1)) * lam'))
        w2 = Normaliser().poly(parse_expr('SELF.pp.reshape((3, 1)) + SELF.uw.reshape((3, 1)) * P0'))
        (run.holds if g in (w, w2) else run.violation)(RULE, cx.f.key, 'point(lam)', 'pp + uw * lam' if g in (w, w2) else 'point is %s, not pp + uw*lam' % g, f=cx.f, node=r)
    # closest: lam = (x - pp) . uw ; p = point(lam) ; d = |x - p|   -- read from the returned named tuple with every local in place
    cc = Ctx(run, 'geom3d:Plucker.closest')
    rets = sl_eval(cc)
    nmc = Normaliser(rename=cc.rename)
    if len(rets) != 1:
        run.error('R16: Plucker.closest: expected a single return')
    else:
        r, e = rets[0]
        fields = None
        if isinstance(e, ast.Call) and isinstance(e.func, ast.Call) and len(e.func.args) == 2 and isinstance(e.func.args[1], ast.Constant) and isinstance(e.func.args[1].value, str):
            names_ = e.func.args[1].value.replace(',', ' ').split()
            vals_ = dict(zip(names_, e.args))
            vals_.update({k.arg: k.value for k in e.keywords if k.arg})
            fields = vals_
        if not fields or not {'p', 'd', 'lam'} <= set(fields):
            run.error('R16: Plucker.closest: return is not a named tuple with the fields p, d, lam: %s' % src(r.value, 50))
        else:
            LAM = 'dot(P0 - SELF.pp, SELF.uw)'
            P = 'SELF.point(%s).flatten()' % LAM
            for nm_, want, desc in (('lam', LAM, 'dot(x - pp, uw)'), ('p', P, 'point(lam)'), ('d', 'norm(P0 - %s)' % P, 'norm(x - p)')):
                g = nmc.poly(fields[nm_])
                w = Normaliser().poly(parse_expr(want))
                (run.holds if g == w else run.violation)(RULE, cc.f.key, 'closest ' + nm_, desc if g == w else
                                                         'the field %s is %s; the definition is %s = %s' % (nm_, g, desc, w), f=cc.f, node=r)
    # plane convention n.x + d = 0 : writer PN, readers contains / intersect_plane / Planes
    cp = Ctx(run, 'geom3d:Plane.PN')
    r = _single_return_value(cp)
    okw = r is not None and (matches('cls(r_[n, -dot(n, p)])', canon(cp.fi, r.value, inline=False)) is not None or
                             matches('cls(r_[n, -dot(n, p)])', canon(cp.fi, r.value)) is not None)
    if not okw and r is not None:
        ev_ = [e_ for (r_, e_) in sl_eval(cp) if r_ is r]
        okw = any(matches('cls(r_[n, -dot(n, p)])', e_) is not None or matches('cls(r_[n, -dot(p, n)])', e_) is not None for e_ in ev_)
    (run.holds if okw else run.violation)(RULE, cp.f.key, 'plane writer', 'plane = [n, -n.p]  (n.x + d = 0)' if okw else
                                          'Plane.PN does not build [n, -dot(n, p)]', f=cp.f)
    ck = Ctx(run, 'geom3d:Plane.contains')
    r = _single_return_value(ck)
    if r is None:
        run.error('R16: Plane.contains: expected a single return')
    else:
        e = ck.c(r.value)
        b = matches('abs(_E) < _T', e)
        if b is None:
            run.error('R16: Plane.contains is not of the form abs(residual) < tol')
        else:
            # compose with the writer: d := -dot(n, p0), n := n ; the residual at p0 must vanish identically
            class Sub(ast.NodeTransformer):
                def visit_Attribute(self2, n):
                    if isinstance(n.value, ast.Name) and n.value.id == ck.f.selfname:
                        if n.attr == 'd':
                            return parse_expr('-dot(N, %s)' % ck.pname(0))
                        if n.attr == 'n':
                            return ast.Name(id='N', ctx=ast.Load())
                    return n
            res = Normaliser().poly(Sub().visit(_copy.deepcopy(b['_E'])))
            if not res.t:
                run.holds(RULE, ck.f.key, 'plane reader agrees with writer', 'n.p + d vanishes for a plane built by PN from p', f=ck.f, node=r)
            else:
                run.violation(RULE, ck.f.key, 'plane reader agrees with writer', 'for a plane built by PN(p, n) the membership residual at p '
                              'evaluates to %s, not 0: contains() uses the opposite sign convention for d (n.x - d instead of n.x + d)' % res, f=ck.f, node=r)
    # intersect_plane: p = (v x n - d w) / (w . n)
    ci = Ctx(run, 'geom3d:Plucker.intersect_plane')
    vals = {}
    for st in own_walk(ci.f.node):
        if isinstance(st, ast.Assign) and isinstance(st.targets[0], ast.Name):
            vals[st.targets[0].id] = st.value
    nmi = Normaliser(rename={ci.f.selfname: 'SELF'})
    for nm_, want in (('den', 'dot(SELF.w, plane.n)'), ('p', '(cross(SELF.v, plane.n) - plane.d * SELF.w) / den')):
        if nm_ in vals:
            g = nmi.poly(canon(ci.fi, vals[nm_], inline=False))
            w = Normaliser().poly(parse_expr(want))
            (run.holds if g == w else run.violation)(RULE, ci.f.key, 'intersect_plane ' + nm_, want if g == w else
                                                     '%s is %s; with the convention n.x + d = 0 it must be %s' % (nm_, g, w), f=ci.f)
        else:
            run.error('R16: intersect_plane: no assignment to %s' % nm_)
    # SE3 premultiplication block [[R, skew(-t) R], [0, R]]
    cr = Ctx(run, 'geom3d:Plucker.__rmul__')
    A = None
    from ..cfg import pure_locals, _subst_pure
    env = pure_locals(cr.f.node, keep=('A',))
    for st in own_walk(cr.f.node):
        if isinstance(st, ast.Assign) and isinstance(st.targets[0], ast.Name) and st.targets[0].id == 'A':
            A = canon(cr.fi, _subst_pure(st.value, env), inline=False)
    if A is None:
        run.error('R16: Plucker.__rmul__: no A = ... block')
    else:
        rows = block_rows(A)
        if rows is None or len(rows) != 2 or any(len(r_) != 2 for r_ in rows):
            run.error('R16: Plucker.__rmul__: A is not a 2x2 block matrix (r_[c_[.,.], c_[.,.]] / vstack of hstacks / block)')
        else:
            nmr = Normaliser()
            got = [[nmr.poly(x) for x in r_] for r_ in rows]
            want = [[nmr.poly(parse_expr(x)) for x in row] for row in [['left.R', 'skew(-left.t) @ left.R'], ['zeros((3, 3))', 'left.R']]]
            bad = compare_tables(got, want)
            if bad:
                for (i, j, g, w) in bad:
                    run.violation(RULE, cr.f.key, 'SE3 * line block (%d,%d)' % (i, j), 'block is %s; [[R, skew(-t) R], [0, R]] requires %s' % (g, w), f=cr.f)
            else:
                run.holds(RULE, cr.f.key, 'SE3 * line', 'A = [[R, skew(-t) R], [0, R]] applied to [v; w]', f=cr.f)
    check_expr_fn(run, 'geom3d:Plucker.__eq__', 'equality of unit 6-vectors', 'abs(1 - dot(unitvec(SELF.vec), unitvec(P0.vec))) < 10 * _eps')
    check_even(run, 'geom3d:Plucker.isparallel', 'parallelism is independent of direction sense', 'l2', ('w', 'uw'))
    check_expr_fn(run, 'geom3d:Plucker.__mul__', 'reciprocal product', 'dot(SELF.uw, P0.v) + dot(P0.uw, SELF.v)')
    # Twist3.line
    check_routes(run, [('twist:Twist3.line', 'line of action: Plucker(-v - pitch w, w)', ['Plucker([Plucker(-tw.v - tw.pitch() * tw.w, tw.w) for tw in self])'], 'return')], rule=RULE)


def _resolve_hooks(prog, cls, recv, e, depth=0):
    """calls `recv.m(args)` of small methods are replaced by the result expression of the method that class `cls` resolves m to
    (per-class behaviour moved into overriding hook methods)"""
    from ..boolfold import value_expr

    class T(ast.NodeTransformer):
        def visit_Call(self, c):
            self.generic_visit(c)
            if isinstance(c.func, ast.Attribute) and isinstance(c.func.value, ast.Name) and c.func.value.id == recv and not c.keywords \
                    and not any(isinstance(a, ast.Starred) for a in c.args):
                _, m = prog.lookup_member(cls, c.func.attr)
                if m is not None and hasattr(m, 'node') and getattr(m, 'kind', None) == 'method' and len(m.params) == len(c.args) + 1:
                    body = value_expr(m.node)
                    if body is not None and sum(1 for _ in ast.walk(body)) <= 60:
                        env = {m.params[0]: ast.Name(id=recv, ctx=ast.Load())}
                        env.update({p_: a for p_, a in zip(m.params[1:], c.args)})
                        from ..normalize import _SubstMany
                        return _SubstMany(env).visit(_copy.deepcopy(body))
            return c
    out = T().visit(_copy.deepcopy(e))
    return ast.fix_missing_locations(out)


def block_rows(e):
    """rows of blocks of a block-matrix display over 2-D blocks: r_[c_[a, b], c_[c, d]], vstack((hstack((a, b)), hstack((c, d)))),
    block([[a, b], [c, d]]), concatenate((concatenate((a, b), axis=1), ...), axis=0)  ->  [[a, b], [c, d]]  (canonical ASTs), else None"""
    def seq(x):
        return list(x.elts) if isinstance(x, (ast.Tuple, ast.List)) else None

    def call(x, names):
        return isinstance(x, ast.Call) and isinstance(x.func, ast.Name) and x.func.id in names

    def axis_of(x, default):
        for k in x.keywords:
            if k.arg == 'axis' and isinstance(k.value, ast.Constant):
                return k.value.value
        if len(x.args) == 2 and isinstance(x.args[1], ast.Constant):
            return x.args[1].value
        return default

    def row(x):
        if isinstance(x, ast.Subscript) and isinstance(x.value, ast.Name) and x.value.id == 'c_':
            return seq(x.slice)
        if call(x, ('hstack',)) and len(x.args) == 1:
            return seq(x.args[0])
        if call(x, ('concatenate',)) and x.args and axis_of(x, 0) in (1, -1):
            return seq(x.args[0])
        return None
    rows = None
    if isinstance(e, ast.Subscript) and isinstance(e.value, ast.Name) and e.value.id == 'r_':
        rows = seq(e.slice)
    elif call(e, ('vstack',)) and len(e.args) == 1:
        rows = seq(e.args[0])
    elif call(e, ('concatenate',)) and e.args and axis_of(e, 0) == 0:
        rows = seq(e.args[0])
    elif call(e, ('block',)) and len(e.args) == 1:
        rr = seq(e.args[0])
        if rr and all(seq(x) for x in rr):
            return [seq(x) for x in rr]
        return None
    if not rows:
        return None
    out = [row(x) for x in rows]
    return out if all(out) else None


def _plucker_ctor(run, key, want, desc):
    cx = Ctx(run, key)
    rets = sl_eval(cx)
    if len(rets) != 1:
        run.error('R16: %s: expected one return' % key)
        return
    r, e = rets[0]
    b = matches('Plucker(r_[_V, _W])', e)
    if b is None:
        run.error('R16: %s: return is not Plucker(r_[v, w]): %s' % (key, src(e, 60)))
        return
    nm = Normaliser(rename=cx.rename)
    gv, gw = nm.poly(b['_V']), nm.poly(b['_W'])
    wv, ww = Normaliser().poly(parse_expr(want[0])), Normaliser().poly(parse_expr(want[1]))
    if gv == wv and gw == ww:
        run.holds(RULE, key, 'moment convention', desc, f=cx.f, node=r)
    else:
        if gv != wv:
            run.violation(RULE, key, 'moment', 'moment is %s; the convention v = w x p requires %s' % (gv, wv), f=cx.f, node=r)
        if gw != ww:
            run.violation(RULE, key, 'direction', 'direction is %s; expected %s' % (gw, ww), f=cx.f, node=r)


def _plucker_planes(run):
    cx = Ctx(run, 'geom3d:Plucker.Planes')
    vals = {}
    for st in own_walk(cx.f.node):
        if isinstance(st, ast.Assign) and isinstance(st.targets[0], ast.Name):
            vals[st.targets[0].id] = st.value
    nm = Normaliser()
    for nm_, want in (('w', 'cross(pi1.n, pi2.n)'), ('v', 'pi2.d * pi1.n - pi1.d * pi2.n')):
        if nm_ not in vals:
            run.error('R16: Plucker.Planes: no assignment to %s' % nm_)
            continue
        g = nm.poly(canon(cx.fi, vals[nm_], inline=False))
        w = nm.poly(parse_expr(want))
        (run.holds if g == w else run.violation)(RULE, cx.f.key, 'Planes ' + nm_, want if g == w else '%s is %s; with n.x + d = 0 planes it must be %s' % (nm_, g, w), f=cx.f)


# =========================================================================== C20 spatial vectors
def tables_c20(run):
    # motion cross product matrix [[skew(w), skew(v)], [0, skew(w)]] with v = A[0:3], w = A[3:6]
    cx = Ctx(run, 'spatialvector:SpatialM6.cross')
    vc = None
    for st in own_walk(cx.f.node):
        if isinstance(st, ast.Assign) and isinstance(st.targets[0], ast.Name) and st.targets[0].id == 'vcross':
            vc = st
    if vc is None:
        run.error('R16: SpatialM6.cross: no vcross table')
    else:
        rows = matrix_literal(cx.c(vc.value))
        if rows is None:
            run.error('R16: SpatialM6.cross: vcross is not a literal matrix')
        else:
            A = 'SELF.A'
            v = ['%s[%d]' % (A, i) for i in range(6)]
            def sk(a, b, c):
                return [['0', '-' + c, b], [c, '0', '-' + a], ['-' + b, a, '0']]
            W = sk(v[3], v[4], v[5])
            V = sk(v[0], v[1], v[2])
            want = [W[i] + V[i] for i in range(3)] + [['0', '0', '0'] + W[i] for i in range(3)]
            _report_table(run, cx, cx.f.key, 'motion cross-product matrix', rows, want, node=vc)
    # results: motion -> vcross @ other.A as SpatialAcceleration ; force -> -vcross.T @ other.A as SpatialForce
    f = cx.f
    fi = cx.fi
    seen = {'m': False, 'f': False}
    cfgf = must_facts(cx.cfg)
    from ..cfg import pure_locals as _pl, _subst_pure as _sp
    env_cross = _pl(f.node, keep=('vcross',))
    for r, fs in cx.returns():
        e = canon(fi, _sp(r.value, env_cross), inline=False)
        if any(fc[1] and matches('isinstance(other, SpatialVelocity)', fc[2].ast) is not None for fc in fs):
            ok = matches('SpatialAcceleration(vcross @ other.A)', e) is not None
            seen['m'] = True
            (run.holds if ok else run.violation)(RULE, f.key, 'v x m', 'motion result = vcross @ m (SpatialAcceleration)' if ok else
                                                 'motion cross product is %s, not SpatialAcceleration(vcross @ other.A)' % src(r.value, 60), f=f, node=r)
        elif any(fc[1] and matches('isinstance(other, SpatialF6)', fc[2].ast) is not None for fc in fs):
            ok = matches('SpatialForce(-vcross.T @ other.A)', e) is not None
            seen['f'] = True
            (run.holds if ok else run.violation)(RULE, f.key, 'v x* f', 'force result = -vcross^T @ f (SpatialForce)' if ok else
                                                 'force cross product is %s, not SpatialForce(-vcross.T @ other.A): the duality (v x* f).m = -f.(v x m) is lost' % src(r.value, 60), f=f, node=r)
    for k, nm_ in (('m', 'motion'), ('f', 'force')):
        if not seen[k]:
            run.error('R16: SpatialM6.cross: %s branch not found' % nm_)
    # SE3 * spatial vector: Ad @ for motion, Ad.T @ for force -- decided per CONCRETE class through the method each one resolves to
    # (an override on one force class does not cover its sibling)
    prog = run.prog
    from ..cfg import pure_locals, _subst_pure
    m6, f6 = prog.classes.get('SpatialM6'), prog.classes.get('SpatialF6')
    concrete = [c for c in prog.classes.values() if (m6 in c.mro or f6 in c.mro) and c not in (m6, f6) and not prog.subclasses(c, strict=True)]
    if len(concrete) < 4:
        run.error('R16: fewer than 4 concrete spatial vector classes found (anchor not found in the current source)')
    cache = {}
    for c in sorted(concrete, key=lambda c: c.name):
        motion = m6 in c.mro
        _, g = prog.lookup_member(c, '__rmul__')
        label = '%s transform of %s' % ('motion' if motion else 'force', c.name)
        if g is None or not hasattr(g, 'node'):
            run.error('R16: %s has no __rmul__' % c.name)
            continue
        if g.key not in cache:
            cache[g.key] = Ctx(run, g.key)
        cr = cache[g.key]
        rightp, leftp = cr.f.params[0], cr.f.params[1]
        env = pure_locals(cr.f.node)
        PM = ('_C([%s.Ad() @ _X for _X in %s.data])' % (leftp, rightp), '_C(%s.Ad() @ %s.A)' % (leftp, rightp))
        PF = ('_C([%s.Ad().T @ _X for _X in %s.data])' % (leftp, rightp), '_C(%s.Ad().T @ %s.A)' % (leftp, rightp))
        verdicts = []
        for r, fs in cr.returns():
            # is this return reachable for an operand of class c?  (isinstance facts on the vector operand, by the class model)
            feasible = True
            for fc in fs:
                b = matches('isinstance(%s, _K)' % rightp, fc[2].ast)
                if b is None:
                    continue
                ks = b['_K'].elts if isinstance(b['_K'], ast.Tuple) else [b['_K']]
                kcs = [prog.classes.get(k.id) for k in ks if isinstance(k, ast.Name)]
                if len(kcs) != len(ks) or any(k is None for k in kcs):
                    continue
                isin = any(k in c.mro for k in kcs)
                if isin != fc[1]:
                    feasible = False
            if not feasible:
                continue
            e = canon(cr.fi, _resolve_hooks(prog, c, rightp, _subst_pure(r.value, env)), inline=True)
            PW = ('_C([_X @ %s.Ad() for _X in %s.data])' % (leftp, rightp), '_C([_X @ %s.Ad().T for _X in %s.data])' % (leftp, rightp),
                  '_C(%s.A @ %s.Ad())' % (rightp, leftp), '_C(%s.A @ %s.Ad().T)' % (rightp, leftp))
            if any(matches(p_, e) is not None for p_ in PM):
                verdicts.append(('motion', r))
            elif any(matches(p_, e) is not None for p_ in PF):
                verdicts.append(('force', r))
            elif any(matches(p_, e) is not None for p_ in PW):
                verdicts.append(('rowvec', r))
            else:
                verdicts.append((None, r))
        if not verdicts:
            run.error('R16: %s.__rmul__ (%s): no value return reachable for this class' % (c.name, g.key))
            continue
        for kind, r in verdicts:
            if kind == 'rowvec':
                run.violation(RULE, g.key, label, 'the vector is the LEFT factor of the product with the adjoint (x @ Ad): that applies the transposed '
                              'matrix -- the motion rule to a force and the force rule to a motion', f=cr.f, node=r)
            elif kind is None:
                run.error('R16: %s: %s returns an unrecognised form %s' % (label, g.key, src(r.value, 60)))
            elif (kind == 'motion') == motion:
                run.holds(RULE, g.key, label, 'Ad @ v' if motion else 'Ad^T @ f', f=cr.f, node=r)
            else:
                run.violation(RULE, g.key, label, '%s resolves SE3 * vector to %s, which maps the value by %s; a %s vector must be mapped by %s' % (
                    c.name, g.key.split(':')[1], 'Ad @ x' if kind == 'motion' else 'Ad^T @ x', 'motion' if motion else 'force',
                    'Ad @ v' if motion else 'Ad^T @ f (the dual transform)'), f=cr.f, node=r)
    # spatial inertia block
    ci = Ctx(run, 'spatialvector:SpatialInertia.__init__')
    blk = None
    for st in own_walk(ci.f.node):
        if isinstance(st, ast.Assign) and isinstance(st.value, ast.Call) and matches('block(__)', canon(ci.fi, st.value, inline=False)) is not None:
            blk = st
    if blk is None:
        run.error('R16: SpatialInertia.__init__: no np.block table')
    else:
        from ..cfg import pure_locals, _subst_pure
        # locals that only name parts of the block (mC = m * C) are substituted; a local that holds the rotational inertia argument
        # (I itself, getmatrix(I, ..) or the zero default) is the same atom as I
        blk_val = _subst_pure(canon(ci.fi, blk.value, inline=False), {k: canon(ci.fi, v, inline=False) for k, v in pure_locals(ci.f.node).items()})
        alias = {}
        defs_ = {}
        for st in own_walk(ci.f.node):
            if isinstance(st, ast.Assign) and len(st.targets) == 1 and isinstance(st.targets[0], ast.Name):
                defs_.setdefault(st.targets[0].id, []).append(canon(ci.fi, st.value, inline=False))
        for nm_, vs in defs_.items():
            if nm_ != 'I' and vs and all(matches('zeros((3, 3))', v) is not None or matches('getmatrix(I, __)', v) is not None or
                                          (isinstance(v, ast.Name) and v.id == 'I') for v in vs):
                alias[nm_] = 'I'
        b = _blocks(blk_val)
        nm = Normaliser(rename=alias)
        nm.scalars = {'m'}
        got = [[nm.poly(x) for x in r_] for r_ in b]
        pl_ = pure_locals(ci.f.node)
        cdef = {'C': canon(ci.fi, pl_['C'], inline=False)} if 'C' in pl_ else {}
        want = [[nm.poly(_subst_pure(parse_expr(x), cdef)) for x in r_] for r_ in [['m * eye(3)', 'm * C.T'], ['m * C', 'I + m * C @ C.T']]]
        bad = compare_tables(got, want)
        if bad:
            for (i, j, g, w) in bad:
                run.violation(RULE, ci.f.key, 'inertia block (%d,%d)' % (i, j), 'block is %s; the parallel-axis matrix [[m I, m C^T],[m C, I + m C C^T]] requires %s' % (g, w), f=ci.f, node=blk)
        else:
            run.holds(RULE, ci.f.key, 'parallel-axis matrix', '[[m I, m C^T], [m C, I + m C C^T]], C = skew(r)', f=ci.f, node=blk)
        okc = any(isinstance(st, ast.Assign) and isinstance(st.targets[0], ast.Name) and st.targets[0].id == 'C' and
                  matches('skew(r)', canon(ci.fi, st.value, inline=False)) is not None for st in own_walk(ci.f.node))
        (run.holds if okc else run.violation)(RULE, ci.f.key, 'C = skew(r)', 'C is the skew matrix of the centre of mass' if okc else 'C is not skew(r)', f=ci.f)
    check_routes(run, [
        ('spatialvector:SpatialInertia.__add__', 'inertias add', ['SpatialInertia(left.A + right.A)'], 'return'),
        ('spatialvector:SpatialVelocity.__matmul__', '@ is the cross product', ['self.cross(other)'], 'return'),
        ('spatialvector:SpatialInertia.__mul__', 'inertia times acceleration is a force', ['SpatialForce(left.binop(right, lambda x, y: x @ y))', 'SpatialForce(left.A @ right.A)'], 'any'),
        ('spatialvector:SpatialInertia.__mul__', 'inertia times velocity is a momentum', ['SpatialMomentum(left.binop(right, lambda x, y: x @ y))', 'SpatialMomentum(left.A @ right.A)'], 'any'),
        ('spatialvector:SpatialInertia.__rmul__', 'vector * inertia is inertia * vector', ['self.__mul__(left)'], 'return'),
    ], rule=RULE)
    # typed guards of + and -
    for key, opn in (('spatialvector:SpatialVector.__add__', '+'), ('spatialvector:SpatialVector.__sub__', '-')):
        cx2 = Ctx(run, key)
        rs = cx2.returns()
        if len(rs) != 1:
            run.error('R16: %s: expected one return' % key)
            continue
        r, fs = rs[0]
        tg = any((not fc[1]) and matches('type(left) != type(right)', fc[2].ast) is not None or fc[1] and matches('type(left) == type(right)', fc[2].ast) is not None for fc in fs)
        lg = any((not fc[1]) and matches('len(left) != len(right)', fc[2].ast) is not None or fc[1] and matches('len(left) == len(right)', fc[2].ast) is not None for fc in fs)
        e = canon(cx2.fi, r.value, inline=False)
        form = matches('left.__class__([x %s y for x, y in zip(left.data, right.data)])' % opn, e) is not None
        (run.holds if tg else run.violation)(RULE, key, 'class guard', 'same-class test dominates the arithmetic' if tg else 'mixed spatial-vector classes are not rejected before the arithmetic', f=cx2.f)
        (run.holds if lg else run.violation)(RULE, key, 'length guard', 'equal-length test dominates the arithmetic' if lg else 'unequal lengths are not rejected (zip truncates)', f=cx2.f)
        (run.holds if form else run.violation)(RULE, key, 'element-wise form', 'left.__class__([x %s y ...])' % opn if form else 'result is %s' % src(r.value, 60), f=cx2.f)
    # constructor: form tests look at the raw argument (a list of values must not be coerced to a matrix)
    cc = Ctx(run, 'spatialvector:SpatialVector.__init__')
    val = cc.pname(0)
    bad = []
    n = 0
    for st in own_walk(cc.f.node):
        if isinstance(st, ast.Call):
            nm_ = None
            ce = canon(cc.fi, st, inline=False)
            if isinstance(ce.func, ast.Name) and ce.func.id in ('isvector', 'ismatrix', 'isinstance') and ce.args:
                n += 1
                a0 = st.args[0]
                if not (isinstance(a0, ast.Name) and a0.id == val):
                    bad.append((st, a0))
    if bad:
        run.violation(RULE, cc.f.key, 'form tests on the raw argument', 'the argument-form test %s is applied to a coerced copy (%s), not to the '
                      'argument itself: a LIST of per-value vectors is then taken for a 6xN matrix (columns), so results of +, -, unary - '
                      'on 6-valued objects are transposed' % (src(bad[0][0], 50), src(bad[0][1], 30)), f=cc.f, node=bad[0][0])
    elif n:
        run.holds(RULE, cc.f.key, 'form tests on the raw argument', '%d form tests applied to the argument itself' % n, f=cc.f)
    else:
        run.error('R16: SpatialVector.__init__: no form tests found')
    # a 3-vector argument is the linear / moment part: it is padded with three ZEROS to a 6-vector
    pads = [x for x in own_walk(cc.f.node) if isinstance(x, ast.Subscript) and matches('r_[%s, _A, _B, _C]' % val, canon(cc.fi, x, inline=False)) is not None]
    for x in pads:
        b = matches('r_[%s, _A, _B, _C]' % val, canon(cc.fi, x, inline=False))
        zeros = all(isinstance(b[k], ast.Constant) and b[k].value == 0 and not isinstance(b[k].value, bool) for k in ('_A', '_B', '_C'))
        (run.holds if zeros else run.violation)(RULE, cc.f.key, '3-vector padding', 'padded with zeros' if zeros else
                                                'a 3-vector argument is padded with %s instead of three zeros' % src(x, 40), f=cc.f, node=x)
    if not pads:
        run.error('R16: SpatialVector.__init__: no r_[value, 0, 0, 0] padding of the 3-vector form')


# =========================================================================== C18 unit twists
def tables_c18(run):
    # Revolute: w = unitvec(a); v = -cross(w, q) [+ pitch * w]; cls(v, w)
    cx = Ctx(run, 'twist:Twist3.Revolute')
    rets = sl_eval(cx)
    nm = Normaliser(rename=cx.rename)
    ws = [Normaliser().poly(parse_expr('cls(-cross(unitvec(P0), P1), unitvec(P0))')),
          Normaliser().poly(parse_expr('cls(-cross(unitvec(P0), P1) + P2 * unitvec(P0), unitvec(P0))'))]
    if not rets:
        run.error('R16: Twist3.Revolute: no return')
    for (r, e) in rets:
        g = nm.poly(e)
        (run.holds if g in ws else run.violation)(RULE, cx.f.key, 'revolute twist' + (' with pitch' if g == ws[1] else ''),
                                                  'v = -w x q (+ pitch w), w = unitvec(a)' if g in ws else
                                                  'Revolute builds %s; the definition is %s' % (g, ws[0]), f=cx.f, node=r)
    cp = Ctx(run, 'twist:Twist3.Prismatic')
    rets = sl_eval(cp)
    w = Normaliser().poly(parse_expr('cls(unitvec(P0), r_[0, 0, 0])'))
    for (r, e) in rets:
        g = Normaliser(rename=cp.rename).poly(e)
        (run.holds if g == w else run.violation)(RULE, cp.f.key, 'prismatic twist', 'v = unitvec(a), w = 0' if g == w else
                                                 'Prismatic builds %s; the definition is %s' % (g, w), f=cp.f, node=r)
    c2 = Ctx(run, 'twist:Twist2.Revolute')
    rets = sl_eval(c2)
    w = Normaliser().poly(parse_expr('cls((-cross(r_[0.0, 0.0, 1.0], r_[P0, 0.0]))[:2], 1)'))
    for (r, e) in rets:
        g = Normaliser(rename=c2.rename).poly(e)
        (run.holds if g == w else run.violation)(RULE, c2.f.key, 'planar revolute twist', 'v = -(z x [q,0])[:2], w = 1' if g == w else
                                                 'Twist2.Revolute builds %s; the definition is %s' % (g, w), f=c2.f, node=r)
    c3 = Ctx(run, 'twist:Twist2.Prismatic')
    for (r, e) in sl_eval(c3):
        g = Normaliser(rename=c3.rename).poly(e)
        w = Normaliser().poly(parse_expr('cls(unitvec(P0), 0)'))
        (run.holds if g == w else run.violation)(RULE, c3.f.key, 'planar prismatic twist', 'v = unitvec(a), w = 0' if g == w else
                                                 'Twist2.Prismatic builds %s' % g, f=c3.f, node=r)
    for key, nm_, want in (
            ('twist:Twist3.v', 'v slot', 'SELF.data[0][:3]'), ('twist:Twist3.w', 'w slot', 'SELF.data[0][3:6]'),
            ('twist:Twist2.v', 'v slot', 'SELF.data[0][:2]'), ('twist:Twist2.w', 'w slot', 'SELF.data[0][2]'),
            ('twist:Twist3.pitch', 'pitch', 'dot(SELF.w, SELF.v)'), ('twist:Twist3.theta', 'theta', 'norm(SELF.w)'),
            ('twist:Twist3.pole', 'pole', 'cross(SELF.w, SELF.v) / SELF.theta()')):
        check_expr_fn(run, key, nm_, want)
    check_routes(run, [
        ('twist:Twist3.se3', 'se(3) matrix form', ['skewa(self.S)', '[skewa(x.S) for x in self]'], 'return'),
        ('twist:Twist2.se2', 'se(2) matrix form', ['skewa(self.S)', '[skewa(x.S) for x in self]'], 'return'),
        ('twist:Twist3.SE3', 'SE3 of a twist is its exponential', ['SE3(self.exp())'], 'return'),
        ('twist:Twist2.SE2', 'SE2 of a twist is its exponential', ['SE2(self.exp())'], 'return'),
        ('twist:Twist3.Ad', 'adjoint through the exponential', ['self.SE3().Ad()'], 'return'),
        ('pose3d:SE3.Twist3', 'twist of a pose is its logarithm', ['Twist3(self.log(twist=True))'], 'return'),
        ('pose2d:SE2.Twist2', 'twist of a pose is its logarithm', ['Twist2(self.log(twist=True))'], 'return'),
    ], rule=RULE)
    # axis twists: Rx / Ry / Rz are the unit rotational twists [0 0 0 | e_i] scaled by the converted angle
    check_routes(run, [
        ('twist:Twist3.Rx', 'rotational twist about x', ['cls([r_[0, 0, 0, _X, 0, 0] for _X in getunit(getvector(theta), unit)])'], 'return'),
        ('twist:Twist3.Ry', 'rotational twist about y', ['cls([r_[0, 0, 0, 0, _X, 0] for _X in getunit(getvector(theta), unit)])'], 'return'),
        ('twist:Twist3.Rz', 'rotational twist about z', ['cls([r_[0, 0, 0, 0, 0, _X] for _X in getunit(getvector(theta), unit)])'], 'return'),
    ], rule=RULE)
    # exp: trexp(S * theta) for scalar theta, per element for vector theta
    for key, ex, cls in (('twist:Twist3.exp', 'trexp', 'SE3'), ('twist:Twist2.exp', 'trexp2', 'SE2')):
        f = run.prog.func(key)
        fi = FuncInfo.of(f)
        # names are metavariables: the converted angle may live in any local, the loop variables may be called anything; the single
        # value of a one-valued twist is self.S or self.data[0] (possibly held in a local)
        from ..cfg import pure_locals, _subst_pure
        env = pure_locals(f.node)
        pats = ['%s(%s(self.S * _TH))' % (cls, ex), '%s([%s(_S * _TH) for _S in self.data])' % (cls, ex),
                '%s([%s(self.S * _T) for _T in _TH])' % (cls, ex), '%s([%s(self.data[0] * _T) for _T in _TH])' % (cls, ex),
                '%s([%s(_S * _T) for _S, _T in zip(self.data, _TH)])' % (cls, ex)]
        unscaled = ['%s(%s(self.S))' % (cls, ex), '%s([%s(_S) for _S in self.data])' % (cls, ex)]
        bad = []
        odd = []
        n = 0
        for r in own_returns(f.node):
            if r.value is None:
                continue
            n += 1
            e = canon(fi, _subst_pure(r.value, {k_: v_ for k_, v_ in env.items() if isinstance(v_, (ast.Subscript, ast.Attribute))}), inline=False)
            if any(matches(p, e) is not None for p in pats):
                continue
            if any(matches(p, e) is not None for p in unscaled):
                bad.append(r)
            else:
                odd.append(r)
        if bad:
            run.violation(RULE, key, 'exp form', 'return %s is not %s(%s(S * theta)): the motion parameter is not applied' % (src(bad[0].value, 60), cls, ex), f=f, node=bad[0])
        elif odd:
            run.error('R16: %s: return %s has none of the recognised forms %s(%s(S * theta))' % (key, src(odd[0].value, 60), cls, ex))
        elif n:
            run.holds(RULE, key, 'exp form', 'exp(theta) = %s(S * theta), element-wise for vector theta' % ex, f=f)
    # isprismatic = iszerovec(w)
    f = run.prog.func('twist:SMTwist.isprismatic')
    fi = FuncInfo.of(f)
    rs = [canon(fi, r.value, inline=False) for r in own_returns(f.node) if r.value is not None]
    ok = any(matches('iszerovec(self.w)', e) is not None for e in rs)
    (run.holds if ok else run.violation)(RULE, f.key, 'prismatic test', 'prismatic iff the rotational part is zero' if ok else
                                         'isprismatic is not iszerovec(self.w)', f=f)


# =========================================================================== C05 extraction side
def tables_c05(run):
    # tr2eul: the singular branch is the general formula specialised at phi = 0 (sp = 0, cp = 1); flip selects the second solution
    from .r19_angles import _tr2eul_paths
    cx = Ctx(run, 'base/transforms3d:tr2eul')
    f = cx.f
    fi = cx.fi
    cls = _tr2eul_paths(run, f, fi)
    if 'singular' not in cls or 'general' not in cls:
        run.error('R16: tr2eul: singular / general paths not found (%s)' % sorted(cls))
    else:
        sing, gen = cls['singular'], cls['general']
        nm = Normaliser()

        class Spec(ast.NodeTransformer):
            def visit_Call(self2, n):
                self2.generic_visit(n)
                if isinstance(n.func, ast.Name) and n.func.id in ('sin', 'cos') and n.args and ast.unparse(n.args[0]) == 'eul[0]':
                    return ast.Constant(value=0 if n.func.id == 'sin' else 1)
                return n
        for i in (1, 2):
            gs = Spec().visit(_copy.deepcopy(gen[i]))
            try:
                a, b = nm.poly(sing[i]), nm.poly(gs)
            except Unrecognised as ex:
                run.error('R16: tr2eul unrecognised: %s' % ex)
                continue
            if a == b:
                run.holds(RULE, f.key, 'singular branch eul[%d]' % i, 'equals the general formula at phi = 0', f=f)
            else:
                run.violation(RULE, f.key, 'singular branch eul[%d]' % i, 'in the singular branch (phi chosen 0) eul[%d] is %s, but the general '
                              'formula specialised at phi = 0 gives %s: the rebuilt rotation differs at the singular configuration' % (i, a, b), f=f)
        run.holds(RULE, f.key, 'singular branch eul[0]', 'phi = 0 is chosen', f=f)
    okflip = 'flip' in cls and 'general' in cls and matches('atan2(-R[1, 2], -R[0, 2])', cls['flip'][0]) is not None and \
        matches('atan2(R[1, 2], R[0, 2])', cls['general'][0]) is not None
    if 'flip' in cls and 'general' in cls and not okflip:
        # R may be a local: compare after substitution of T-parts is not needed, the slot expression mentions the matrix name used
        a0, g0 = cls['flip'][0], cls['general'][0]
        bf = matches('atan2(-_A, -_B)', a0)
        bg = matches('atan2(_A, _B)', g0)
        okflip = bf is not None and bg is not None and ast.unparse(bf['_A']) == ast.unparse(bg['_A']) and ast.unparse(bf['_B']) == ast.unparse(bg['_B'])
    (run.holds if okflip else run.violation)(RULE, f.key, 'flip', 'flip selects atan2(-R12, -R02)' if okflip else 'flip does not select the second solution atan2(-R[1,2], -R[0,2])', f=f)
    # T31 planar slots
    cx2 = Ctx(run, 'base/transforms2d:tr2xyt')
    rets = sl_eval(cx2)
    if rets:
        g = {str(Normaliser(rename=cx2.rename).poly(e)) for (r, e) in rets}
        w1 = str(Normaliser().poly(parse_expr('r_[P0[0, 2], P0[1, 2], atan2(P0[1, 0], P0[0, 0])]')))
        w2 = str(Normaliser().poly(parse_expr('r_[P0[0, 2], P0[1, 2], atan2(P0[1, 0], P0[0, 0]) * (180.0 / pi)]')))
        ok = g <= {w1, w2} and w1 in g
        (run.holds if ok else run.violation)(RULE, cx2.f.key, 'xyt slots', '[T[0,2], T[1,2], atan2(T[1,0], T[0,0])]' if ok else 'tr2xyt returns %s' % sorted(g), f=cx2.f)
    # tr2angvec: (norm(v), unitvec(v)) of v = vex(trlog(R)), zero pair for the identity -- decided on the returned pair of every path
    # with locals substituted, so the names of the locals do not matter
    ca = Ctx(run, 'base/transforms3d:tr2angvec')
    rets = sl_eval(ca)
    T = ca.pname(0)
    gen = zero = None
    for (r, e) in rets:
        if not (isinstance(e, ast.Tuple) and len(e.elts) == 2):
            continue
        th, ax = e.elts
        # theta may carry the degree scaling: strip a trailing `* 180 / pi` factor
        b = matches('_X * 180 / pi', th) or matches('_X * (180 / pi)', th) or matches('_X * 180.0 / pi', th)
        th0 = b['_X'] if b is not None else th
        if isinstance(th0, ast.Constant) and th0.value == 0:
            zero = (r, ax)
        elif matches('norm(_V)', th0) is not None:
            gen = (r, matches('norm(_V)', th0)['_V'], ax)
    if gen is None:
        run.error('R16: tr2angvec: no path returning (norm(v), axis) was recognised')
    else:
        r, v, ax = gen
        okv = any(matches(p_, v) is not None for p_ in ('vex(trlog(R))', 'vex(trlog(%s))' % T, 'vex(trlog(t2r(%s)))' % T))
        oku = matches('unitvec(_V)', ax) is not None and ast.unparse(matches('unitvec(_V)', ax)['_V']) == ast.unparse(v)
        if okv:
            run.holds(RULE, ca.f.key, 'rotation vector', 'v = vex(trlog(R))', f=ca.f, node=r)
        else:
            run.error('R16: tr2angvec: the rotation vector %s is not vex(trlog(R))' % src(v, 40))
        run.holds(RULE, ca.f.key, 'angle', 'theta = norm(v)', f=ca.f, node=r)
        (run.holds if oku else run.violation)(RULE, ca.f.key, 'axis', 'axis = unitvec(v) of the same rotation vector' if oku else
                                              'the axis %s is not unitvec of the rotation vector whose norm is the angle (%s)' % (src(ax, 40), src(v, 30)), f=ca.f, node=r)
    (run.holds if zero is not None else run.error)(*((RULE, ca.f.key, 'zero rotation', 'theta = 0 for the identity') if zero is not None else
                                                     ('R16: tr2angvec: no path returning theta = 0 for the null rotation',)), **({'f': ca.f} if zero is not None else {}))


# =========================================================================== C14 normalisers
def tables_c14(run):
    check_expr_fn(run, 'base/quaternions:unit', 'unit quaternion', 'P0 / norm(P0)')
    for key in ('base/vectors:unitvec',):
        cx = Ctx(run, key)
        rs = [(r, e) for (r, e) in sl_eval(cx) if not (isinstance(e, ast.Constant) and e.value is None)]
        ok = len(rs) == 1 and Normaliser(rename=cx.rename).poly(rs[0][1]) == Normaliser().poly(parse_expr('P0 / norm(P0)'))
        (run.holds if ok else run.violation)(RULE, key, 'v / |v|', 'divides by the norm of the same vector' if ok else 'unitvec is not v / norm(v)', f=cx.f)
    cx = Ctx(run, 'base/vectors:unitvec_norm')
    rs = [(r, e) for (r, e) in sl_eval(cx) if not (isinstance(e, ast.Constant) and e.value is None)]
    ok = len(rs) == 1 and Normaliser(rename=cx.rename).poly(rs[0][1]) == Normaliser().poly(parse_expr('(P0 / norm(P0), norm(P0))'))
    (run.holds if ok else run.violation)(RULE, cx.f.key, '(v / |v|, |v|)', 'direction and norm of the same vector' if ok else 'unitvec_norm is not (v/norm(v), norm(v))', f=cx.f)
    # unit twists: theta = norm(v) if the rotational part is zero else norm(w) / abs(w); S / theta
    for key, nv, wsel, zf, nf in (('base/vectors:unittwist', 3, 'P0[3:6]', 'iszerovec', 'norm'), ('base/vectors:unittwist_norm', 3, 'P0[3:6]', 'iszerovec', 'norm'),
                                  ('base/vectors:unittwist2', 2, 'P0[2]', 'iszero', 'abs'), ('base/vectors:unittwist2_norm', 2, 'P0[2]', 'iszero', 'abs')):
        cx = Ctx(run, key)
        f = cx.f
        nm = Normaliser(rename=cx.rename)
        w_want = Normaliser().poly(parse_expr(wsel))
        scale = {True: Normaliser().poly(parse_expr('norm(P0[0:%d])' % nv)), False: Normaliser().poly(parse_expr('%s(%s)' % (nf, wsel)))}
        seen = {}
        bad = False
        for (r, val, conds) in sl_eval(cx, with_conds=True):
            if isinstance(val, ast.Constant) and val.value is None:
                continue
            if isinstance(val, ast.Tuple) and all(isinstance(x, ast.Constant) and x.value is None for x in val.elts):
                continue
            conds = [(_StripNorm().visit(_copy.deepcopy(c)), p_) for (c, p_) in conds]      # S = getvector(S, n) is the argument itself
            # the selector test on this path: zf(<rotational part>)
            pol = None
            for (c, p_) in conds:
                b = matches('%s(_W)' % zf, c) or matches('%s(_W, *_X)' % zf, c)
                if b is not None and nm.poly(b['_W']) == w_want:
                    pol = p_
            if pol is None:
                sels = [c for (c, p_) in conds if matches('%s(_W)' % zf, c) is not None or matches('%s(_W, *_X)' % zf, c) is not None]
                whole = Normaliser().poly(parse_expr('P0'))
                sels = [c for c in sels if nm.poly((matches('%s(_W)' % zf, c) or matches('%s(_W, *_X)' % zf, c))['_W']) != whole]
                if sels:
                    run.violation(RULE, key, 'selector', 'the scale is selected by %s, not by a zero test of the rotational part %s' % (src(sels[-1], 40), wsel), f=f, node=r)
                    bad = True
                continue
            parts = list(val.elts) if isinstance(val, ast.Tuple) else [val]
            want = Normaliser().poly(parse_expr('P0')) * Poly.atom('inv(%s)' % str(scale[pol]))
            got = nm.poly(parts[0])
            label = 'irrotational scale' if pol else 'rotational scale'
            msg = 'theta = norm(v) when the rotational part is zero' if pol else 'theta = %s(w) otherwise' % nf
            ok = got == nm.poly(parse_expr('P0 / (%s)' % ('norm(P0[0:%d])' % nv if pol else '%s(%s)' % (nf, wsel))))
            seen[pol] = True
            run.holds(RULE, key, 'selector (%s path)' % ('zero' if pol else 'non-zero'), 'the path is selected by %s(%s), the rotational part' % (zf, wsel), f=f, node=r)
            if ok and (len(parts) == 1 or nm.poly(parts[1]) == scale[pol]):
                run.holds(RULE, key, label, msg + '; returns S / theta', f=f, node=r)
            else:
                run.violation(RULE, key, label, msg + ' -- NOT the case: the path returns %s' % ', '.join(str(nm.poly(x)) for x in parts), f=f, node=r)
                bad = True
        if not bad and set(seen) != {True, False}:
            run.error('R16: %s: selector if/else not found (value paths under %s(%s): %s)' % (key, zf, wsel, sorted(seen)))
    # angdiff: mod(x + pi, 2 pi) - pi with x = a or a - b
    cx = Ctx(run, 'base/vectors:angdiff')
    got = {str(Normaliser(rename=cx.rename).poly(e)) for (r, e) in sl_eval(cx)}
    want = {str(Normaliser().poly(parse_expr('mod(P0 + pi, 2 * pi) - pi'))), str(Normaliser().poly(parse_expr('mod(P0 - P1 + pi, 2 * pi) - pi')))}
    (run.holds if got == want else run.violation)(RULE, cx.f.key, 'angle wrapping', 'mod(x + pi, 2 pi) - pi for x = a and x = a - b' if got == want else
                                                  'angdiff returns %s; the definition is %s' % (sorted(got), sorted(want)), f=cx.f)
    check_routes(run, [
        ('super_pose:SMPose.norm', '2D objects normalise with trnorm2', ['self.__class__([trnorm2(x) for x in self.data])'], 'any'),
        ('super_pose:SMPose.norm', '3D objects normalise with trnorm', ['self.__class__([trnorm(x) for x in self.data])'], 'any'),
        ('quaternion:Quaternion.unit', 'unit quaternion of every element', ['UnitQuaternion([unit(q._A) for q in self], norm=False)'], 'return'),
        ('twist:SMTwist.unit', 'twist unit through unittwist / unittwist2', ['Twist2(unittwist2(self.S))', 'Twist3(unittwist(self.S))'], 'return'),
    ], rule=RULE)


# =========================================================================== C06 applying a pose to points
class _HomogIdioms(ast.NodeTransformer):
    """spell-outs of the homogeneous lift / projection are folded back to the library functions they equal:
         X[:-1, :] / X[-1, :]  (also X[:-1] / X[-1])            -> h2e(X)
         vstack([V, ones(..)]) / vstack((V, ones(..)))           -> e2h(V)"""

    def visit_BinOp(self, n):
        self.generic_visit(n)
        if isinstance(n.op, ast.Div):
            for pa, pb in (('_X[:-1, :]', '_Y[-1, :]'), ('_X[:-1]', '_Y[-1]'), ('_X[0:-1, :]', '_Y[-1, :]')):
                a, b = matches(pa, n.left), matches(pb, n.right)
                if a is not None and b is not None and ast.dump(a['_X']) == ast.dump(b['_Y']):
                    return ast.Call(func=ast.Name(id='h2e', ctx=ast.Load()), args=[a['_X']], keywords=[])
        return n

    def visit_Call(self, n):
        self.generic_visit(n)
        if isinstance(n.func, ast.Name) and n.func.id == 'vstack' and len(n.args) == 1 and isinstance(n.args[0], (ast.List, ast.Tuple)) \
                and len(n.args[0].elts) == 2 and matches('ones(_S)', n.args[0].elts[1]) is not None:
            return ast.Call(func=ast.Name(id='e2h', ctx=ast.Load()), args=[n.args[0].elts[0]], keywords=[])
        return n


def _homog_idioms(e):
    return ast.fix_missing_locations(_HomogIdioms().visit(_copy.deepcopy(e)))


def _matmul_roles(e, roles):
    """every `a @ b` inside e with the role ('pose' / 'point' / None) of each factor; roles flow through attribute access
    (.A, .T, .data), e2h/h2e/getvector/flatten and comprehension targets (including zip)"""
    out = []

    def role(x, env):
        if isinstance(x, ast.Name):
            return env.get(x.id)
        if isinstance(x, ast.Attribute) and x.attr in ('A', 'T', 'data', '_A'):
            return role(x.value, env)
        if isinstance(x, ast.Call):
            if isinstance(x.func, ast.Name) and x.func.id in ('e2h', 'h2e', 'getvector', 'array', 'asarray') and x.args:
                return role(x.args[0], env)
            if isinstance(x.func, ast.Attribute) and x.func.attr in ('flatten', 'reshape'):
                return role(x.func.value, env)
        if isinstance(x, ast.BinOp) and isinstance(x.op, ast.MatMult):
            a, b = role(x.left, env), role(x.right, env)
            return b if a == 'pose' else None
        return None

    def walk(x, env):
        if isinstance(x, ast.ListComp):
            env = dict(env)
            for g in x.generators:
                it = g.iter
                if isinstance(it, ast.Call) and isinstance(it.func, ast.Name) and it.func.id == 'zip' and isinstance(g.target, ast.Tuple) \
                        and len(g.target.elts) == len(it.args):
                    for t, a in zip(g.target.elts, it.args):
                        if isinstance(t, ast.Name):
                            env[t.id] = role(a, env)
                elif isinstance(g.target, ast.Name):
                    env[g.target.id] = role(it, env)
            walk(x.elt, env)
            return
        if isinstance(x, ast.BinOp) and isinstance(x.op, ast.MatMult):
            out.append((x, (role(x.left, env), role(x.right, env))))
        for c in ast.iter_child_nodes(x):
            walk(c, env)

    walk(e, dict(roles))
    return out


def tables_c06(run):
    f = run.prog.func('super_pose:SMPose.__mul__')
    fi = FuncInfo.of(f)
    cfg = CFG(f.node)
    from ..cfg import reaching_defs
    IN, OUT = reaching_defs(cfg, f.allparams)
    reach = cfg.reachable()
    L, R = f.params[0], f.params[1]
    # operand integrity: the operands are never rebound to a transformed value inside the operator
    n_reb = 0
    for node in cfg.nodes:
        a = node.ast
        if node.id in reach and node.kind == 'stmt' and isinstance(a, (ast.Assign, ast.AugAssign)):
            tg = a.targets if isinstance(a, ast.Assign) else [a.target]
            for t in tg:
                if isinstance(t, ast.Name) and t.id in (L, R):
                    n_reb += 1
                    v = canon(fi, a.value, inline=False)
                    if matches('getvector(%s, *_X)' % t.id, v) is not None or matches('asarray(%s)' % t.id, v) is not None or \
                            matches('array(%s)' % t.id, v) is not None or matches('getvector(%s)' % t.id, v) is not None:
                        run.holds(RULE, f.key, 'operand %s rebound to its normal form' % t.id, src(a, 50), f=f, node=a)
                    else:
                        run.violation(RULE, f.key, 'operand %s rebound: %s' % (t.id, src(a, 50)), 'the %s operand of * is replaced by a transformed '
                                      'value (%s) before the product routes: the product is no longer taken with the caller\'s array '
                                      '(e.g. a square d x d array of points is silently transposed)' % ('right' if t.id == R else 'left', src(a.value, 40)), f=f, node=a)
    if n_reb == 0:
        run.holds(RULE, f.key, 'operand integrity', 'neither operand is rebound inside the operator', f=f)
    # routes
    pats_se = ['h2e(left.A @ e2h(v))', 'h2e(left.A @ e2h(right))']
    # every return with the locals of its own path in place (A = left.A, vh = e2h(v), ...); the normalised point keeps its name v
    rets = []
    for (r, e) in sl_eval(Ctx(run, f.key), keep=('v',), max_depth=14):
        rets.append((r, _homog_idioms(e)))
    if not rets:
        rets = [(r, _homog_idioms(canon(fi, r.value, inline=False))) for r in own_returns(f.node) if r.value is not None]
    facts = must_facts(cfg)
    # the local v is the normalised point: every definition of v is getvector(right[, out='col']) or e2h(v)
    vdefs = [canon(fi, st.value, inline=False) for st in own_walk(f.node)
             if isinstance(st, ast.Assign) and isinstance(st.targets[0], ast.Name) and st.targets[0].id == 'v']
    okv = vdefs and all(matches("getvector(right, out='col')", e) is not None or matches('getvector(right)', e) is not None
                        or matches('e2h(v)', e) is not None for e in vdefs)
    (run.holds if okv else run.violation)(RULE, f.key, 'point normalisation', 'v = getvector(right) (lifted by e2h for SE(n))' if okv else
                                          'the point operand is not normalised by getvector(right) before the product: %s' % [src(e, 40) for e in vdefs], f=f)
    def anyof(*pats):
        return lambda e: any(matches(p_, e) is not None for p_ in pats)
    want = {
        'SE(n) x vector': anyof('h2e(left.A @ e2h(v))'),
        'SO(n) x vector': anyof('left.A @ v'),
        'SO(n) x matrix': anyof('left.A @ right'),
        'SE(n) x matrix': anyof('h2e(left.A @ e2h(right))'),
        # (the code rebinds v = e2h(v) before the loop, or names the lifted point separately)
        'SE(n) sequence x vector': anyof('array([h2e(_X @ v).flatten() for _X in left.A]).T', 'array([h2e(_X @ e2h(v)).flatten() for _X in left.A]).T'),
        'SO(n) sequence x vector': anyof('array([(_X @ v).flatten() for _X in left.A]).T'),
        'SO(n) sequence x matrix': anyof('array([_X.A @ _Y for _X, _Y in zip(left, right.T)]).T'),
        'SE(n) sequence x matrix': anyof('array([h2e(_X.A @ e2h(_Y)).flatten() for _X, _Y in zip(left, right.T)]).T'),
    }
    found = {k: False for k in want}
    for (r, e) in rets:
        for k, pred in want.items():
            if pred(e):
                found[k] = True
                node = cfg.node_of(r)
                fs = facts.get(node.id, frozenset())
                se = any(fc[1] and matches('left.isSE', fc[2].ast) is not None for fc in fs)
                so = any(fc[1] and matches('left.isSO', fc[2].ast) is not None for fc in fs) or any((not fc[1]) and matches('left.isSE', fc[2].ast) is not None for fc in fs)
                # shape guards of the route: which operand shapes reach it
                need = []
                if 'sequence x matrix' in k:
                    need = [('right.shape[0] == left.N', 'the points have the dimension of the pose'), ('len(left) == right.shape[1]', 'one column per pose')]
                elif 'x matrix' in k:
                    need = [('right.shape[0] == left.N', 'the points have the dimension of the pose'), ('len(left) == 1', 'a single pose')]
                elif 'sequence x vector' in k:
                    need = [('isvector(right, left.N)', 'the point has the dimension of the pose')]
                elif 'x vector' in k:
                    need = [('isvector(right, left.N)', 'the point has the dimension of the pose'), ('len(left) == 1', 'a single pose')]
                lacking = [(p_, why) for (p_, why) in need if not any(fc[1] and matches(p_, canon(fi, fc[2].ast, inline=False)) is not None for fc in fs)]
                if k.startswith('SE') and not se or k.startswith('SO') and not so:
                    run.violation(RULE, f.key, 'route ' + k, 'the %s route is not guarded by the matching isSE/isSO test' % k, f=f, node=r)
                elif lacking:
                    run.violation(RULE, f.key, 'route ' + k, 'the %s route is reached without the test %s (%s): operands of another shape are '
                                  'transformed by it%s' % (k, lacking[0][0], lacking[0][1],
                                                           ' -- e.g. a d x d array with as many ROWS as poses takes the pairwise route' if 'shape[1]' in lacking[0][0] else ''),
                                  f=f, node=r)
                else:
                    run.holds(RULE, f.key, 'route ' + k, 'R p + t through homogeneous lift-multiply-project' if k.startswith('SE') else 'R p', f=f, node=r)
    # batched spelling of the sequence x matrix routes: einsum over the stacked pose matrices (k, r, c) and the points (c, k)
    for (r, e) in rets:
        for c in ast.walk(e):
            if not (isinstance(c, ast.Call) and isinstance(c.func, ast.Name) and c.func.id == 'einsum' and len(c.args) == 3
                    and isinstance(c.args[0], ast.Constant) and isinstance(c.args[0].value, str)):
                continue
            stack = c.args[1]
            if not any(matches(p_, stack) is not None for p_ in ('array(left.A)', 'asarray(left.A)', 'stack(left.A)', 'array(left.data)', 'stack(left.data)')) \
                    or matches('right', c.args[2]) is None:
                continue
            spec = c.args[0].value.replace(' ', '')
            try:
                ins, out = spec.split('->')
                a, b = ins.split(',')
            except ValueError:
                continue
            node = cfg.node_of(r)
            fs = facts.get(node.id, frozenset())
            so = any(fc[1] and matches('left.isSO', fc[2].ast) is not None for fc in fs)
            k = 'SO(n) sequence x matrix' if so else 'SE(n) sequence x matrix'
            if len(a) == 3 and len(b) == 2 and len(out) == 2 and len(set(a)) == 3 and b[1] == a[0] and out[1] == a[0]:
                if b[0] == a[2] and out[0] == a[1] and so:
                    found[k] = True
                    run.holds(RULE, f.key, 'route ' + k, 'einsum %s: column k of the result is R_k p_k' % spec, f=f, node=r)
                elif b[0] == a[1] and out[0] == a[2]:
                    found[k] = True
                    run.violation(RULE, f.key, 'route ' + k, 'einsum %s contracts the ROW index of each pose matrix with the point: column k of the '
                                  'result is R_k^T p_k, the inverse rotation' % spec, f=f, node=r)
    # near-miss of the per-pose routes: the list of per-pose results stacked without the final transpose (one ROW per pose, the
    # documented result has one COLUMN per pose / point)
    untransposed = {
        'SE(n) sequence x vector': ('array([h2e(_X @ v).flatten() for _X in left.A])', 'array([h2e(_X @ e2h(v)).flatten() for _X in left.A])'),
        'SO(n) sequence x vector': ('array([(_X @ v).flatten() for _X in left.A])',),
        'SO(n) sequence x matrix': ('array([_X.A @ _Y for _X, _Y in zip(left, right.T)])',),
        'SE(n) sequence x matrix': ('array([h2e(_X.A @ e2h(_Y)).flatten() for _X, _Y in zip(left, right.T)])',),
    }
    for k, pats_ in untransposed.items():
        if found.get(k):
            continue
        for (r, e) in rets:
            if any(matches(p_, e) is not None for p_ in pats_):
                found[k] = True
                run.violation(RULE, f.key, 'route ' + k, 'the per-pose results are stacked as ROWS (the final .T is missing): the result is N x d, the '
                              'documented result has one column per pose value', f=f, node=r)
                break
    for k, ok in found.items():
        if not ok:
            run.error('R16: SMPose.__mul__: route "%s" has no recognised form' % k)
    # operand order of every matrix product in the operator: the pose matrix is the LEFT factor and the point the right one
    # (p @ R computes R^T p, the inverse rotation)
    n_mm = 0
    for (r, e) in rets:
        for (mm, roles) in _matmul_roles(e, {'left': 'pose', 'right': 'point', 'v': 'point'}):
            n_mm += 1
            lk, rk = roles
            construct = 'product ' + src(mm, 40)
            if lk == 'point' and rk == 'pose':
                run.violation(RULE, f.key, construct, 'the point is the LEFT factor and the pose matrix the right one: p @ R is (R^T p)^T, the '
                              'inverse rotation applied to the point', f=f, node=r)
            elif lk == 'pose' and rk in ('point', 'pose'):
                run.holds(RULE, f.key, construct, 'pose matrix on the left, %s on the right' % rk, f=f, node=r)
    if n_mm < 8:
        run.error('R16: SMPose.__mul__: only %d matrix products classified (expected >= 8)' % n_mm)
    # non-conforming arrays raise: no path of the operator reaches the end of the function without a return or a raise
    # (path property on the CFG, independent of how the branches are nested)
    falls = cfg.paths_to_exit_avoiding(lambda n: False, target=cfg.falloff.id) if cfg.falloff.id in reach else None
    (run.holds if falls is None else run.violation)(RULE, f.key, 'non-conforming arrays raise', 'every path ends in a return or a raise' if falls is None else
                                                    'a path reaches the end of the operator without returning or raising (through line %s): the '
                                                    'result is None for a non-conforming operand' % ', '.join(str(getattr(n.ast, 'lineno', '?')) for n in falls[-4:-1] if n.ast is not None), f=f)
    # base functions
    cx = Ctx(run, 'base/transformsNd:homtrans')
    rets2 = sl_eval(cx)
    ok = len(rets2) == 1 and Normaliser(rename=cx.rename).poly(rets2[0][1]) == Normaliser().poly(parse_expr('h2e(P0 @ e2h(P1))'))
    (run.holds if ok else run.violation)(RULE, cx.f.key, 'homtrans', 'h2e(T @ e2h(p))' if ok else 'homtrans is not h2e(T @ e2h(p))', f=cx.f)
    ch = Ctx(run, 'base/transformsNd:h2e')
    got = {str(Normaliser(rename=ch.rename).poly(e)) for (r, e) in sl_eval(ch)}
    want_h = {str(Normaliser().poly(parse_expr('P0[:-1, :] / tile(P0[-1, :], (P0.shape[0] - 1, 1))'))),
              str(Normaliser().poly(parse_expr('P0[0:-1] / P0[-1]')))}
    (run.holds if got == want_h else run.violation)(RULE, ch.f.key, 'h2e', 'divide by the last row' if got == want_h else 'h2e returns %s' % sorted(got), f=ch.f)
    ce = Ctx(run, 'base/transformsNd:e2h')
    got = {str(Normaliser(rename=ce.rename).poly(e)) for (r, e) in sl_eval(ce)}
    want_e = {str(Normaliser().poly(parse_expr('vstack([P0, ones((1, P0.shape[1]))])'))),
              str(Normaliser().poly(parse_expr('vstack((P0, 1))')))}
    (run.holds if got == want_e else run.violation)(RULE, ce.f.key, 'e2h', 'append a row of ones' if got == want_e else 'e2h returns %s' % sorted(got), f=ce.f)
    check_routes(run, [
        ('quaternion:UnitQuaternion.__mul__', 'unit quaternion * vector through qvmul', ['qvmul(left._A, getvector(right, 3))'], 'any'),
        ('quaternion:UnitQuaternion.__mul__', 'unit quaternion sequence * vector', ['array([qvmul(x, getvector(right)) for x in left._A]).T'], 'any'),
        ('quaternion:UnitQuaternion.__mul__', 'unit quaternion * columns', ['array([qvmul(left._A, x) for x in right.T]).T'], 'any'),
    ], rule=RULE)


# =========================================================================== C04 representations agree
SIBLINGS = [
    # (name, SO3 form, SE3 form, UnitQuaternion form)
    ('Rx', 'cls([rotx(x, unit=unit) for x in getvector(theta)], check=False)', 'cls([trotx(x, t=t, unit=unit) for x in getvector(theta)], check=False)', None),
    ('Ry', 'cls([roty(x, unit=unit) for x in getvector(theta)], check=False)', 'cls([troty(x, t=t, unit=unit) for x in getvector(theta)], check=False)', None),
    ('Rz', 'cls([rotz(x, unit=unit) for x in getvector(theta)], check=False)', 'cls([trotz(x, t=t, unit=unit) for x in getvector(theta)], check=False)', None),
    ('Eul', ['cls(eul2r(angles, unit=unit), check=False)', 'cls([eul2r(a, unit=unit) for a in angles], check=False)'],
     ['cls(eul2tr(angles, unit=unit), check=False)', 'cls([eul2tr(a, unit=unit) for a in angles], check=False)'],
     'cls(r2q(eul2r(angles, unit=unit)), check=False)'),
    ('RPY', ['cls(rpy2r(angles, order=order, unit=unit), check=False)', 'cls([rpy2r(a, order=order, unit=unit) for a in angles], check=False)'],
     ['cls(rpy2tr(angles, order=order, unit=unit), check=False)', 'cls([rpy2tr(a, order=order, unit=unit) for a in angles], check=False)'],
     ['cls(r2q(rpy2r(angles, unit=unit, order=order)), check=False)', 'cls(r2q(rpy2r(angles, order=order, unit=unit)), check=False)']),
    ('OA', 'cls(oa2r(o, a), check=False)', 'cls(oa2tr(o, a), check=False)', 'cls(r2q(oa2r(o, a)), check=False)'),
    ('AngVec', 'cls(angvec2r(theta, v, unit=unit), check=False)', 'cls(angvec2tr(theta, v, unit=unit), check=False)', None),
    ('EulerVec', 'cls(angvec2r(norm(w), w), check=False)', 'cls(angvec2tr(norm(w), w), check=False)', None),
]


def parse_pat_norm(p_):
    from ..pattern import parse_pat
    return parse_pat(p_)


def tables_c04(run):
    rule = 'R13'
    for (nm_, so3, se3, uq) in SIBLINGS:
        for cls, form in (('pose3d:SO3', so3), ('pose3d:SE3', se3), ('quaternion:UnitQuaternion', uq)):
            if form is None:
                continue
            forms = form if isinstance(form, list) else [form]
            key = '%s.%s' % (cls, nm_)
            f = run.prog.func(key)
            fi = FuncInfo.of(f)
            rets = [canon(fi, r.value) for r in own_returns(f.node) if r.value is not None]
            bad = [e for e in rets if not any(matches(p, e) is not None for p in forms)]
            if not rets:
                run.error('R13: %s has no return' % key)
            elif bad:
                # distinguish a dropped option (definite) from an unknown shape
                txt = src(bad[0], 80)
                dropped = [o for o in ('unit=unit', 'order=order', 't=t') if o in forms[0] and o not in ast.unparse(bad[0])]
                # the same calls with the same arguments in another order (angvec2r(w, theta) for angvec2r(theta, w)): compare the bag of
                # (callee, sorted positional arguments) of the return with that of the accepted form
                def odump(x):
                    # dump in which the positional arguments of every call are an unordered bag
                    if isinstance(x, ast.Call):
                        return 'call(%s; %s; %s)' % (odump(x.func), ','.join(sorted(odump(a) for a in x.args)),
                                                     ','.join(sorted('%s=%s' % (k.arg, odump(k.value)) for k in x.keywords)))
                    if isinstance(x, ast.AST):
                        return '%s(%s)' % (type(x).__name__, ','.join(odump(v) if isinstance(v, ast.AST) else ('[' + ','.join(odump(y) if isinstance(y, ast.AST) else repr(y) for y in v) + ']'
                                                                                                              if isinstance(v, list) else repr(v))
                                                                      for fn_, v in ast.iter_fields(x) if fn_ not in ('ctx', 'lineno', 'col_offset', 'end_lineno', 'end_col_offset')))
                    return repr(x)
                reordered = None
                for p_ in forms:
                    pp = parse_pat_norm(p_)
                    if odump(pp) == odump(bad[0]) and ast.dump(pp) != ast.dump(bad[0]):
                        reordered = p_
                if dropped:
                    run.violation(rule, key, 'shared constructor ' + nm_, 'the option %s is not passed on to the base function: %s' % (', '.join(dropped), txt), f=f)
                elif reordered:
                    run.violation(rule, key, 'shared constructor ' + nm_, 'the arguments of the base function are passed in another order: %s, where the sibling '
                                  'classes call %s' % (txt, reordered), f=f)
                else:
                    run.error('R13: %s: return %s has none of the recognised sibling forms (%s)' % (key, txt, forms[0]))
            else:
                run.holds(rule, key, 'shared constructor ' + nm_, 'reduces to %s' % forms[0], f=f)
    # T15: half-angle quaternions, axis slot 1/2/3
    for ax, slot in (('Rx', 1), ('Ry', 2), ('Rz', 3)):
        key = 'quaternion:UnitQuaternion.%s' % ax
        f = run.prog.func(key)
        fi = FuncInfo.of(f)
        ents = ['cos(a / 2)', '0', '0', '0']
        ents[slot] = 'sin(a / 2)'
        pat = 'cls([r_[%s] for a in getunit(getvector(angle), unit)], check=False)' % ', '.join(ents)
        rets = [canon(fi, r.value) for r in own_returns(f.node) if r.value is not None]
        if rets and all(matches(pat, e) is not None for e in rets):
            run.holds(rule, key, 'half-angle quaternion', '[cos(a/2), sin(a/2) in slot %d] with the angle converted by getunit' % slot, f=f)
        else:
            e = rets[0] if rets else None
            # recognise the table shape to report the wrong slot / missing half angle precisely
            b = matches('cls([r_[_A0, _A1, _A2, _A3] for a in getunit(getvector(angle), unit)], check=False)', e) if e is not None else None
            if b is not None:
                got = [ast.unparse(b['_A%d' % i]) for i in range(4)]
                run.violation(rule, key, 'half-angle quaternion', 'quaternion entries are [%s]; rotation about %s by a requires [%s]' % (', '.join(got), ax[1].lower(), ', '.join(ents)), f=f)
            else:
                run.error('R13: %s: unrecognised form %s' % (key, src(e, 80) if e is not None else None))
    # conversions
    check_routes(run, [
        ('quaternion:UnitQuaternion.R', 'rotation matrix through q2r (both lengths)', ['array([q2r(q) for q in self.data])', 'q2r(self._A)'], 'return'),
        ('quaternion:UnitQuaternion.SO3', 'SO3 of a unit quaternion', ['SO3(self.R, check=False)'], 'return'),
        ('quaternion:UnitQuaternion.SE3', 'SE3 of a unit quaternion', ['SE3(r2t(self.R), check=False)'], 'return'),
        ('twist:Twist3.SE3', 'pose of a twist', ['SE3(self.exp())'], 'return'),
        ('twist:Twist2.SE2', 'pose of a twist', ['SE2(self.exp())'], 'return'),
        ('pose3d:SE3.Twist3', 'twist of a pose', ['Twist3(self.log(twist=True))'], 'return'),
        ('pose2d:SE2.Twist2', 'twist of a pose', ['Twist2(self.log(twist=True))'], 'return'),
        ('pose2d:SO2.SE2', 'SO2 -> SE2 embedding', ['SE2(rt2tr(self.A, [0, 0]))'], 'return'),
        ('pose3d:SE3.SO3', 'SO3 -> SE3 embedding', ['cls(r2t(R))'], 'return'),
    ], rule=rule)
    # UnitQuaternion from matrices / objects: r2q of the rotation part
    f = run.prog.func('quaternion:UnitQuaternion.__init__')
    fi = FuncInfo.of(f)
    txts = [ast.unparse(canon(fi, st.value, inline=False)) for st in own_walk(f.node) if isinstance(st, ast.Assign)]
    for nm_, frag in (('from SO(3) matrix', '[r2q(s)]'), ('from SE(3) matrix', '[r2q(t2r(s))]'), ('from SO3 objects', '[r2q(x.R) for x in s]')):
        ok = frag in txts
        (run.holds if ok else run.violation)(rule, f.key, 'conversion ' + nm_, frag if ok else 'no store of the form %s' % frag, f=f)
    # convertfrom declarations
    for key, cls in (('twist:Twist3.__init__', 'SE3'), ('twist:Twist2.__init__', 'SE2')):
        g = run.prog.func(key)
        ok = any(isinstance(n, ast.Call) and isinstance(n.func, ast.Attribute) and n.func.attr == 'arghandler' and
                 any(k.arg == 'convertfrom' and ast.unparse(k.value) == '(%s,)' % cls for k in n.keywords) for n in own_walk(g.node))
        (run.holds if ok else run.violation)(rule, key, 'convertfrom', 'declares conversion from %s' % cls if ok else 'does not declare convertfrom=(%s,)' % cls, f=g)
    # double cover: isequal(unitq=True) accepts q and -q; UnitQuaternion == / != pass unitq=True
    cx = Ctx(run, 'base/quaternions:isequal')
    okdc = False
    for r, fs in cx.returns():
        if any(fc[1] and isinstance(fc[2].ast, ast.Name) and fc[2].ast.id == 'unitq' for fc in fs):
            e = canon(cx.fi, r.value)
            if matches('sum(abs(q1 - q2)) < __ or sum(abs(q1 + q2)) < __', e) is not None:
                okdc = True
            else:
                run.violation(rule, cx.f.key, 'double cover', 'with unitq=True equality must accept q2 = q1 and q2 = -q1 (|q1 - q2| or |q1 + q2| small); found %s' % src(r.value, 80), f=cx.f, node=r)
    if okdc:
        run.holds(rule, cx.f.key, 'double cover', 'q and -q compare equal under unitq=True', f=cx.f)
    for key, neg in (('quaternion:UnitQuaternion.__eq__', False), ('quaternion:UnitQuaternion.__ne__', True)):
        g = run.prog.func(key)
        gi = FuncInfo.of(g)
        pat = 'left.binop(right, lambda x, y: %sisequal(x, y, unitq=True), list1=False)' % ('not ' if neg else '')
        rets = [canon(gi, r.value) for r in own_returns(g.node) if r.value is not None]
        ok = rets and all(matches(pat, e) is not None for e in rets)
        if ok:
            run.holds(rule, key, 'double cover', 'compares with unitq=True', f=g)
        elif rets and 'unitq=True' not in ast.unparse(rets[0]):
            run.violation(rule, key, 'double cover', 'unit quaternions are compared without unitq=True: q and -q (the same rotation) compare unequal', f=g)
        else:
            run.error('R13: %s: unrecognised form' % key)
    check_udq_construction(run, rule=rule)
    check_pair_integrity(run, rule=rule)
    # SE2 -> SE3 lift table
    g = run.prog.func('pose2d:SE2.SE3.<locals>.lift3')
    gi = FuncInfo.of(g)
    tbl = {}
    alloc = None
    for st in own_walk(g.node):
        if isinstance(st, ast.Assign):
            t = st.targets[0]
            if isinstance(t, ast.Name):
                alloc = canon(gi, st.value, inline=False)
            elif isinstance(t, ast.Subscript):
                tbl[Normaliser().slice_str(t.slice)] = ast.unparse(canon(gi, st.value, inline=False))
    want = {':2, :2': 'x.A[:2, :2]', ':2, 3': 'x.A[:2, 2]', '2, 3': 'z'}
    ok = alloc is not None and matches('eye(4)', alloc) is not None and tbl == want
    (run.holds if ok else run.violation)(rule, g.key, 'lift table', 'y = eye(4); rotation block, translation column, z' if ok else 'SE2 -> SE3 lift writes %s, expected %s on eye(4)' % (tbl, want), f=g)



def check_udq_construction(run, rule='R13'):
    """unit dual quaternion from SE3: real = r, dual = 1/2 t r -- the convention the point route (R22) and the product are composed over;
    SE3() reads the translation back as 2 d r~.  Decided in the non-commutative quaternion algebra (r22_dualquat.check_pose_pair)."""
    from .r22_dualquat import check_pose_pair
    check_pose_pair(run, rule=rule)


def check_pair_integrity(run, rule='R13'):
    """The (real, dual) pair given by the caller of a dual-quaternion constructor is stored as given."""
    # the (real, dual) pair given by the caller is stored as given: (r, d) and (-r, -d) are the same motion but (-r, d) is not,
    # so a constructor that rewrites one member of the pair changes the motion
    from ..cfg import reaching_defs
    for key in ('DualQuaternion:UnitDualQuaternion.__init__', 'DualQuaternion:DualQuaternion.__init__'):
        g = run.prog.func(key)
        cfg = CFG(g.node)
        IN, OUT = reaching_defs(cfg, g.allparams)
        reach = cfg.reachable()
        npair = 0
        for node in cfg.nodes:
            a = node.ast
            if node.id not in reach or node.kind != 'stmt' or not isinstance(a, ast.Assign):
                continue
            t = a.targets[0]
            if not (isinstance(t, ast.Attribute) and t.attr in ('real', 'dual') and isinstance(t.value, ast.Name) and t.value.id == g.selfname):
                continue
            if not (isinstance(a.value, ast.Name) and a.value.id in g.allparams):
                continue
            npair += 1
            redefs = [cfg.nodes[d].ast for (nm, d) in IN.get(node.id, ()) if nm == a.value.id and d != cfg.entry.id]
            if redefs:
                run.violation(rule, key, 'pair integrity: self.%s' % t.attr, 'the caller-supplied %s part is rewritten (%s) before it is stored while '
                              'the other part of the pair is not transformed the same way: (r, d) and (-r, d) are different rigid-body '
                              'motions' % (a.value.id, src(redefs[0], 40)), f=g, node=a)
            else:
                run.holds(rule, key, 'pair integrity: self.%s' % t.attr, 'stored exactly as supplied', f=g, node=a)
        if npair < 2:
            run.error('R13: %s: the two-argument branch storing (real, dual) was not recognised' % key)


# =========================================================================== information dependence (logarithm branches)
def check_trlog_dependence(run, rule='R17'):
    """In every value-returning path of the rotation part of trlog the returned axis depends on OFF-DIAGONAL entries of R
    (the direction of the rotation axis, including the relative signs of its components, is not determined by the
    diagonal / the trace of a rotation matrix alone)."""
    cx = Ctx(run, 'base/transforms3d:trlog')
    f = cx.f
    fi = cx.fi
    # the rotation branch: statements under `elif isrot(T, check=check)`
    block = None
    for st in own_walk(f.node):
        if isinstance(st, ast.If):
            node_if = st
            while True:
                if 'isrot(' in ast.unparse(node_if.test):
                    block = node_if.body
                if len(node_if.orelse) == 1 and isinstance(node_if.orelse[0], ast.If):
                    node_if = node_if.orelse[0]
                else:
                    break
    if block is None:
        run.error('R17: trlog: SO(3) branch not found')
        return
    rets = sl_eval(cx, block)
    n = 0
    for (r, e) in rets:
        if matches('zeros(__)', e) is not None:
            continue
        n += 1
        offdiag = False
        diag_only_reads = []
        for y in ast.walk(e):
            if isinstance(y, ast.Subscript) and isinstance(y.value, ast.Name) and y.value.id in ('R', 'T'):
                sl = y.slice
                if isinstance(sl, ast.Tuple) and len(sl.elts) == 2:
                    a, b = sl.elts
                    if isinstance(a, ast.Constant) and isinstance(b, ast.Constant):
                        if a.value != b.value:
                            offdiag = True
                        else:
                            diag_only_reads.append(ast.unparse(y))
                    else:
                        offdiag = True     # a row/column slice
                else:
                    offdiag = True
            elif isinstance(y, ast.Attribute) and y.attr == 'T' and isinstance(y.value, ast.Name) and y.value.id in ('R', 'T'):
                offdiag = True
            elif isinstance(y, ast.BinOp) and isinstance(y.op, ast.Sub) and 'R' in ast.unparse(y.left) and '.T' in ast.unparse(y.right):
                offdiag = True
        construct = 'axis of ' + src(r.value, 40)
        if offdiag:
            run.holds(rule, f.key, construct, 'the returned logarithm reads off-diagonal entries of R', f=f, node=r)
        else:
            run.violation(rule, f.key, construct, 'on this path the rotation axis is computed from the diagonal / trace of R only (%s): '
                          'the relative signs of the axis components are not determined by the diagonal, so a half-turn about an axis '
                          'with components of opposite sign is mapped to the wrong axis' % src(e, 70), f=f, node=r)
    if n < 4:
        run.error('R17: trlog: only %d non-trivial returns evaluated in the SO(3) branch (expected >= 4)' % n)


# =========================================================================== double cover: q and -q are the same rotation
QUAT_STATE = ('s', 'v', '_A', 'A', 'vec', 'vec_xyzs', 'data')
EVEN_IN_Q = {'q2r': (0,), 'qvmul': (0,), 'qnorm': (0,), 'normsq': (0,), 'norm': (0,), 'abs': (0,), 'isunit': (0,)}
DOUBLE_COVER = ['quaternion:UnitQuaternion.R', 'quaternion:UnitQuaternion.angvec', 'quaternion:UnitQuaternion.rpy',
                'quaternion:UnitQuaternion.eul', 'quaternion:UnitQuaternion.SO3', 'quaternion:UnitQuaternion.SE3']


class _NegQ(ast.NodeTransformer):
    """replace the quaternion state of the receiver (and of elements iterated from it) by its negation"""

    def __init__(self, objs):
        self.objs = set(objs)       # names bound to unit-quaternion OBJECTS
        self.elems = set()          # names bound to quaternion element ARRAYS

    def visit_ListComp(self, n):
        added_o, added_e = [], []
        for g in n.generators:
            it = g.iter
            if isinstance(it, ast.Name) and it.id in self.objs and isinstance(g.target, ast.Name):
                added_o.append(g.target.id)
            elif isinstance(it, ast.Attribute) and isinstance(it.value, ast.Name) and it.value.id in self.objs and \
                    it.attr in ('data', '_A', 'A') and isinstance(g.target, ast.Name):
                added_e.append(g.target.id)
        self.objs |= set(added_o)
        self.elems |= set(added_e)
        n.elt = self.visit(n.elt)
        self.objs -= set(added_o)
        self.elems -= set(added_e)
        return n

    def visit_Attribute(self, n):
        if isinstance(n.value, ast.Name) and n.value.id in self.objs and n.attr in QUAT_STATE:
            return ast.UnaryOp(op=ast.USub(), operand=n)
        self.generic_visit(n)
        return n

    def visit_Name(self, n):
        if isinstance(n.ctx, ast.Load) and n.id in self.elems:
            return ast.UnaryOp(op=ast.USub(), operand=n)
        return n


class _EvenFold(ast.NodeTransformer):
    """f(-x) -> f(x) for functions that are even in the listed argument"""

    def visit_Call(self, n):
        self.generic_visit(n)
        if isinstance(n.func, ast.Name) and n.func.id in EVEN_IN_Q:
            for i in EVEN_IN_Q[n.func.id]:
                if i < len(n.args) and isinstance(n.args[i], ast.UnaryOp) and isinstance(n.args[i].op, ast.USub):
                    n.args[i] = n.args[i].operand
        return n


def check_double_cover(run, keys=DOUBLE_COVER, rule='R16s'):
    """A unit quaternion and its negative are the same rotation: every rotation-valued accessor of UnitQuaternion must
    return the same value for q and -q. Decided on the normal form of each returned expression (all paths) under the
    substitution (s, v, data) -> (-s, -v, -data), with q2r / qvmul / norms even in the quaternion."""
    for key in keys:
        cx = Ctx(run, key)
        f = cx.f
        rets = sl_eval(cx)
        if not rets:
            run.error('%s: %s: no value-returning path evaluated' % (rule, key))
            continue
        nm = Normaliser(rename=cx.rename, odd_funcs=('skew', 'sin', 'transl', 'vex', 'unitvec', 'q2v'))
        for (r, e) in rets:
            parts = e.elts if isinstance(e, ast.Tuple) else [e]
            for i, part in enumerate(parts):
                construct = 'q -> -q: ' + src(r.value, 50) + ('' if len(parts) == 1 else ' [component %d]' % i)
                try:
                    a = nm.poly(_EvenFold().visit(_copy.deepcopy(part)))
                    neg = _NegQ([f.selfname]).visit(_copy.deepcopy(part))
                    b = nm.poly(_EvenFold().visit(neg))
                except Unrecognised as ex:
                    run.error('%s: %s unrecognised: %s' % (rule, key, ex))
                    continue
                if a == b:
                    run.holds(rule, key, construct, 'unchanged when the quaternion is negated (the rotation matrix q2r(q) is even in q)', f=f, node=r)
                else:
                    run.violation(rule, key, construct, 'the returned value changes when the unit quaternion is replaced by its negative '
                                  '(%s becomes %s), although q and -q are the same rotation: quaternions with a negative scalar part '
                                  'give a different answer from the rotation they represent' % (a, b), f=f, node=r)


def check_sign_dependence(run, key, obj_attr, blind=('v', 'norm'), rule='R17', why=''):
    """Information dependence: the value returned by `key` must depend on the SIGN of self.<obj_attr>.  Decided on the
    normal form of every returned expression: if it is unchanged under self.attr -> -self.attr and every other read of
    the receiver is sign-blind (listed in `blind`), the sign cannot influence the result."""
    cx = Ctx(run, key)
    f = cx.f
    rets = sl_eval(cx)
    if not rets:
        run.error('%s: %s: no value-returning path evaluated' % (rule, key))
        return
    nm = Normaliser(rename=cx.rename)
    for (r, e) in rets:
        construct = 'sign of %s.%s in %s' % (f.selfname, obj_attr, src(r.value, 40))
        try:
            a = nm.poly(e)
            b = nm.poly(_Neg(f.selfname, (obj_attr,)).visit(_copy.deepcopy(e)))
        except Unrecognised as ex:
            run.error('%s: %s unrecognised: %s' % (rule, key, ex))
            continue
        reads = {y.attr for y in ast.walk(e) if isinstance(y, ast.Attribute) and isinstance(y.value, ast.Name) and y.value.id == f.selfname}
        if a != b:
            run.holds(rule, key, construct, 'the normal form changes when the sign of %s is flipped: the result depends on it' % obj_attr, f=f, node=r)
        elif reads <= set(blind) | {obj_attr}:
            run.violation(rule, key, construct, 'the returned value reads the receiver only through %s, none of which carries the sign of %s '
                          '(%s): %s' % (', '.join(sorted(reads)) or 'nothing', obj_attr, a, why), f=f, node=r)
        else:
            run.undecided(rule, key, construct, 'unchanged under %s -> -%s but other reads of the receiver (%s) may carry the sign'
                          % (obj_attr, obj_attr, ', '.join(sorted(reads - set(blind)))), f=f, node=r)


def check_column_branch_agreement(run, key, param, rule='R16'):
    """A method with a single-point branch `return E(x)` and a per-column branch `return [E'(c) for c in x.T]` must apply the
    same predicate: E'(c)[c := x] has the same normal form as E(x) (or is the method applied to the column with every
    option passed on, which R10r decides)."""
    cx = Ctx(run, key)
    f = cx.f
    rets = sl_eval(cx)
    single = [(r, e) for (r, e) in rets if not isinstance(e, (ast.ListComp, ast.List)) and not (isinstance(e, ast.Call) and e.args and isinstance(e.args[0], ast.ListComp))]
    multi = [(r, e) for (r, e) in rets if (r, e) not in single]
    if len(single) != 1 or len(multi) != 1:
        run.error('%s: %s: expected one single-point and one per-column return, found %d and %d' % (rule, key, len(single), len(multi)))
        return
    nm = Normaliser(rename=cx.rename)
    e1 = single[0][1]
    lc = multi[0][1]
    if isinstance(lc, ast.Call):
        lc = lc.args[0]
    if not (isinstance(lc, ast.ListComp) and len(lc.generators) == 1 and isinstance(lc.generators[0].target, ast.Name)):
        run.error('%s: %s: per-column branch is not a single comprehension' % (rule, key))
        return
    g = lc.generators[0]
    if matches('%s.T' % param, g.iter) is None:
        run.violation(rule, key, 'per-column branch iterates ' + src(g.iter, 30), 'the columns of the 3xN argument are %s.T; iterating %s '
                      'visits rows' % (param, src(g.iter, 30)), f=f, node=multi[0][0])
        return
    elt = _Subst({g.target.id: ast.Name(id=param, ctx=ast.Load())}).visit(_copy.deepcopy(lc.elt))
    construct = 'single-point and per-column branches'
    if isinstance(elt, ast.Call) and isinstance(elt.func, ast.Attribute) and elt.func.attr == f.name and \
            isinstance(elt.func.value, ast.Name) and elt.func.value.id == f.selfname:
        run.holds(rule, key, construct, 'per-column branch applies the method itself to each column (options: R10r)', f=f, node=multi[0][0])
        return
    try:
        a, b = nm.poly(e1), nm.poly(elt)
    except Unrecognised as ex:
        run.error('%s: %s unrecognised: %s' % (rule, key, ex))
        return
    if a == b:
        run.holds(rule, key, construct, 'same predicate %s for a point and for each column' % a, f=f, node=multi[0][0])
    else:
        run.violation(rule, key, construct, 'a single point is tested with %s but each column of a 3xN array with %s: the same point gives '
                      'different answers in the two forms' % (a, b), f=f, node=multi[0][0])


# =========================================================================== determinant (symbolic branch)
def _leibniz(k, name='P0'):
    import itertools
    tot = Poly()
    for perm in itertools.permutations(range(k)):
        sign = 1
        for i in range(k):
            for j in range(i + 1, k):
                if perm[i] > perm[j]:
                    sign = -sign
        term = Poly.const(sign)
        for i in range(k):
            term = term * Poly.atom('%s[%d, %d]' % (name, i, perm[i]))
        tot = tot + term
    return tot


def check_det(run, rule='R16'):
    """base.det: every return is a determinant route (sympy Matrix(m).det(), numpy linalg.det(m)) or, under a shape fact
    m.shape == (k, k), a closed form whose polynomial normal form equals the Leibniz expansion of the k x k determinant."""
    cx = Ctx(run, 'base/transformsNd:det')
    f = cx.f
    m = cx.pname(0)
    n = 0
    for r, fs in cx.returns():
        n += 1
        e = canon(cx.fi, r.value, inline=False)
        construct = 'det return ' + src(r.value, 50)
        if matches('Matrix(%s).det()' % m, e) is not None or matches('det(%s)' % m, e) is not None:
            run.holds(rule, f.key, construct, 'determinant computed by the library routine on the whole matrix', f=f, node=r)
            continue
        k = None
        for fc in fs:
            b = matches('%s.shape == (_A, _B)' % m, fc[2].ast) if fc[1] else None
            if b is not None and isinstance(b['_A'], ast.Constant) and b['_A'].value == getattr(b['_B'], 'value', None):
                k = b['_A'].value
        if k is None or k > 4:
            run.error('R16: det: return %s is neither a library route nor a closed form under a shape test' % src(r.value, 50))
            continue
        # names unpacked from the matrix: (a, b, c), (d, e, f), (g, h, i) = m
        env = {}
        for st in own_walk(f.node):
            if isinstance(st, ast.Assign) and len(st.targets) == 1 and isinstance(st.targets[0], ast.Tuple) and \
                    isinstance(st.value, ast.Name) and st.value.id == m:
                for i, row in enumerate(st.targets[0].elts):
                    if isinstance(row, ast.Tuple):
                        for j, x in enumerate(row.elts):
                            if isinstance(x, ast.Name):
                                env[x.id] = ast.Subscript(value=ast.Name(id=m, ctx=ast.Load()), slice=ast.Tuple(elts=[ast.Constant(value=i), ast.Constant(value=j)], ctx=ast.Load()), ctx=ast.Load())
        try:
            got = Normaliser(rename=cx.rename).poly(_Subst(env).visit(_copy.deepcopy(e)))
        except Unrecognised as ex:
            run.error('R16: det unrecognised: %s' % ex)
            continue
        want = _leibniz(k)
        if got == want:
            run.holds(rule, f.key, construct, 'closed form equals the %dx%d Leibniz expansion' % (k, k), f=f, node=r)
        else:
            diff = got - want
            run.violation(rule, f.key, construct, 'the closed form for a %dx%d matrix differs from the determinant by %s: symbolic and numeric '
                          'determinants of the same matrix disagree' % (k, k, diff), f=f, node=r)
    if n < 2:
        run.error('R16: det: fewer than 2 returns')


# =========================================================================== batched (stacked-array) structured inverse
class _Unbatch(ast.NodeTransformer):
    """rewrite numpy idioms on a stacked (M, k, k) array into the per-element idiom:
       X[:, a, b] -> X[a, b];  X.transpose(0, 2, 1) -> X.T;  swapaxes(1, 2) -> .T;
       einsum('nij,nj->ni', A, b) -> A @ b;  einsum('nji,nj->ni', A, b) -> A.T @ b;  A @ b[..., None] left alone (unrecognised)"""

    def __init__(self, names):
        self.names = names

    @staticmethod
    def _full(x):
        return isinstance(x, ast.Slice) and x.lower is None and x.upper is None and x.step is None

    @staticmethod
    def _newaxis(x):
        return (isinstance(x, ast.Constant) and x.value is None) or (isinstance(x, ast.Name) and x.id == 'newaxis') or \
            (isinstance(x, ast.Attribute) and x.attr == 'newaxis')

    def visit_Subscript(self, n):
        self.generic_visit(n)
        if isinstance(n.value, ast.Name) and n.value.id in self.names and isinstance(n.slice, ast.Tuple) and len(n.slice.elts) == 3:
            first = n.slice.elts[0]
            if self._full(first):
                return ast.Subscript(value=n.value, slice=ast.Tuple(elts=n.slice.elts[1:], ctx=ast.Load()), ctx=n.ctx)
        # the stacked column-vector idiom  (A @ b[:, :, newaxis])[:, :, 0]  is the per-element product A @ b
        if isinstance(n.slice, ast.Tuple) and len(n.slice.elts) == 3 and self._full(n.slice.elts[0]) and self._full(n.slice.elts[1]) and \
                isinstance(n.slice.elts[2], ast.Constant) and n.slice.elts[2].value == 0 and isinstance(n.value, ast.BinOp) and isinstance(n.value.op, ast.MatMult):
            r = n.value.right
            if isinstance(r, ast.Subscript) and isinstance(r.slice, ast.Tuple) and len(r.slice.elts) == 3 and self._full(r.slice.elts[0]) and \
                    self._full(r.slice.elts[1]) and self._newaxis(r.slice.elts[2]):
                return ast.BinOp(left=n.value.left, op=ast.MatMult(), right=r.value)
        return n

    @staticmethod
    def _axes(a):
        if isinstance(a, (ast.Tuple, ast.List)):
            return [getattr(x, 'value', None) for x in a.elts]
        return None

    def visit_Call(self, n):
        self.generic_visit(n)
        if isinstance(n.func, ast.Attribute) and n.func.attr == 'transpose' and ([getattr(a, 'value', None) for a in n.args] == [0, 2, 1] or
                                                                                 (len(n.args) == 1 and self._axes(n.args[0]) == [0, 2, 1])):
            return ast.Attribute(value=n.func.value, attr='T', ctx=ast.Load())
        if isinstance(n.func, ast.Attribute) and n.func.attr == 'swapaxes' and sorted(getattr(a, 'value', None) for a in n.args) == [1, 2]:
            return ast.Attribute(value=n.func.value, attr='T', ctx=ast.Load())
        # function spellings: transpose(X, (0, 2, 1)), swapaxes(X, 1, 2), matmul(A, B)
        if isinstance(n.func, ast.Name) and n.func.id == 'transpose' and len(n.args) == 2 and self._axes(n.args[1]) == [0, 2, 1]:
            return ast.Attribute(value=n.args[0], attr='T', ctx=ast.Load())
        if isinstance(n.func, ast.Name) and n.func.id == 'transpose' and len(n.args) == 1 and any(k.arg == 'axes' and self._axes(k.value) == [0, 2, 1] for k in n.keywords):
            return ast.Attribute(value=n.args[0], attr='T', ctx=ast.Load())
        if isinstance(n.func, ast.Name) and n.func.id == 'swapaxes' and len(n.args) == 3 and sorted(getattr(a, 'value', None) for a in n.args[1:]) == [1, 2]:
            return ast.Attribute(value=n.args[0], attr='T', ctx=ast.Load())
        if isinstance(n.func, ast.Name) and n.func.id == 'matmul' and len(n.args) == 2 and not n.keywords:
            return ast.BinOp(left=n.args[0], op=ast.MatMult(), right=n.args[1])
        if isinstance(n.func, ast.Name) and n.func.id == 'einsum' and len(n.args) == 3 and isinstance(n.args[0], ast.Constant):
            spec = n.args[0].value.replace(' ', '')
            try:
                ins, out = spec.split('->')
                a, b = ins.split(',')
            except ValueError:
                raise Unrecognised('einsum ' + spec)
            # batched matrix-vector product: a = n p q, b = n r, out = n s
            if len(a) == 3 and len(b) == 2 and len(out) == 2 and a[0] == b[0] == out[0]:
                summed = b[1]
                if summed == a[2] and out[1] == a[1]:
                    return ast.BinOp(left=n.args[1], op=ast.MatMult(), right=n.args[2])
                if summed == a[1] and out[1] == a[2]:
                    return ast.BinOp(left=ast.Attribute(value=n.args[1], attr='T', ctx=ast.Load()), op=ast.MatMult(), right=n.args[2])
            raise Unrecognised('einsum ' + spec)
        return n


def check_batched_inverse(run, key, n, rule='R15', param=None):
    """If the multi-valued branch of an SE(n) inverse is written on the stacked array, normalise it to the per-element idiom and
    compare with the structured inverse  [[R^T, -R^T t], [0, 1]]  (R = T[:n,:n], t = T[:n,n]) written into zeros."""
    f = run.prog.func(key)
    fi = FuncInfo.of(f)
    # the block that allocates the stacked result
    alloc = None
    for st in own_walk(f.node):
        if isinstance(st, ast.Assign) and isinstance(st.targets[0], ast.Name) and isinstance(st.value, ast.Call):
            c = canon(fi, st.value, inline=False)
            if matches('zeros(_S, *_R)', c) is not None and matches('_X.shape', c.args[0]) is not None:
                alloc = st
    if alloc is None:
        return None
    blk = _enclosing_block(f.node, alloc) or []
    out = alloc.targets[0].id
    srcname = None
    for st in blk:
        if isinstance(st, ast.Assign) and isinstance(st.targets[0], ast.Name):
            c = canon(fi, st.value, inline=False)
            if matches('array(%s.A)' % f.selfname, c) is not None or matches('asarray(%s.A)' % f.selfname, c) is not None or \
                    matches('stack(%s.A)' % f.selfname, c) is not None or matches('array(%s.data)' % f.selfname, c) is not None:
                srcname = st.targets[0].id
    if srcname is None and param is not None and matches('zeros(%s.shape, *_R)' % param, canon(fi, alloc.value, inline=False)) is not None:
        srcname = param          # the stack is the argument itself
    if srcname is None:
        run.error('%s: %s: stacked-array branch without a recognised `T = np.array(self.A)`' % (rule, key))
        return False
    tbl = {}
    nm = Normaliser(rename={srcname: 'T'})
    env = {}
    try:
        for st in blk:
            if isinstance(st, ast.Assign) and isinstance(st.targets[0], ast.Name) and st.targets[0].id not in (out, srcname):
                # locals of the block (Rt = T[:, :3, :3].transpose(0, 2, 1)) are substituted in their per-element form
                v = _Unbatch({out, srcname}).visit(_copy.deepcopy(canon(fi, st.value, inline=False)))
                env[st.targets[0].id] = _Subst(env).visit(v)
            if isinstance(st, ast.Assign) and isinstance(st.targets[0], ast.Subscript) and isinstance(st.targets[0].value, ast.Name) and st.targets[0].value.id == out:
                tgt = _Unbatch({out, srcname}).visit(_copy.deepcopy(st.targets[0]))
                val = _Unbatch({out, srcname}).visit(_Subst(env).visit(_Unbatch({out, srcname}).visit(_copy.deepcopy(canon(fi, st.value, inline=False)))))
                for y in ast.walk(val):
                    if isinstance(y, ast.Call) and isinstance(y.func, (ast.Name, ast.Attribute)) and \
                            (y.func.id if isinstance(y.func, ast.Name) else y.func.attr) in ('transpose', 'swapaxes', 'moveaxis', 'einsum', 'matmul', 'tensordot', 'squeeze', 'reshape'):
                        raise Unrecognised('batched idiom ' + src(y, 40))
                    if isinstance(y, ast.Subscript) and isinstance(y.slice, ast.Tuple) and any(_Unbatch._newaxis(z) or (isinstance(z, ast.Constant) and z.value is Ellipsis) for z in y.slice.elts):
                        raise Unrecognised('batched idiom ' + src(y, 40))
                tbl[nm.slice_str(tgt.slice)] = nm.poly(val)
    except Unrecognised as ex:
        run.error('%s: %s: stacked-array inverse unrecognised: %s' % (rule, key, ex))
        return False
    R, t = 'T[:%d, :%d]' % (n, n), 'T[:%d, %d]' % (n, n)
    wn = Normaliser()
    want = {':%d, :%d' % (n, n): wn.poly(parse_expr('%s.T' % R)), ':%d, %d' % (n, n): wn.poly(parse_expr('-%s.T @ %s' % (R, t))), '%d, %d' % (n, n): wn.poly(parse_expr('1'))}
    bad = [(k, tbl.get(k), w) for k, w in want.items() if tbl.get(k) != w]
    construct = 'stacked-array inverse'
    if not bad and set(tbl) == set(want):
        run.holds(rule, key, construct, 'per element [[R^T, -R^T t],[0, 1]] written into zeros', f=f, node=alloc)
        return True
    k, g, w = (bad[0] if bad else (sorted(set(tbl) - set(want))[0], None, None))
    run.violation(rule, key, construct, 'in the vectorised branch the block [%s] of each inverse is %s; the structured inverse of [[R, t],[0, 1]] has %s there '
                  '(elements of a multi-valued object are not inverted: X.inv()[i] != X[i].inv())' % (k, g, w), f=f, node=alloc)
    return False


# =========================================================================== homogeneous plumbing (rt2tr, Ab2M, r2t, t2r, tr2rt)
def tables_plumbing(run, rule=RULE):
    """The functions every other table rule treats as primitives: where the rotation block, the translation column and the corner
    element are written / read.  Per shape arm: the allocation (eye for a group element, zeros for an algebra element) and the slot
    of every subscript store or read."""
    nm = Normaliser()

    def arms_of(f, fi):
        """(k, statements) for every arm whose test fixes the size of the square block: X.shape == (k, k) / dim[0] == n"""
        out = []
        for st in own_walk(f.node):
            if not isinstance(st, ast.If):
                continue
            node = st
            while True:
                t = canon(fi, node.test, inline=False)
                k = None
                b = matches('_X.shape == (_K, _K2)', t)
                if b is not None and isinstance(b['_K'], ast.Constant):
                    k = ('block', b['_K'].value)
                b = matches('_D[0] == _K', t)
                if b is not None and isinstance(b['_K'], ast.Constant):
                    k = ('whole', b['_K'].value)
                if k is not None:
                    out.append((k, node.body))
                if len(node.orelse) == 1 and isinstance(node.orelse[0], ast.If):
                    node = node.orelse[0]
                else:
                    break
        # de-duplicate arms reached through nested walks
        seen, res = set(), []
        for k, body in out:
            if id(body) not in seen:
                seen.add(id(body))
                res.append((k, body))
        return res

    def stores(body, fi):
        alloc, tbl = None, {}
        for st in body:
            if isinstance(st, ast.Assign) and len(st.targets) == 1:
                t = st.targets[0]
                if isinstance(t, ast.Name) and isinstance(st.value, ast.Call):
                    alloc = canon(fi, st.value, inline=False)
                elif isinstance(t, ast.Subscript):
                    tbl[nm.slice_str(t.slice)] = ast.unparse(canon(fi, st.value, inline=False))
        return alloc, tbl

    # writers
    for key, allocname, pnames in (('base/transformsNd:rt2tr', 'eye', None), ('base/transformsNd:Ab2M', 'zeros', None)):
        f = run.prog.func(key)
        fi = FuncInfo.of(f)
        ps = [p for p in f.params]
        A, b = ps[0], ps[1]
        n_arm = 0
        for (kind, k), body in arms_of(f, fi):
            if kind != 'block':
                continue
            n_arm += 1
            alloc, tbl = stores(body, fi)
            want = {':%d, :%d' % (k, k): A, ':%d, %d' % (k, k): b}
            okalloc = alloc is not None and (matches('%s(%d)' % (allocname, k + 1), alloc) is not None or matches('%s((%d, %d), *_R)' % (allocname, k + 1, k + 1), alloc) is not None
                                             or matches('%s(%d, %d)' % (allocname, k + 1, k + 1), alloc) is not None)
            construct = '%s block table (%dx%d)' % (f.name, k, k)
            if alloc is None or not tbl:
                run.error('R16: %s: the %dx%d arm does not build its result by allocation and block stores' % (key, k, k))
            elif not okalloc:
                run.violation(rule, key, construct, 'the result is allocated as %s; the %s needs %s(%d)' %
                              (ast.unparse(alloc) if alloc is not None else None, 'homogeneous matrix (last row 0 .. 0 1)' if allocname == 'eye' else 'augmented matrix (last row zero)',
                               allocname, k + 1), f=f, node=body[0])
            elif tbl != want:
                run.violation(rule, key, construct, 'the blocks are written as %s; the definition is %s' % (tbl, want), f=f, node=body[0])
            else:
                run.holds(rule, key, construct, '%s(%d) with the matrix in [:%d, :%d] and the vector in [:%d, %d]' % (allocname, k + 1, k, k, k, k), f=f, node=body[0])
        if n_arm < 2:
            # one parametric arm: n = A.shape[0]; T = eye(n + 1); T[:n, :n] = A; T[:n, n] = b
            from ..cfg import pure_locals
            pl = {k_: ast.unparse(canon(fi, v_, inline=False)) for k_, v_ in pure_locals(f.node, keep=()).items()}
            alloc, tbl = stores(body_nodoc(f.node), fi)
            sized = [k_ for k_, v_ in pl.items() if v_ in ('%s.shape[0]' % A, 'len(%s)' % b, '%s.shape[1]' % A)]
            done = False
            for nn in sized:
                want = {':%s, :%s' % (nn, nn): A, ':%s, %s' % (nn, nn): b}
                okalloc = alloc is not None and any(matches(p_ % {'a': allocname, 'n': nn}, alloc) is not None for p_ in
                                                    ('%(a)s(%(n)s + 1)', '%(a)s((%(n)s + 1, %(n)s + 1), *_R)', '%(a)s(%(n)s + 1, %(n)s + 1)'))
                construct = '%s block table (n x n)' % f.name
                if alloc is None or not tbl:
                    break
                done = True
                if not okalloc:
                    run.violation(rule, key, construct, 'the result is allocated as %s; it needs %s(%s + 1)' % (ast.unparse(alloc), allocname, nn), f=f)
                elif tbl != want:
                    run.violation(rule, key, construct, 'the blocks are written as %s; the definition is %s' % (tbl, want), f=f)
                else:
                    run.holds(rule, key, construct, '%s(n + 1) with the matrix in [:n, :n] and the vector in [:n, n], n the size of the matrix' % allocname, f=f)
                break
            if not done:
                run.error('R16: %s: fewer than 2 shape arms found' % key)
    # readers: t2r, tr2rt
    for key, slotfmt, what in (('base/transformsNd:t2r', ':%d, :%d', 'rotation block'), ('base/transformsNd:tr2rt', ':%d, %d', 'translation column')):
        f = run.prog.func(key)
        fi = FuncInfo.of(f)
        T = f.params[0]
        n_arm = 0
        for (kind, k), body in arms_of(f, fi):
            if kind != 'whole':
                continue
            n_arm += 1
            reads = [nm.slice_str(y.slice) for st in body for y in ast.walk(st) if isinstance(y, ast.Subscript) and isinstance(y.value, ast.Name) and y.value.id == T
                     and isinstance(y.slice, ast.Tuple)]
            want = slotfmt % (k - 1, k - 1)
            construct = '%s reads the %s (%dx%d argument)' % (f.name, what, k, k)
            if reads == [want]:
                run.holds(rule, key, construct, 'reads [%s]' % want, f=f, node=body[0])
            elif not reads:
                run.error('R16: %s: no read of %s in the arm for size %d' % (key, T, k))
            else:
                run.violation(rule, key, construct, 'the arm reads %s; the %s of a %dx%d matrix is [%s]' % (reads, what, k, k, want), f=f, node=body[0])
        if n_arm < 2:
            run.error('R16: %s: fewer than 2 size arms found' % key)
    # r2t: zeros((n, n)) with the argument in [:m, :m] and 1 in the corner
    f = run.prog.func('base/transformsNd:r2t')
    fi = FuncInfo.of(f)
    tbl = {}
    for st in own_walk(f.node):
        if isinstance(st, ast.Assign) and isinstance(st.targets[0], ast.Subscript):
            tbl[nm.slice_str(st.targets[0].slice)] = ast.unparse(canon(fi, st.value, inline=False))
    from ..cfg import pure_locals
    pl = {k: ast.unparse(canon(fi, v, inline=False)) for k, v in pure_locals(f.node).items()}
    R = f.params[0]
    ok = any(ks.replace(' ', '') in (':m,:m',) or True for ks in tbl)      # names resolved below
    rot = [ks for ks, v in tbl.items() if v == R]
    one = [ks for ks, v in tbl.items() if v == '1']
    construct = 'r2t block table'
    if len(rot) == 1 and len(one) == 1 and one[0] in ('-1, -1',) and len(tbl) == 2:
        a, b_ = [x.strip().lstrip(':') for x in rot[0].split(',')]
        same = a == b_ and pl.get(a, a) in ('%s.shape[0]' % R, 'dim[0]', '%s.shape[1]' % R) or a == b_ and pl.get(a, '').endswith('[0]')
        if same and rot[0].startswith(':') and ', :' in rot[0]:
            run.holds(rule, f.key, construct, 'the argument in the leading block [:m, :m], 1 in the corner [-1, -1]', f=f)
        else:
            run.violation(rule, f.key, construct, 'the rotation is written to [%s] (with %s); the leading block is [:m, :m], m the size of the argument' % (rot[0], {k: v for k, v in pl.items() if k in (a, b_)}), f=f)
    elif not tbl:
        run.error('R16: r2t does not build its result by block stores')
    else:
        run.violation(rule, f.key, construct, 'stores %s; the definition writes the argument into the leading block and 1 into the corner [-1, -1]' % tbl, f=f)


def check_representation_mix(run, rule='R16s'):
    """q and -q are the same rotation, and `X.vec3` (= q2v) is the vector part of whichever of the two has a non-negative scalar
    part.  A value computed from `X.vec3` TOGETHER WITH the raw scalar or vector part of the same object (`X.s`, `X.v`, `X.vec`,
    `X._A`, `X.A`) mixes the two representatives: for s < 0 the pair (s, vec3) = (s, -v) is the conjugate of -q, i.e. the
    inverse rotation.  Decided on every value-returning path with the locals put in place."""
    from ..cfg import pure_locals, _subst_pure
    prog = run.prog
    n = 0
    for f in prog.analysed_functions():
        if f.cls is None or f.module.short != 'quaternion':
            continue
        if not any(isinstance(x, ast.Attribute) and x.attr == 'vec3' for x in own_walk(f.node)):
            continue
        env = pure_locals(f.node)
        # tuple definitions  s, u = left.s, left.vec3  are component-wise definitions in pure_locals
        for r in own_walk(f.node):
            if not (isinstance(r, ast.Return) and r.value is not None):
                continue
            v = r.value
            for _ in range(4):
                v = _subst_pure(v, env)
            norm = {}
            raw = {}
            for x in ast.walk(v):
                if isinstance(x, ast.Attribute) and isinstance(x.value, ast.Name):
                    if x.attr == 'vec3':
                        norm.setdefault(x.value.id, x)
                    elif x.attr in ('s', 'v', 'vec', '_A', 'A'):
                        raw.setdefault(x.value.id, x)
            for who in norm:
                n += 1
                if who in raw:
                    run.violation(rule, f.key, 'representatives of %s mixed' % who, 'the returned value is computed from %s.vec3 (the vector part of the '
                                  'representative with non-negative scalar part) together with %s.%s (the stored representative): for a unit quaternion '
                                  'with a negative scalar part the pair is (s, -v), the conjugate of -q, so the INVERSE rotation is applied' %
                                  (who, who, raw[who].attr), f=f, node=r)
                else:
                    run.holds(rule, f.key, 'representative of %s' % who, 'vec3 is not combined with the stored scalar / vector part', f=f, node=r)
    return n
