"""R20 -- shape typestate under `ismatrix` facts.

Where a must-fact `ismatrix(X, (k, k))` / `X.shape == (k, k)` holds (all paths to the statement have passed the test),
the shape of X is known.  Shapes are pushed through the shape-transforming base functions (t2r: (k,k) -> (k-1,k-1),
r2t: (k,k) -> (k+1,k+1), q2r -> (3,3), ...) and compared with the shape each base function REQUIRES of its argument
(r2q: (3,3); transl / trinv / trlog-as-SE3: (4,4); ...).  A call whose argument definitely has a shape the callee rejects
raises on every execution of that branch: the branch is dead for all inputs (e.g. `r2q(t2r(R))` under
`ismatrix(R, (3, 3))`: t2r strips a 3x3 matrix to 2x2 and r2q accepts only 3x3)."""
import ast

from ..scope import FuncInfo
from ..cfg import CFG, must_facts, header_expr
from ..callgraph import own_walk
from ..astutil import src
from ..pattern import canon, matches

# callee -> set of accepted square sizes of the first argument
REQUIRES = {
    'r2q': {3}, 'tr2eul': {3, 4}, 'tr2rpy': {3, 4}, 'tr2angvec': {3, 4}, 'trlog': {3, 4}, 'trlog2': {2, 3},
    'trinv': {4}, 'trinv2': {3}, 'tr2delta': {4}, 'tr2jac': {4}, 'adjoint': {3, 4}, 'transl': {4}, 'transl2': {3},
    't2r': {3, 4}, 'r2t': {2, 3}, 'trnorm': {3, 4}, 'trnorm2': {2, 3}, 'tr2xyt': {3},
}
# callee -> size of the result as a function of the argument size
RESULT = {
    't2r': lambda k: k - 1, 'r2t': lambda k: k + 1, 'trinv': lambda k: k, 'trinv2': lambda k: k, 'trnorm': lambda k: k,
    'trnorm2': lambda k: k, 'q2r': lambda k: 3,
}


def _fact_shapes(fs):
    """{name: k} from must-facts ismatrix(X, (k, k)) / X.shape == (k, k)"""
    out = {}
    for fc in fs:
        if not fc[1]:
            continue
        e = fc[2].ast
        for pat in ('ismatrix(_X, (_A, _B))', 'base.ismatrix(_X, (_A, _B))', 'argcheck.ismatrix(_X, (_A, _B))', '_X.shape == (_A, _B)'):
            b = matches(pat, e)
            if b is not None and isinstance(b['_X'], ast.Name) and isinstance(b['_A'], ast.Constant) and isinstance(b['_B'], ast.Constant) \
                    and b['_A'].value == b['_B'].value and isinstance(b['_A'].value, int):
                out[b['_X'].id] = b['_A'].value
        # membership predicates fix the shape as well
        if isinstance(e, ast.Call) and e.args and isinstance(e.args[0], ast.Name):
            fn = e.func.attr if isinstance(e.func, ast.Attribute) else (e.func.id if isinstance(e.func, ast.Name) else None)
            k = {'isrot': 3, 'ishom': 4, 'isrot2': 2, 'ishom2': 3}.get(fn)
            if k is not None:
                out[e.args[0].id] = k
    return out


def check_shapes(run, funcs, rule='R20'):
    n = 0
    for f in funcs:
        fi = FuncInfo.of(f)
        txt = ast.unparse(f.node)
        if 'ismatrix' not in txt and '.shape ==' not in txt and 'isrot' not in txt and 'ishom' not in txt:
            continue
        cfg = CFG(f.node)
        facts = must_facts(cfg)
        reach = cfg.reachable()
        # names rebound inside the function lose their fact-derived shape after the rebinding: only parameters / names that
        # are assigned at most once BEFORE the test are tracked, conservatively: names never assigned in the function
        assigned = {t.id for st in own_walk(f.node) if isinstance(st, (ast.Assign, ast.AugAssign))
                    for t in (st.targets if isinstance(st, ast.Assign) else [st.target]) for t in ast.walk(t) if isinstance(t, ast.Name)}
        for node in cfg.nodes:
            if node.id not in reach:
                continue
            # (a fact about a name is killed by must_facts when the name is rebound, so the facts at a node speak about the current value)
            shapes = dict(_fact_shapes(facts.get(node.id, frozenset())))
            if not shapes:
                continue
            for h in header_expr(node):
                if h is None:
                    continue
                # constant subscripts of a matrix of known size k x k stay inside it
                for sb in ast.walk(h):
                    if isinstance(sb, ast.Subscript) and isinstance(sb.value, ast.Name) and sb.value.id in shapes and isinstance(sb.slice, ast.Tuple) \
                            and len(sb.slice.elts) == 2:
                        k = shapes[sb.value.id]
                        idx = [x.value for x in sb.slice.elts if isinstance(x, ast.Constant) and isinstance(x.value, int) and not isinstance(x.value, bool)]
                        if len(idx) != sum(1 for x in sb.slice.elts if isinstance(x, ast.Constant)):
                            continue
                        if not idx:
                            continue
                        n += 1
                        bad_i = [i for i in idx if i >= k or i < -k]
                        construct = 'index %s of a %dx%d matrix' % (src(sb, 24), k, k)
                        if bad_i:
                            run.violation(rule, f.key, construct, 'on every path to this expression %s is a %dx%d matrix (%s), so the constant index %d is out of '
                                          'range: IndexError for every input that reaches it' % (sb.value.id, k, k, 'shape / membership test', bad_i[0]), f=f, node=sb)
                        else:
                            run.holds(rule, f.key, construct, 'inside the matrix', f=f, node=sb, nontrivial=False)
                for c in ast.walk(h):
                    if not isinstance(c, ast.Call):
                        continue
                    cc = canon(fi, c, inline=False)
                    if not (isinstance(cc, ast.Call) and isinstance(cc.func, ast.Name) and cc.func.id in REQUIRES and cc.args):
                        continue
                    k = _shape(cc.args[0], shapes)
                    if k is None:
                        continue
                    n += 1
                    fn = cc.func.id
                    construct = '%s(%s) with %s' % (fn, src(c.args[0], 30), ', '.join('%s: %dx%d' % (a, b, b) for a, b in sorted(shapes.items())))
                    if k in REQUIRES[fn]:
                        run.holds(rule, f.key, construct, 'argument is %dx%d, accepted by %s' % (k, k, fn), f=f, node=c)
                    else:
                        run.violation(rule, f.key, construct, 'on every path to this call the argument is a %dx%d matrix, but %s accepts only %s: '
                                      'the call raises for every input that reaches this branch' % (
                                          k, k, fn, ' or '.join('%dx%d' % (x, x) for x in sorted(REQUIRES[fn]))), f=f, node=c)
    return n


def _shape(e, shapes):
    if isinstance(e, ast.Name):
        return shapes.get(e.id)
    if isinstance(e, ast.Call) and isinstance(e.func, ast.Name) and e.func.id in RESULT and e.args:
        k = _shape(e.args[0], shapes)
        if k is None:
            return None
        if e.func.id in REQUIRES and k not in REQUIRES[e.func.id]:
            return None          # reported at the inner call
        return RESULT[e.func.id](k)
    return None


PREDICATES = {'ismatrix', 'isvector', 'isscalar', 'isrot', 'ishom', 'isrot2', 'ishom2', 'isR', 'isskew', 'isskewa', 'iseye',
              'isunitvec', 'iszerovec', 'isunittwist', 'isunittwist2', 'isnumberlist', 'islistof', 'isvectorlist', 'issymbol'}


def check_predicate_results(run, funcs, rule='R20'):
    """A name bound to the result of a predicate (a bool) and then subscripted / transposed / used in arithmetic is a confusion
    of the test with the converter (ismatrix for getmatrix): the use raises TypeError for every input."""
    from ..cfg import reaching_defs
    n = 0
    for f in funcs:
        fi = FuncInfo.of(f)
        cand = {}
        for st in own_walk(f.node):
            if isinstance(st, ast.Assign) and len(st.targets) == 1 and isinstance(st.targets[0], ast.Name) and isinstance(st.value, ast.Call):
                c = canon(fi, st.value, inline=False)
                if isinstance(c, ast.Call) and isinstance(c.func, ast.Name) and c.func.id in PREDICATES:
                    cand.setdefault(st.targets[0].id, []).append(st)
        if not cand:
            continue
        cfg = CFG(f.node)
        IN, OUT = reaching_defs(cfg, f.allparams)
        reach = cfg.reachable()
        pred_nodes = {nm: {cfg.node_of(st).id for st in sts if cfg.node_of(st) is not None} for nm, sts in cand.items()}
        parents = {}
        for x in own_walk(f.node):
            for ch in ast.iter_child_nodes(x):
                parents[id(ch)] = x
        for node in cfg.nodes:
            if node.id not in reach:
                continue
            for h in header_expr(node):
                if h is None:
                    continue
                for x in ast.walk(h):
                    if isinstance(x, ast.Name) and isinstance(x.ctx, ast.Load) and x.id in cand:
                        defs = {d for (nm, d) in IN.get(node.id, ()) if nm == x.id}
                        if not defs or not defs <= pred_nodes[x.id]:
                            continue
                        par = parents.get(id(x))
                        arr = (isinstance(par, ast.Subscript) and par.value is x) or \
                              (isinstance(par, ast.Attribute) and par.attr in ('T', 'shape', 'flatten', 'reshape')) or \
                              (isinstance(par, ast.BinOp) and isinstance(par.op, ast.MatMult))
                        n += 1
                        if arr:
                            run.violation(rule, f.key, 'predicate result used as an array: ' + src(par, 30),
                                          '%s holds the boolean returned by %s (every definition reaching this use), but is used as an array: '
                                          'TypeError for every input' % (x.id, src(cand[x.id][0].value, 40)), f=f, node=x)
                        else:
                            run.holds(rule, f.key, 'predicate result ' + x.id, 'used as a truth value', f=f, node=x, nontrivial=False)
    return n


DUAL_MODE = {'transl': 3, 'transl2': 2}


def check_dual_mode_calls(run, funcs, rule='R20'):
    """transl / transl2 are dual-mode: given ONE argument they BUILD a homogeneous matrix from a k-vector but EXTRACT the translation
    (a k-vector) from a (k+1)x(k+1) matrix.  In a method of a pose class a one-argument call must therefore be reached only
    where the argument is known to be a k-vector (isvector(a, k) / len(a) == k holds on every path, or a is a row of an array whose
    shape[1] == k is established): otherwise a matrix that the validating import has just rejected reaches the call, and the
    extracted k-vector is stored as the value of the object."""
    from ..cfg import reaching_defs
    n = 0
    for f in funcs:
        if f.cls is None:
            continue
        fi = FuncInfo.of(f)
        calls = []
        for c in own_walk(f.node):
            if isinstance(c, ast.Call) and len(c.args) == 1 and not c.keywords:
                cc = canon(fi, c, inline=False)
                if isinstance(cc, ast.Call) and isinstance(cc.func, ast.Name) and cc.func.id in DUAL_MODE:
                    calls.append((c, cc.func.id))
        if not calls:
            continue
        cfg = CFG(f.node)
        facts = must_facts(cfg)
        parents = {}
        for x in ast.walk(f.node):
            for ch in ast.iter_child_nodes(x):
                parents[id(ch)] = x
        for (c, fn) in calls:
            k = DUAL_MODE[fn]
            a = c.args[0]
            n += 1
            construct = '%s(%s)' % (fn, src(a, 30))
            # the statement node holding the call
            st = c
            while st is not None and cfg.node_of(st) is None:
                st = parents.get(id(st))
            node = cfg.node_of(st) if st is not None else None
            fs = facts.get(node.id, frozenset()) if node is not None else frozenset()
            if isinstance(a, (ast.List, ast.Tuple)) or (isinstance(a, ast.Subscript) and isinstance(a.slice, ast.Slice)):
                run.holds(rule, f.key, construct, 'the argument is a display / slice: a vector by construction', f=f, node=c)
                continue
            if not isinstance(a, ast.Name):
                run.undecided(rule, f.key, construct, 'argument of the dual-mode call is not a plain name', f=f, node=c)
                continue
            ok = None
            for fc in fs:
                e = fc[2].ast
                for pat in ('isvector(%s, %d)' % (a.id, k), 'base.isvector(%s, %d)' % (a.id, k), 'argcheck.isvector(%s, %d)' % (a.id, k),
                            'len(%s) == %d' % (a.id, k)):
                    if fc[1] and matches(pat, e) is not None:
                        ok = 'guarded by ' + src(e, 40)
            if ok is None:
                # a comprehension / loop target ranging over the rows of an array with shape[1] == k
                p_ = parents.get(id(c))
                while p_ is not None and not isinstance(p_, (ast.ListComp, ast.For)):
                    p_ = parents.get(id(p_))
                gens = p_.generators if isinstance(p_, ast.ListComp) else ([p_] if isinstance(p_, ast.For) else [])
                for g in gens:
                    if isinstance(g.target, ast.Name) and g.target.id == a.id and isinstance(g.iter, ast.Name):
                        for fc in fs:
                            if fc[1] and matches('%s.shape[1] == %d' % (g.iter.id, k), fc[2].ast) is not None:
                                ok = 'a row of %s, whose shape[1] == %d' % (g.iter.id, k)
                        if ok is None and matches('getvector(_X)', canon(fi, g.iter, inline=False)) is not None:
                            ok = 'an element of a vector'
                        if ok is None and g.iter.id not in f.allparams:
                            # the iterable is a local chosen in several arms (its = [x] under isvector(x, k); its = x under x.shape[1] == k):
                            # every definition that reaches the loop is a sequence of k-vectors by the facts at ITS site
                            IN, _OUT = reaching_defs(cfg, f.allparams)
                            defs = [cfg.nodes[d] for (nm_, d) in IN.get(node.id, ()) if nm_ == g.iter.id] if node is not None else []
                            good = []
                            for dn in defs:
                                da = dn.ast
                                dfs = facts.get(dn.id, frozenset())
                                v = da.value if isinstance(da, ast.Assign) and len(da.targets) == 1 and isinstance(da.targets[0], ast.Name) else None

                                def vec(nm_):
                                    return any(fc[1] and any(matches(p_ % (nm_, k), fc[2].ast) is not None for p_ in
                                                             ('isvector(%s, %d)', 'base.isvector(%s, %d)', 'argcheck.isvector(%s, %d)', 'len(%s) == %d')) for fc in dfs)
                                if isinstance(v, (ast.List, ast.Tuple)) and v.elts and all(isinstance(x_, ast.Name) and vec(x_.id) for x_ in v.elts):
                                    good.append(True)
                                elif isinstance(v, ast.Name) and any(fc[1] and matches('%s.shape[1] == %d' % (v.id, k), fc[2].ast) is not None for fc in dfs):
                                    good.append(True)
                                else:
                                    good.append(False)
                            if defs and all(good):
                                ok = 'an element of %s, every definition of which is a sequence of %d-vectors' % (g.iter.id, k)
                            elif defs and not any(good):
                                pass
                            else:
                                ok = False        # mixed / unknown: not decided here
            if ok is False:
                run.undecided(rule, f.key, construct, 'the argument ranges over a local whose definitions are not all recognised', f=f, node=c)
            elif ok is not None:
                run.holds(rule, f.key, construct, 'the argument is a %d-vector: %s' % (k, ok), f=f, node=c)
            else:
                run.violation(rule, f.key, construct, '%s is dual-mode: for a %dx%d matrix argument it returns the translation %d-vector instead of '
                              'building a matrix. No test on the paths to this call establishes that %s is a %d-vector (isvector(%s, %d) / '
                              'len(%s) == %d): a %dx%d array rejected by the validating import reaches it and the extracted vector is '
                              'stored as the value of the object' % (fn, k + 1, k + 1, k, a.id, k, a.id, k, a.id, k, k + 1, k + 1), f=f, node=c)
    return n


MEMBERSHIP = {'isrot', 'ishom', 'isrot2', 'ishom2', 'isR'}


def check_inverted_guards(run, funcs, rule='R20g'):
    """A function that raises "not a valid ..." where a membership predicate of its own argument has just SUCCEEDED rejects exactly
    the values it is written for: the raise must lie on the failing side of the membership tests (if not isrot(T) and not ishom(T):
    raise), never under a positive one."""
    n = 0
    for f in funcs:
        txt = ast.unparse(f.node)
        if not any(m in txt for m in MEMBERSHIP) or 'raise' not in txt:
            continue
        cfg = CFG(f.node)
        facts = must_facts(cfg)
        reach = cfg.reachable()
        params = set(f.allparams)
        for node in cfg.nodes:
            if node.id not in reach or not isinstance(node.ast, ast.Raise):
                continue
            exc = node.ast.exc
            exn = exc.func.id if isinstance(exc, ast.Call) and isinstance(exc.func, ast.Name) else (exc.id if isinstance(exc, ast.Name) else None)
            if exn not in ('ValueError', 'TypeError'):
                continue
            fs = facts.get(node.id, frozenset())
            pos = []
            neg = []
            for fc in fs:
                e = fc[2].ast
                if isinstance(e, ast.Call) and e.args and isinstance(e.args[0], ast.Name) and e.args[0].id in params:
                    fn = e.func.attr if isinstance(e.func, ast.Attribute) else (e.func.id if isinstance(e.func, ast.Name) else None)
                    if fn in MEMBERSHIP:
                        (pos if fc[1] else neg).append((fn, e.args[0].id))
            if not pos and not neg:
                continue
            n += 1
            construct = 'raise %s under %s' % (exn, ', '.join(('%s(%s)' % p) for p in pos) or 'failed membership tests')
            if pos:
                run.violation(rule, f.key, construct, 'the exception is raised on a path where %s(%s) has SUCCEEDED%s: the function rejects the values it is '
                              'documented to accept (an inverted guard)' % (pos[0][0], pos[0][1],
                                                                            (' and %s has failed' % ', '.join('%s(%s)' % q for q in neg)) if neg else ''), f=f, node=node.ast)
            else:
                run.holds(rule, f.key, construct, 'raised only where the membership tests have failed', f=f, node=node.ast, nontrivial=False)
    return n


def check_slot_completeness(run, funcs, rule='R20s'):
    """A result vector allocated as zeros((k,)) and filled slot by slot (rpy[0] = .., rpy[1] = .., rpy[2] = ..) is returned only where every
    slot 0..k-1 has been written on the path: a slot that is written twice while another is never written keeps its initial 0
    (a copy-paste slip in the index)."""
    from ..cfg import forward
    n = 0
    for f in funcs:
        fi = FuncInfo.of(f)
        allocs = {}
        for st in own_walk(f.node):
            if isinstance(st, ast.Assign) and len(st.targets) == 1 and isinstance(st.targets[0], ast.Name):
                c = canon(fi, st.value, inline=False)
                b = matches('zeros((_K,))', c) or matches('zeros(_K)', c) or matches('zeros((_K,), *_R)', c)
                if b is not None and isinstance(b['_K'], ast.Constant) and isinstance(b['_K'].value, int) and 2 <= b['_K'].value <= 8:
                    allocs[st.targets[0].id] = (b['_K'].value, st)
        if not allocs:
            continue
        cfg = CFG(f.node)
        reach = cfg.reachable()
        for name, (k, alloc) in allocs.items():
            # only vectors that are filled by constant-index stores at all
            stores = [st for st in own_walk(f.node) if isinstance(st, ast.Assign) for t in st.targets
                      if isinstance(t, ast.Subscript) and isinstance(t.value, ast.Name) and t.value.id == name and isinstance(t.slice, ast.Constant) and isinstance(t.slice.value, int)]
            other = [st for st in own_walk(f.node) if isinstance(st, (ast.Assign, ast.AugAssign)) for t in (st.targets if isinstance(st, ast.Assign) else [st.target])
                     if isinstance(t, ast.Subscript) and isinstance(t.value, ast.Name) and t.value.id == name and not (isinstance(t.slice, ast.Constant) and isinstance(t.slice.value, int))]
            if len(stores) < k or other:
                continue

            def transfer(node, env):
                a = node.ast
                if node.kind == 'stmt' and a is alloc:
                    return frozenset()
                if env is None:
                    return None
                if node.kind == 'stmt' and isinstance(a, ast.Assign):
                    for t in a.targets:
                        if isinstance(t, ast.Name) and t.id == name:
                            return None if a is not alloc else frozenset()
                        if isinstance(t, ast.Subscript) and isinstance(t.value, ast.Name) and t.value.id == name and isinstance(t.slice, ast.Constant):
                            return env | {t.slice.value % k if isinstance(t.slice.value, int) else t.slice.value}
                return env

            def join(vals):
                vs = [v for v in vals if v is not None]
                if not vs:
                    return None
                r = vs[0]
                for v in vs[1:]:
                    r = r & v
                return r
            # a chain `k == 0 / k == 1 / .. / k == m-1` over k = argmax(<m candidates>) is exhaustive: its fall-through edge is infeasible
            facts = must_facts(cfg)
            argmax_len = {}
            for st in own_walk(f.node):
                if isinstance(st, ast.Assign) and len(st.targets) == 1 and isinstance(st.targets[0], ast.Name):
                    bb = matches('argmax(abs(_L))', canon(fi, st.value, inline=False)) or matches('argmax(_L)', canon(fi, st.value, inline=False))
                    if bb is not None and isinstance(bb['_L'], (ast.List, ast.Tuple)):
                        argmax_len[st.targets[0].id] = len(bb['_L'].elts)

            def edge(src, label, val):
                if val is None or label is None or not isinstance(label[0], ast.AST) or label[1] is not False:
                    return val
                t = label[0]
                for kn, m in argmax_len.items():
                    b0 = matches('%s == _I' % kn, t)
                    if b0 is None or not isinstance(b0['_I'], ast.Constant):
                        continue
                    excluded = {b0['_I'].value}
                    for fc in facts.get(src.id, frozenset()):
                        b1 = matches('%s == _I' % kn, fc[2].ast)
                        if b1 is not None and not fc[1] and isinstance(b1['_I'], ast.Constant):
                            excluded.add(b1['_I'].value)
                    if set(range(m)) <= excluded:
                        return None
                return val
            IN, OUT = forward(cfg, None, transfer, join, edge_transfer=edge)
            for node in cfg.nodes:
                if node.id not in reach or not isinstance(node.ast, ast.Return) or node.ast.value is None:
                    continue
                if not any(isinstance(y, ast.Name) and y.id == name for y in ast.walk(node.ast.value)):
                    continue
                env = IN.get(node.id)
                if env is None:
                    continue
                n += 1
                missing = sorted(set(range(k)) - set(env))
                construct = 'slots of %s at the return' % name
                if missing:
                    run.violation(rule, f.key, construct, '%s is allocated with %d zero slots and returned on a path on which slot %s is never written (slots '
                                  'written on every such path: %s): that component of the result stays 0' % (name, k, '/'.join(map(str, missing)), sorted(env)), f=f, node=node.ast)
                else:
                    run.holds(rule, f.key, construct, 'every slot 0..%d is written on every path to the return' % (k - 1), f=f, node=node.ast)
    return n


# ------------------------------------------------------------------------------ the layout of a point array is not guessed from one dimension
def _shape_dim_test(t):
    """X.shape[d] == K  ->  (X text, d, K text, True)   |   X.shape[d] != K -> (.., False)"""
    if isinstance(t, ast.Compare) and len(t.ops) == 1 and isinstance(t.ops[0], (ast.Eq, ast.NotEq)):
        for a, b in ((t.left, t.comparators[0]), (t.comparators[0], t.left)):
            if isinstance(a, ast.Subscript) and isinstance(a.value, ast.Attribute) and a.value.attr == 'shape' and \
                    isinstance(a.slice, ast.Constant) and a.slice.value in (0, 1):
                return (ast.unparse(a.value.value), a.slice.value, ast.unparse(b), isinstance(t.ops[0], ast.Eq))
    return None


def _is_transpose_of(e, xtxt):
    if isinstance(e, ast.Attribute) and e.attr == 'T' and ast.unparse(e.value) == xtxt:
        return True
    if isinstance(e, ast.Call) and getattr(e.func, 'attr', getattr(e.func, 'id', None)) == 'transpose':
        if e.args and ast.unparse(e.args[0]) == xtxt:
            return True
        if isinstance(e.func, ast.Attribute) and ast.unparse(e.func.value) == xtxt and not e.args:
            return True
    return False


def check_layout_by_one_dimension(run, funcs, rule='R20t'):
    """An array of points is documented one point per COLUMN (K x M).  Code that also accepts one point per row and picks the
    layout from a single dimension -- `P = X.T if X.shape[1] == K else X`, `if X.shape[1] == K: X = X.T` -- transposes every
    K x K array, so K points given as columns are read as rows: result column i is no longer the image of point i.  The choice
    is sound only if the test also excludes the documented layout (`X.shape[0] != K`)."""
    from ..pattern import conjuncts
    n = 0
    for f in funcs:
        for x in own_walk(f.node):
            test = None
            xtxt = None
            if isinstance(x, ast.IfExp):
                test, a, b = x.test, x.body, x.orelse
            elif isinstance(x, ast.If) and len(x.body) == 1 and isinstance(x.body[0], ast.Assign) and len(x.body[0].targets) == 1 and not x.orelse:
                st = x.body[0]
                test, a, b = x.test, st.value, st.targets[0]
            elif isinstance(x, ast.If) and len(x.body) == 1 and len(x.orelse) == 1 and all(
                    isinstance(y, ast.Assign) and len(y.targets) == 1 and isinstance(y.targets[0], ast.Name) for y in (x.body[0], x.orelse[0])) \
                    and x.body[0].targets[0].id == x.orelse[0].targets[0].id:
                # P = X.T if c else X   (also in its statement form)
                test, a, b = x.test, x.body[0].value, x.orelse[0].value
            elif isinstance(x, ast.If) and len(x.body) == 1 and len(x.orelse) == 1:
                # the same statement in both arms, once with X.T and once with X (the local of the choice put in place)
                test, a, b = x.test, None, None
                whole = (x.body[0], x.orelse[0])
            else:
                continue
            cs = conjuncts(test)
            dims = [d for d in (_shape_dim_test(c) for c in cs) if d is not None]
            if a is None:
                class _UnT(ast.NodeTransformer):
                    def __init__(self, name):
                        self.name = name
                        self.hit = 0

                    def visit_Attribute(self, n_):
                        self.generic_visit(n_)
                        if n_.attr == 'T' and ast.unparse(n_.value) == self.name:
                            self.hit += 1
                            return n_.value
                        return n_
                found = False
                for (xt, d, k, eq) in dims:
                    import copy as _cp
                    tr_st, id_st = (whole[0], whole[1]) if eq else (whole[1], whole[0])
                    u = _UnT(xt)
                    stripped = u.visit(_cp.deepcopy(tr_st))
                    if d == 1 and u.hit == 1 and ast.dump(stripped) == ast.dump(id_st):
                        a, b = (ast.Attribute(value=ast.parse(xt, mode='eval').body, attr='T', ctx=ast.Load()), ast.parse(xt, mode='eval').body)
                        if not eq:
                            a, b = b, a
                        found = True
                if not found:
                    continue
            for (xt, d, k, eq) in dims:
                # the arm taken when shape[1] == K (or shape[0] != K ... not a guess from ONE dimension) transposes, the other does not
                tr_arm, id_arm = (a, b) if eq else (b, a)
                if d == 1 and _is_transpose_of(tr_arm, xt) and ast.unparse(id_arm) == xt:
                    n += 1
                    excl = any(o[0] == xt and o[1] == 0 and o[2] == k and (o[3] != eq) for o in dims)
                    construct = 'layout of %s chosen by %s' % (xt, src(test, 50))
                    if excl:
                        run.holds(rule, f.key, construct, 'the documented %s x M layout is excluded by the same test' % k, f=f, node=x)
                    else:
                        run.violation(rule, f.key, construct, 'the array %s is transposed whenever its second dimension is %s: a %s x %s array given in the '
                                      'documented layout (one point per column) also satisfies the test and is read row by row, so result column '
                                      'i is not the image of point i (any non-symmetric square array of points)' % (xt, k, k, k), f=f, node=x)
    return n
