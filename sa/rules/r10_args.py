"""R10 -- argument forms: (a) every documented array_like parameter passes the normaliser before any
shape-dependent use, (b) with its documented dimension; (d) options are threaded: an option parameter is used,
angles are converted exactly once (unit typestate), order chains end in raise and sibling tables agree."""
import ast
import re

from ..model import Function
from ..scope import FuncInfo
from ..cfg import CFG, forward, must_facts, reaching_defs, header_expr, stmt_defs
from ..callgraph import own_walk
from ..astutil import src, ctarget, cname, kwarg, if_chain, ends_in_raise, body_nodoc
from ..pattern import canon, matches, find_all

NORMALISERS = {'getvector', 'getmatrix'}
FORM_TESTS = {'isvector', 'ismatrix', 'isscalar', 'isinstance', 'issymbol', 'assertvector', 'assertmatrix',
              'isnumberlist', 'isvectorlist', 'islistof', 'callable', 'type'}
COPYING = {'array', 'asarray', 'norm'}          # numpy: accept any container form
OPTION_NAMES = {'unit', 'units', 'order', 'flip', 'check', 'shortest', 'twist', 'norm', 't', 'tol', 'samebody', 'unitq', 'list1', 'matrix'}

# the normaliser roots themselves: they are what maps the five container forms to one
TRUSTED_ROOTS = {'base/argcheck:getvector', 'base/argcheck:getmatrix', 'base/argcheck:getunit', 'base/argcheck:isvector',
                 'base/argcheck:ismatrix', 'base/argcheck:isscalar', 'base/argcheck:assertvector', 'base/argcheck:assertmatrix'}

OPTION_EXCEPTIONS = {
    ('quaternion:Quaternion.__init__', 'check'): 'any 4-vector is a valid quaternion: nothing to check',
}

# raw uses that are deliberate (docstrings say "does not use NumPy, ~2x faster"): named, with reason
RAW_KNOWN = {}


def doc_types(f):
    """param -> type text from the docstring, with positional fallback for stale names."""
    ents = re.findall(r':type\s+([^:]*):\s*:?\s*(.*)', f.doc)
    params = [p for p in f.params if p not in ('self', 'cls')]
    out = {}
    stale = []
    for nm, ty in ents:
        nm = nm.strip()
        if nm in f.allparams:
            out.setdefault(nm, ty.strip())
        else:
            stale.append((nm, ty.strip()))
    if stale:
        # positional: i-th :type entry <-> i-th parameter
        for i, (nm, ty) in enumerate(ents):
            if i < len(params) and params[i] not in out:
                out[params[i]] = ty.strip()
    return out


def array_like_dim(ty):
    """-> (is_array_like, dim or None, also_matrix)"""
    if 'array_like' not in ty:
        return (False, None, False)
    if re.search(r'array_like\([^)]*,[^)]*\)', ty) and not re.search(r'array_like\(\w+\)', ty):
        return (False, None, True)      # only matrix forms documented
    dims = re.findall(r'array_like\((\d+)\)', ty)
    dim = int(dims[0]) if len(set(dims)) == 1 and len(dims) == 1 else None
    return (True, dim, 'ndarray' in ty)


def _parents(fnode):
    par = {}
    for x in own_walk(fnode):
        for c in ast.iter_child_nodes(x):
            par[id(c)] = x
    for c in ast.iter_child_nodes(fnode):
        par[id(c)] = fnode
    return par


def check_array_like(run, f, rule='R10a'):
    fi = FuncInfo.of(f)
    types = doc_types(f)
    al = {p: array_like_dim(t) for p, t in types.items() if array_like_dim(t)[0]}
    if not al:
        return 0
    cfg = CFG(f.node)
    IN, OUT = reaching_defs(cfg, f.allparams)
    facts = must_facts(cfg)
    reach = cfg.reachable()
    par = _parents(f.node)
    n = 0
    for p, (_, dim, also_mat) in al.items():
        uses = []
        for node in cfg.nodes:
            if node.id not in reach:
                continue
            inv = IN.get(node.id, frozenset())
            raw_here = (p, cfg.entry.id) in inv
            if not raw_here:
                continue
            for h in header_expr(node):
                if h is None:
                    continue
                for x in ast.walk(h):
                    if isinstance(x, ast.Name) and x.id == p and isinstance(x.ctx, ast.Load):
                        uses.append((node, x))
        bad = []
        und = []
        normalised_with_dim = False
        any_norm = False
        for (node, x) in uses:
            fs = facts.get(node.id, frozenset())
            dominated = False
            for fc in fs:
                t, pol = fc[2].ast, fc[1]
                if pol and (matches('isinstance(%s, ndarray)' % p, canon(fi, t)) is not None or
                            find_all('ismatrix(%s, __)' % p, canon(fi, t)) or
                            matches('isinstance(%s, np.ndarray)' % p, t) is not None):
                    dominated = True
                if pol and dim is not None and find_all('isvector(%s, %d)' % (p, dim), canon(fi, t)):
                    normalised_with_dim = True
                ct = canon(fi, t)
                if not pol and find_all('isvector(%s, __)' % p, ct) and isinstance(ct, ast.Call):
                    dominated = True    # not a vector: the documented matrix / multi-row form
                if pol and isinstance(ct, ast.BoolOp) and isinstance(ct.op, ast.Or) and all(
                        matches('isinstance(%s, ndarray)' % p, d) is not None or matches('isscalar(%s)' % p, d) is not None
                        for d in ct.values):
                    dominated = True
            # short-circuit domination inside one `and` expression: isinstance(p, ndarray) and ... p.shape ...
            anc = par.get(id(x))
            child = x
            while anc is not None and not isinstance(anc, ast.stmt):
                if isinstance(anc, ast.BoolOp) and isinstance(anc.op, ast.And):
                    idx = [i for i, v in enumerate(anc.values) if any(y is child for y in ast.walk(v))]
                    if idx:
                        for v in anc.values[:idx[0]]:
                            cv = canon(fi, v)
                            if matches('isinstance(%s, ndarray)' % p, cv) is not None or find_all('ismatrix(%s, __)' % p, cv):
                                dominated = True
                child = anc
                anc = par.get(id(anc))
            pr = par.get(id(x))
            ok = False
            if isinstance(pr, ast.Call) and (x in pr.args or any(k.value is x for k in pr.keywords)):
                nm = cname(fi, pr)
                short = nm.split('.')[-1]
                if short in NORMALISERS:
                    ok = True
                    any_norm = True
                    d = kwarg(pr, 'dim', 1)
                    if dim is not None and isinstance(d, ast.Constant) and d.value == dim:
                        normalised_with_dim = True
                    if short == 'getmatrix':
                        normalised_with_dim = True
                elif short in FORM_TESTS or short in COPYING:
                    ok = True
                    if short in ('isvector', 'assertvector') and dim is not None:
                        d = kwarg(pr, 'dim', 1)
                        if isinstance(d, ast.Constant) and d.value == dim:
                            normalised_with_dim = True
                elif short == 'len':
                    ok = dominated
                    if not ok:
                        bad.append((x, 'len(%s) on the raw argument (a (1,N)/(N,1) array has len 1 or N)' % p))
                        continue
                else:
                    t = ctarget(fi, pr)
                    if t is not None:
                        # forwarded to a repo function: accepted when that parameter is documented array_like
                        idx = pr.args.index(x) if x in pr.args else None
                        pn = None
                        tp = [q for q in t.params]
                        if t.kind in ('method', 'property', 'class') and tp:
                            tp = tp[1:]
                        if idx is not None and idx < len(tp):
                            pn = tp[idx]
                        for k in pr.keywords:
                            if k.value is x:
                                pn = k.arg
                        tt = doc_types(t).get(pn, '') if pn else ''
                        if 'array_like' in tt or pn is None:
                            ok = True
                            if dim is not None and array_like_dim(tt)[1] == dim:
                                normalised_with_dim = True
                        else:
                            ok = True   # forwarded; the callee's own declaration decides
                    else:
                        und.append((x, 'passed to %s' % nm))
                        continue
            elif isinstance(pr, ast.Compare) and all(isinstance(c, ast.Constant) and c.value is None for c in pr.comparators):
                ok = True
            elif isinstance(pr, (ast.List, ast.Tuple)):
                ok = any(fc[1] and find_all('isscalar(%s)' % p, canon(fi, fc[2].ast)) for fc in fs) or \
                    any(fc[1] and 'isscalar(%s)' % p in ast.unparse(fc[2].ast) for fc in fs)
                if not ok:
                    und.append((x, 'element of a display'))
                    continue
            elif isinstance(pr, ast.Return) and pr.value is x and not dominated:
                # the raw argument itself is the result: a list comes back as a list, a (1,N) array as a (1,N) array, a vector of
                # the wrong length is answered instead of rejected
                bad.append((x, 'the raw argument is returned as the result (return %s): the container and shape of the answer depend on '
                            'the form the caller used, and a wrong length is not rejected on this path' % p))
                continue
            elif isinstance(pr, ast.Return) or isinstance(pr, ast.Assign) or isinstance(pr, ast.keyword):
                ok = True
            elif isinstance(pr, (ast.If, ast.While, ast.BoolOp, ast.UnaryOp, ast.IfExp)):
                ok = True   # truth test
            if ok:
                continue
            if dominated:
                continue
            if isinstance(pr, ast.BinOp):
                bad.append((x, 'arithmetic on the raw argument (%s): a list is repeated/concatenated or fails, a (1,N)/(N,1) '
                            'array broadcasts differently' % src(pr, 40)))
            elif isinstance(pr, ast.Subscript) and pr.value is x:
                bad.append((x, 'subscript of the raw argument (%s): a (1,N) or (N,1) array indexes rows, not elements' % src(pr, 30)))
            elif isinstance(pr, (ast.For, ast.comprehension)) and getattr(pr, 'iter', None) is x:
                bad.append((x, 'iteration over the raw argument: a (1,N)/(N,1) array yields rows'))
            elif isinstance(pr, ast.Attribute) and pr.attr in ('shape', 'T', 'size', 'ndim', 'dtype', 'flatten', 'reshape'):
                bad.append((x, '.%s of the raw argument: fails for list/tuple forms' % pr.attr))
            elif isinstance(pr, ast.Starred):
                bad.append((x, 'unpacking of the raw argument'))
            else:
                und.append((x, 'context %s' % type(pr).__name__))
        n += 1
        construct = 'array_like %s' % p
        if (f.key, p) in RAW_KNOWN:
            run.info(rule, f.key, construct, RAW_KNOWN[(f.key, p)], f=f)
            continue
        if bad:
            x, why = bad[0]
            run.violation(rule, f.key, construct, 'documented array_like parameter %r is used before it is normalised: %s'
                          % (p, why), f=f, node=x, detail={'all': [w for (_, w) in bad]})
        elif und:
            run.undecided(rule, f.key, construct, 'raw use in an unrecognised context: ' + '; '.join(sorted({w for (_, w) in und})), f=f)
        else:
            run.holds(rule, f.key, construct, 'every use of the raw argument is a normaliser, a form test, a None test or a '
                      'forward to an array_like parameter', f=f, nontrivial=bool(uses))
        if dim is not None and not bad and not und:
            if normalised_with_dim:
                run.holds('R10b', f.key, construct + ' dim %d' % dim, 'length %d is enforced (dim= / isvector)' % dim, f=f)
            elif any_norm and _len_enforced(f, p, dim):
                run.holds('R10b', f.key, construct + ' dim %d' % dim, 'length %d is enforced by a len() test whose else raises' % dim, f=f)
            elif any_norm:
                run.violation('R10b', f.key, construct + ' dim %d' % dim, 'documented array_like(%d) but the normaliser is called '
                              'without dim=%d: a vector of the wrong length is not rejected' % (dim, dim), f=f)
            else:
                run.undecided('R10b', f.key, construct + ' dim %d' % dim, 'dimension check is delegated to a callee', f=f)
    return n


def _len_enforced(f, p, dim):
    """every value return of f is reached only where len(p) == dim has been established (an if/else whose else raises, a guard
    `if len(p) != dim: raise`, an assert ...): decided on the must-facts, whatever the shape of the test"""
    cfg = CFG(f.node)
    facts = must_facts(cfg)
    reach = cfg.reachable()
    rets = [r for r in own_walk(f.node) if isinstance(r, ast.Return) and r.value is not None and cfg.node_of(r) is not None and cfg.node_of(r).id in reach]
    if not rets:
        return False
    for r in rets:
        fs = facts.get(cfg.node_of(r).id, frozenset())
        if not any(fc[1] and matches('len(%s) == %d' % (p, dim), fc[2].ast) is not None for fc in fs):
            return False
    return True


def check_scalar_iteration(run, f, rule='R10s'):
    """A parameter documented as a scalar (float/int, possibly 'or array_like') must pass getvector before it is
    iterated: `for x in theta` / `for x in getunit(theta, unit)` fails with TypeError for the documented scalar form."""
    fi = FuncInfo.of(f)
    types = doc_types(f)
    sc = [p for p, t in types.items() if re.search(r'\b(float|int|scalar)\b', t)]
    if not sc:
        return 0
    cfg = CFG(f.node)
    IN, OUT = reaching_defs(cfg, f.allparams)
    reach = cfg.reachable()
    n = 0
    for node in cfg.nodes:
        if node.id not in reach:
            continue
        for h in header_expr(node):
            if h is None:
                continue
            for x in ast.walk(h):
                its = []
                if isinstance(x, (ast.ListComp, ast.GeneratorExp, ast.SetComp)):
                    its = [g.iter for g in x.generators]
                elif isinstance(x, ast.For) and x is node.ast:
                    its = [x.iter]
                for it in its:
                    e = it
                    via = ''
                    if isinstance(e, ast.Call) and cname(fi, e).split('.')[-1] == 'getunit' and e.args:
                        e = e.args[0]
                        via = ' (through getunit, which returns a scalar unchanged)'
                    if isinstance(e, ast.Name) and e.id in sc and (e.id, cfg.entry.id) in IN.get(node.id, ()):
                        n += 1
                        defs = [d for (nm, d) in IN.get(node.id, ()) if nm == e.id]
                        if defs == [cfg.entry.id]:
                            run.violation(rule, f.key, 'iteration over scalar parameter ' + e.id,
                                          'parameter %r is documented as a scalar but is iterated%s without passing getvector: '
                                          'the documented scalar call form raises TypeError' % (e.id, via), f=f, node=it)
    if node and n == 0:
        pass
    return n


# ---------------------------------------------------------------------------- option threading
def check_option_used(run, f, rule='R10d'):
    """An option parameter that is never read is silently ignored."""
    n = 0
    names = [p for p in f.allparams if p in OPTION_NAMES and p != f.selfname]
    if not names:
        return 0
    loads = {}
    for x in own_walk(f.node):
        if isinstance(x, ast.Name) and isinstance(x.ctx, ast.Load):
            loads[x.id] = loads.get(x.id, 0) + 1
    for p in names:
        if p == 't' and ':param t:' not in f.doc:
            continue    # undocumented leftover of a copied signature
        if f.name == 'isvalid' and p == 'check':
            continue    # predicates may ignore check (shape-only classes) or be stricter than asked
        if any(d.startswith('abstract') for d in f.decorators):
            continue
        if (f.key, p) in OPTION_EXCEPTIONS:
            continue
        n += 1
        if loads.get(p, 0) == 0:
            # a parameter kept only for signature compatibility is still an ignored option
            run.violation(rule, f.key, 'option ' + p, 'option %r is accepted but never used: the caller\'s choice is silently '
                          'ignored' % p, f=f)
        else:
            run.holds(rule, f.key, 'option ' + p, 'option is read (%d uses)' % loads[p], f=f)
    return n


def _unit_params(f):
    return [p for p in f.allparams if p in ('unit', 'units')]


def check_unit_typestate(run, f, rule='R10u'):
    """Angle values are 'raw' (in the caller's unit) until they pass getunit(value, unit); they may be forwarded
    together with unit= only while raw, and used numerically (trig, arithmetic, constructors without unit=) only when
    converted.  Decided for the functions that take a unit parameter and convert an INPUT angle."""
    ups = _unit_params(f)
    if not ups:
        return 0
    up = ups[0]
    fi = FuncInfo.of(f)
    # angle family seeds: parameters passed to getunit(...) or forwarded in a call that also forwards the unit
    seeds = set()
    for x in own_walk(f.node):
        if isinstance(x, ast.Call):
            nm = cname(fi, x).split('.')[-1]
            fw = _forwards_unit(x, up)
            if nm == 'getunit' and x.args:
                for y in ast.walk(x.args[0]):
                    if isinstance(y, ast.Name) and y.id in f.allparams and y.id != up:
                        seeds.add(y.id)
            elif fw:
                for a in x.args[:1]:
                    for y in ast.walk(a):
                        if isinstance(y, ast.Name) and y.id in f.allparams and y.id != up and y.id != f.selfname:
                            seeds.add(y.id)
    if not seeds:
        return 0
    cfg = CFG(f.node)
    reach = cfg.reachable()
    # dataflow: name -> state in {'raw','conv','mixed'}; names not in map are not angles
    init = {s: 'raw' for s in seeds}
    # the angle family: names that receive angle-derived values somewhere in the function (a literal default bound to such a name
    # on another path -- angle = 1 if theta is None else getunit(theta, units) -- needs no conversion)
    family = set(seeds)
    for _ in range(4):
        for st_ in own_walk(f.node):
            if isinstance(st_, ast.Assign) and any(isinstance(y, ast.Name) and y.id in family for y in ast.walk(st_.value)):
                for t in st_.targets:
                    if isinstance(t, ast.Name):
                        family.add(t.id)

    def state_of(e, env, comp_env=None):
        """state of the angle content of expression e: None (no angle), 'raw', 'conv', 'mixed'"""
        sts = set()
        for y in ast.walk(e):
            if isinstance(y, ast.Name) and isinstance(y.ctx, ast.Load):
                st = (comp_env or {}).get(y.id, env.get(y.id))
                if st:
                    sts.add(st)
        if not sts:
            return None
        if len(sts) == 1:
            return sts.pop()
        return 'mixed'

    def assign_state(value, env):
        if isinstance(value, ast.Call):
            nm = cname(fi, value).split('.')[-1]
            if nm == 'getunit' and value.args:
                u = value.args[1] if len(value.args) > 1 else kwarg(value, 'unit')
                st = state_of(value.args[0], env)
                if st is None:
                    return None
                return 'conv'
            if nm in ('getvector', 'array', 'asarray', 'list', 'tuple', 'r_', 'float'):
                return state_of(value, env)
        if isinstance(value, ast.Constant):
            return None
        return state_of(value, env)

    def transfer(node, env):
        if env is None:
            return None
        a = node.ast
        env = dict(env)
        if node.kind == 'stmt' and isinstance(a, ast.Assign):
            st = assign_state(a.value, env)
            if isinstance(a.value, ast.Constant) and any(isinstance(t, ast.Name) and (t.id in env or t.id in family) for t in a.targets):
                st = 'conv'     # a literal default (e.g. theta = 1) needs no conversion
            for t in a.targets:
                for y in ast.walk(t):
                    if isinstance(y, ast.Name) and isinstance(y.ctx, ast.Store):
                        if st:
                            env[y.id] = st
                        else:
                            env.pop(y.id, None)
        elif node.kind == 'for':
            st = state_of(a.iter, env)
            for y in ast.walk(a.target):
                if isinstance(y, ast.Name):
                    if st:
                        env[y.id] = st
                    else:
                        env.pop(y.id, None)
        return env

    def join(vals):
        vs = [v for v in vals if v is not None]
        if not vs:
            return None
        r = {}
        keys = set()
        for v in vs:
            keys |= set(v)
        for k in keys:
            ss = {v.get(k) for v in vs}
            if len(ss) == 1:
                r[k] = ss.pop()
            else:
                ss.discard(None)
                r[k] = 'mixed' if len(ss) > 1 or None in {v.get(k) for v in vs} else ss.pop()
        return r
    IN, OUT = forward(cfg, init, transfer, join)
    nsink = 0
    problems = []

    def visit_expr(e, env, node, comp_env):
        nonlocal nsink
        if isinstance(e, (ast.ListComp, ast.GeneratorExp, ast.SetComp)):
            ce = dict(comp_env)
            for g in e.generators:
                visit_expr(g.iter, env, node, ce)
                st = state_of(g.iter, env, ce)
                if isinstance(g.iter, ast.Call):
                    st2 = assign_state(g.iter, {**env, **ce})
                    st = st2 if st2 or st is None else st
                for y in ast.walk(g.target):
                    if isinstance(y, ast.Name):
                        if st:
                            ce[y.id] = st
                        else:
                            ce.pop(y.id, None)
                for c in g.ifs:
                    visit_expr(c, env, node, ce)
            visit_expr(e.elt, env, node, ce)
            return
        if isinstance(e, ast.Call):
            nm = cname(fi, e).split('.')[-1]
            fw = _forwards_unit(e, up)
            full = {**env, **comp_env}
            if nm == 'getunit':
                st = state_of(e.args[0], env, comp_env) if e.args else None
                nsink += 1
                if st == 'conv':
                    problems.append((e, 'double conversion: %s has already passed getunit on this path and is converted again'
                                     % src(e.args[0], 30)))
            elif fw:
                # forwarding the unit: angle arguments must still be raw
                for a in e.args[:1]:
                    st = state_of(a, env, comp_env)
                    if st is not None:
                        nsink += 1
                        if st in ('conv',):
                            problems.append((e, 'double conversion: %s is already converted to radians but is passed to %s '
                                             'together with %s=%s, which converts it again' % (src(a, 30), nm, fw, up)))
                        elif st == 'mixed':
                            problems.append((e, 'angle %s is converted on some paths only, then passed with %s=%s'
                                             % (src(a, 30), fw, up)))
            elif nm in ('sin', 'cos', 'tan', 'rot2', 'rotx', 'roty', 'rotz', 'trot2', 'trotx', 'troty', 'trotz', 'trexp',
                        'trexp2', 'rodrigues', 'angvec2r'):
                for a in e.args[:2 if nm.startswith('trexp') else 1]:
                    st = state_of(a, env, comp_env)
                    if st is not None:
                        nsink += 1
                        if st in ('raw', 'mixed'):
                            problems.append((e, 'angle %s reaches %s without unit conversion%s: %s=\'deg\' is ignored on '
                                             'this path' % (src(a, 30), nm, ' on some paths' if st == 'mixed' else '', up)))
            for a in e.args:
                visit_expr(a, env, node, comp_env)
            for k in e.keywords:
                visit_expr(k.value, env, node, comp_env)
            return
        if isinstance(e, ast.BinOp):
            # scaling a twist/axis by the angle: S * theta
            for side in (e.left, e.right):
                if isinstance(side, ast.Name):
                    st = comp_env.get(side.id, env.get(side.id))
                    other = e.right if side is e.left else e.left
                    if st in ('raw', 'mixed') and isinstance(e.op, ast.Mult) and \
                            any(isinstance(y, ast.Attribute) and y.attr in ('S', 'A', '_A') for y in ast.walk(other)) or \
                            (st in ('raw', 'mixed') and isinstance(e.op, ast.Mult) and isinstance(other, ast.Name)
                             and other.id in ('S', 'tw', 'x')):
                        nsink += 1
                        problems.append((e, 'angle %s scales a twist (%s) without unit conversion%s' %
                                         (side.id, src(e, 30), ' on some paths' if st == 'mixed' else '')))
        for c in ast.iter_child_nodes(e):
            if isinstance(c, ast.expr):
                visit_expr(c, env, node, comp_env)

    for node in cfg.nodes:
        if node.id not in reach or node.id not in IN or IN[node.id] is None:
            continue
        env = IN[node.id]
        for h in header_expr(node):
            if h is None:
                continue
            if isinstance(h, ast.Assign):
                visit_expr(h.value, env, node, {})
            elif isinstance(h, ast.expr):
                visit_expr(h, env, node, {})
            elif isinstance(h, (ast.AugAssign, ast.Expr, ast.Return)):
                if getattr(h, 'value', None) is not None:
                    visit_expr(h.value, env, node, {})
    if problems:
        seen = set()
        for e, msg in problems:
            k = msg
            if k in seen:
                continue
            seen.add(k)
            run.violation(rule, f.key, 'unit typestate: ' + src(e, 60), msg, f=f, node=e)
    elif nsink:
        run.holds(rule, f.key, 'unit typestate', 'every angle derived from %s is converted exactly once before numeric use '
                  '(%d sinks: getunit / unit-forwarding calls / trig and exponential kernels)' % ('/'.join(sorted(seeds)), nsink), f=f)
    return nsink


def _forwards_unit(call, up):
    for k in call.keywords:
        if k.arg in ('unit', 'units') and isinstance(k.value, ast.Name) and k.value.id == up:
            return k.arg
    # positional forwarding: helper(theta, units)
    for a in call.args[1:]:
        if isinstance(a, ast.Name) and a.id == up:
            return up
    return None


EXTRACTORS = ['base/transforms3d:tr2rpy', 'base/transforms3d:tr2eul', 'base/transforms3d:tr2angvec', 'base/transforms2d:tr2xyt',
              'pose2d:SO2.theta']


def check_extraction_units(run, f, rule='R10x'):
    """Extraction functions scale their angular result by 180/pi exactly under unit == 'deg'."""
    fi = FuncInfo.of(f)
    up = (_unit_params(f) or [None])[0]
    if up is None:
        run.violation(rule, f.key, 'deg scaling', 'extraction function has no unit parameter', f=f)
        return
    ok = False
    from ..cfg import pure_locals as _pl, _subst_pure as _sp
    env_ = _pl(f.node)

    def _is_deg_test(t):
        # the test itself, or a local flag holding it (is_deg = unit == 'deg')
        return matches("%s == 'deg'" % up, _sp(t, env_)) is not None
    for n in own_walk(f.node):
        if isinstance(n, ast.If) and _is_deg_test(n.test):
            for st in n.body:
                txt = ast.unparse(st)
                if '180' in txt and 'pi' in txt and isinstance(st, (ast.AugAssign, ast.Assign)):
                    # must be a multiplication by 180/pi
                    c = canon(fi, st.value)
                    if matches('180 / pi', c) is not None or matches('180.0 / pi', c) is not None or find_all('180 / pi', c) or find_all('180.0 / pi', c):
                        ok = True
    # a scale factor kept in a local (conv = 180/pi under deg, 1 otherwise) must reach EVERY value return: an arm that returns the
    # unscaled angles (typically the multi-valued arm) answers in radians whatever was asked for
    scale = set()
    for n in own_walk(f.node):
        if isinstance(n, ast.If) and _is_deg_test(n.test):
            for st in n.body:
                if isinstance(st, ast.Assign) and isinstance(st.targets[0], ast.Name) and '180' in ast.unparse(st.value) and 'pi' in ast.unparse(st.value):
                    other = [s2 for s2 in n.orelse if isinstance(s2, ast.Assign) and isinstance(s2.targets[0], ast.Name) and s2.targets[0].id == st.targets[0].id]
                    if other:
                        scale.add(st.targets[0].id)
    if scale:
        from .r16_tables import Ctx, sl_eval
        cx = Ctx(run, f.key)
        for (r, e) in sl_eval(cx, keep=tuple(scale)):
            names = {y.id for y in ast.walk(e) if isinstance(y, ast.Name)}
            if isinstance(e, ast.Constant):
                continue
            if names & scale:
                run.holds(rule, f.key, 'deg scaling of ' + src(r.value, 40), 'the returned value carries the unit factor %s' % '/'.join(sorted(scale)), f=f, node=r)
            else:
                ok = False
                run.violation(rule, f.key, 'deg scaling of ' + src(r.value, 40), 'this return does not carry the unit factor %s: the angles come back in radians although '
                              "%s == 'deg' was asked for (degrees are not radians times 180/pi on this path)" % ('/'.join(sorted(scale)), up), f=f, node=r)
                return
    if ok:
        run.holds(rule, f.key, 'deg scaling', "result is multiplied by 180/pi exactly under %s == 'deg'" % up, f=f)
    else:
        run.violation(rule, f.key, 'deg scaling', "no `if %s == 'deg': <result> *= 180/pi`: results in degrees are not "
                      "radians times 180/pi" % up, f=f)


def order_names(f):
    """String literals the `order` parameter is compared with, and whether the chain ends in raise."""
    names = set()
    chain_ok = None
    for n in own_walk(f.node):
        if isinstance(n, ast.If):
            arms, els = if_chain(n)
            lits = []
            for (t, b) in arms:
                for c in ast.walk(t):
                    if isinstance(c, ast.Compare) and isinstance(c.left, ast.Name) and c.left.id == 'order':
                        for cc in c.comparators:
                            if isinstance(cc, ast.Constant) and isinstance(cc.value, str):
                                lits.append(cc.value)
                            elif isinstance(cc, (ast.Tuple, ast.List)):
                                lits += [e.value for e in cc.elts if isinstance(e, ast.Constant)]
            if lits and len(arms) >= 2:
                names |= set(lits)
                chain_ok = els is not None and ends_in_raise(els)
    return names, chain_ok


def check_order_tables(run, rule='R10o'):
    prog = run.prog
    a = prog.func('base/transforms3d:rpy2r')
    b = prog.func('base/transforms3d:tr2rpy')
    na, ca = order_names(a)
    nb, cb = order_names(b)
    for f, names, ok in ((a, na, ca), (b, nb, cb)):
        if not names:
            run.error('R10o: no order chain recognised in %s' % f.key)
            continue
        if ok:
            run.holds(rule, f.key, 'order chain ends in raise', 'unknown order names are rejected (%s accepted)' % ', '.join(sorted(names)), f=f)
        else:
            run.violation(rule, f.key, 'order chain ends in raise', 'the if/elif chain over order has no final `else: raise`: an '
                          'unknown axis order is silently accepted', f=f)
    if na and nb:
        if na == nb:
            run.holds(rule, 'rpy2r/tr2rpy', 'order name sets agree', 'both accept %s' % ', '.join(sorted(na)))
        else:
            run.violation(rule, 'rpy2r/tr2rpy', 'order name sets agree', 'rpy2r accepts %s but tr2rpy accepts %s' %
                          (sorted(na), sorted(nb)), f=b)
    g = prog.func('base/argcheck:getunit')
    # every value-returning path of getunit has established unit == 'rad' or unit == 'deg' (so an unknown unit cannot produce a value;
    # that it does not fall off the end either is R2): decided on the must-facts, whatever the shape of the chain
    gcfg = CFG(g.node)
    gfacts = must_facts(gcfg)
    reach = gcfg.reachable()
    up = [p for p in g.params if p in ('unit', 'units')]
    rets = [r for r in own_walk(g.node) if isinstance(r, ast.Return) and r.value is not None and gcfg.node_of(r) is not None and gcfg.node_of(r).id in reach]
    bad = []
    for r in rets:
        fs = gfacts.get(gcfg.node_of(r).id, frozenset())
        ok = any(fc[1] and up and (matches('%s == "rad"' % up[0], fc[2].ast) is not None or matches('%s == "deg"' % up[0], fc[2].ast) is not None) for fc in fs)
        if not ok:
            bad.append(r)
    if not rets or not up:
        run.error('R10o: getunit: no value return / unit parameter found')
    elif bad:
        run.violation(rule, g.key, 'unit chain ends in raise', 'getunit returns a value on a path where the unit is neither tested to be "rad" nor '
                      '"deg": an unknown unit is silently accepted', f=g, node=bad[0])
    else:
        run.holds(rule, g.key, 'unit chain ends in raise', 'every value path has established the unit to be rad or deg: unknown input unit rejected', f=g)


def run_r10(run, funcs, rule='R10'):
    na = 0
    for f in funcs:
        if f.module.short in ('base/animate', 'timing', 'stdlib/collections'):
            continue
        if f.name in ('trplot', 'trplot2', 'tranimate', 'tranimate2', 'trprint', 'trprint2', 'qprint', 'plot', 'animate'):
            continue
        if f.key in TRUSTED_ROOTS:
            continue
        na += check_array_like(run, f)
        check_scalar_iteration(run, f)
        check_option_used(run, f)
        check_unit_typestate(run, f)
    return na


# --------------------------------------------------------------------------- R10r: self-application forwards the options
def check_recursion_options(run, funcs, rule='R10r'):
    """A function/method that applies ITSELF to parts of its argument (per column, per element) must pass every option
    parameter on; otherwise the caller's tolerance / unit / order applies to the scalar case only."""
    n = 0
    for f in funcs:
        opts = [p for p in f.defaults() if p != f.selfname]
        if not opts:
            continue
        pos = list(f.params)
        # calls that sit in the element expression of a comprehension / the body of a for loop over (part of) a parameter
        per_part = set()
        for x in own_walk(f.node):
            if isinstance(x, (ast.ListComp, ast.GeneratorExp)):
                its, bodies = [g.iter for g in x.generators], [x.elt]
            elif isinstance(x, ast.For):
                its, bodies = [x.iter], x.body
            else:
                continue
            if any(isinstance(y, ast.Name) and y.id in f.params for it in its for y in ast.walk(it)):
                for b in bodies:
                    for y in ast.walk(b):
                        per_part.add(id(y))
        for c in own_walk(f.node):
            if not isinstance(c, ast.Call) or id(c) not in per_part:
                continue
            fn = c.func
            selfcall = False
            if f.cls is not None and isinstance(fn, ast.Attribute) and fn.attr == f.name and isinstance(fn.value, ast.Name):
                selfcall = fn.value.id == f.selfname
            elif f.cls is None and f.parent is None and isinstance(fn, ast.Name) and fn.id == f.name:
                selfcall = True
            if not selfcall:
                continue
            if any(isinstance(a, ast.Starred) for a in c.args) or any(k.arg is None for k in c.keywords):
                continue
            n += 1
            given = {k.arg for k in c.keywords}
            offset = 1 if f.cls is not None and f.selfname else 0
            for i, a in enumerate(c.args):
                if i + offset < len(pos):
                    given.add(pos[i + offset])
            missing = [p for p in opts if p not in given]
            # only options that the body actually reads matter
            used = {y.id for y in own_walk(f.node) if isinstance(y, ast.Name) and isinstance(y.ctx, ast.Load)}
            missing = [p for p in missing if p in used]
            construct = 'self-application ' + src(c, 50)
            if missing:
                run.violation(rule, f.key, construct, '%s applies itself to a part of its argument without passing %s on: the parts are '
                              'processed with the default instead of the caller\'s value' % (f.name, ', '.join('%s=%s' % (p, p) for p in missing)), f=f, node=c)
            else:
                run.holds(rule, f.key, construct, 'every option (%s) is passed on' % ', '.join(opts), f=f, node=c)
    return n


# --------------------------------------------------------------------------- R10l: unconstrained length -> broadcasting store
def check_broadcast_stores(run, funcs, rule='R10l'):
    """A vector normalised by getvector WITHOUT a dimension (any length accepted) that is written into a slice of a
    fixed-size array must be dominated by a test of its length (len / .shape / .size in a comparison, either polarity,
    whose failing edge raises): numpy broadcasts a length-1 vector over the slice, so [5] silently becomes [5, 5, 5]."""
    n = 0
    for f in funcs:
        fi = FuncInfo.of(f)
        free = {}
        for st in own_walk(f.node):
            if isinstance(st, ast.Assign) and len(st.targets) == 1 and isinstance(st.targets[0], ast.Name) and isinstance(st.value, ast.Call):
                c = canon(fi, st.value, inline=False)
                if isinstance(c, ast.Call) and isinstance(c.func, ast.Name) and c.func.id == 'getvector':
                    dim = c.args[1] if len(c.args) > 1 else None
                    for k in c.keywords:
                        if k.arg == 'dim':
                            dim = k.value
                    if dim is None or (isinstance(dim, ast.Constant) and dim.value is None):
                        free[st.targets[0].id] = st
        if not free:
            continue
        cfg = CFG(f.node)
        facts = must_facts(cfg)
        reach = cfg.reachable()
        for node in cfg.nodes:
            a = node.ast
            if node.id not in reach or node.kind != 'stmt' or not isinstance(a, ast.Assign):
                continue
            for t in a.targets:
                if not (isinstance(t, ast.Subscript) and isinstance(a.value, ast.Name) and a.value.id in free):
                    continue
                if not any(isinstance(x, ast.Slice) for x in ast.walk(t.slice)):
                    continue
                v = a.value.id
                n += 1
                fs = facts.get(node.id, frozenset())
                tested = False
                for fc in fs:
                    e = fc[2].ast
                    if isinstance(e, ast.Compare):
                        txt = ast.unparse(e)
                        if ('%s.shape' % v) in txt or ('len(%s)' % v) in txt or ('%s.size' % v) in txt:
                            tested = True
                    elif isinstance(e, ast.Call) and ast.unparse(e.func).endswith('isvector') and e.args and \
                            isinstance(e.args[0], ast.Name) and e.args[0].id == v and len(e.args) > 1:
                        tested = True
                construct = 'store %s <- %s' % (src(t, 30), v)
                if tested:
                    run.holds(rule, f.key, construct, 'the length of %s is tested on every path to the store' % v, f=f, node=a)
                else:
                    run.violation(rule, f.key, construct, '%s = getvector(..) accepts any length and is written into the slice %s with no test '
                                  'of its length on the way: a 1-element vector (or scalar) is broadcast over the slice instead of being '
                                  'rejected' % (v, src(t, 30)), f=f, node=a)
    return n


def check_none_default_tests(run, funcs, rule='R10n'):
    """A parameter whose default is None is "not given" exactly when it IS None.  Testing its truth value instead (`if not theta:`,
    `if theta:`, `theta or 1`) also treats 0, 0.0 and an empty sequence as "not given" -- and raises for an array of several
    elements.  For a parameter documented as a number / angle / array_like that is a wrong answer for the valid argument 0."""
    n = 0
    for f in funcs:
        dfl = f.defaults()
        cand = [p for p, d in dfl.items() if isinstance(d, ast.Constant) and d.value is None and p != f.selfname]
        if not cand:
            continue
        ty = doc_types(f)
        cand = [p for p in cand if re.search(r'float|int\b|scalar|array|ndarray|vector|angle|number', ty.get(p, '') or '') or not ty.get(p)]
        if not cand:
            continue
        # the first rebinding of each name: a test before it (in source order) sees the argument itself
        stored = {}
        for x in own_walk(f.node):
            if isinstance(x, ast.Name) and isinstance(x.ctx, ast.Store):
                stored[x.id] = min(stored.get(x.id, 10 ** 9), x.lineno)
        flagged = set()

        def truth_uses(test):
            """bare names used for their truth value in a test expression"""
            out = []
            if isinstance(test, ast.Name):
                out.append(test)
            elif isinstance(test, ast.UnaryOp) and isinstance(test.op, ast.Not):
                out += truth_uses(test.operand)
            elif isinstance(test, ast.BoolOp):
                for v in test.values:
                    out += truth_uses(v)
            return out
        for st in own_walk(f.node):
            tests = []
            if isinstance(st, (ast.If, ast.While, ast.IfExp, ast.Assert)):
                tests.append(st.test)
            elif isinstance(st, ast.BoolOp) and isinstance(st.op, ast.Or):
                tests += st.values[:-1]          # `p or default`
            for t in tests:
                for nmn in truth_uses(t):
                    if nmn.id in cand and getattr(t, 'lineno', 0) <= stored.get(nmn.id, 10 ** 9):
                        n += 1
                        flagged.add(nmn.id)
                        run.violation(rule, f.key, 'truth test of %s' % nmn.id, 'parameter %s defaults to None but is tested for truth (%s): the valid '
                                      'argument 0 (or an empty sequence) is treated as "not given", and an array of several elements has no truth '
                                      'value; the test must be `%s is None`' % (nmn.id, src(t, 40), nmn.id), f=f, node=t)
        for p in cand:
            n += 1
            if p not in flagged:
                run.holds(rule, f.key, 'default None of %s' % p, 'never tested for truth, only against None', f=f, nontrivial=False)
    return n


# ---------------------------------------------------------------------------------------------------------------- R10c
def check_sibling_options(run, f, rule='R10c'):
    """Sibling calls agree on the options they forward.  If a function forwards its own option parameter p to a callee g as
    g(..., p=p) at one call site, every other call of the same callee g in the function forwards p as well: the call sites are the
    arms of one case split (one value / many values, vector / matrix / list argument), and an arm that drops the option answers in
    the callee's default (radians, zyx, no flip, checked) whatever the caller asked for -- the forms stop being interchangeable.
    Only call sites in different arms of one if/else (or conditional expression) are siblings: two calls on one path are two
    different uses (a tolerance applied to the whole vector and not to a part of it is a choice, not an omission)."""
    fi = FuncInfo.of(f)
    arms = {}

    def walk(n, chain):
        for fld, val in ast.iter_fields(n):
            vals = val if isinstance(val, list) else [val]
            for c in vals:
                if not isinstance(c, ast.AST):
                    continue
                if isinstance(c, (ast.FunctionDef, ast.AsyncFunctionDef, ast.ClassDef)) and c is not f.node:
                    continue
                ch = chain
                if isinstance(n, (ast.If, ast.IfExp)) and fld in ('body', 'orelse'):
                    ch = chain + ((id(n), fld),)
                if isinstance(c, ast.Call):
                    arms[id(c)] = ch
                walk(c, ch)
    walk(f.node, ())

    def exclusive(a, b):
        ca, cb = dict(arms.get(id(a), ())), dict(arms.get(id(b), ()))
        return any(k in cb and cb[k] != v for k, v in ca.items())
    # options that change the answer for VALID input; check / tol only move the boundary of what is rejected, and an arm that
    # validates although the caller waived it still computes the same value
    opts = [p for p in f.allparams if p in OPTION_NAMES and p != f.selfname and p not in ('check', 'tol', 't')]
    if not opts:
        return 0
    calls = {}
    for x in own_walk(f.node):
        if isinstance(x, ast.Call):
            nm = cname(fi, x)
            if not nm:
                continue
            calls.setdefault(nm, []).append(x)
    n = 0
    for nm, cs in calls.items():
        if len(cs) < 2:
            continue
        for p in opts:
            def fwd(c):
                return any(k.arg == p and isinstance(k.value, ast.Name) and k.value.id == p for k in c.keywords) or \
                    any(k.arg is None for k in c.keywords)
            def mentions(c):
                return any(k.arg == p for k in c.keywords) or any(isinstance(a, ast.Name) and a.id == p for a in c.args)
            yes = [c for c in cs if fwd(c)]
            no = [c for c in cs if not fwd(c) and not mentions(c) and any(exclusive(c, y) for y in yes)]
            if not yes:
                continue
            n += 1
            if no:
                c = no[0]
                run.violation(rule, f.key, '%s(.., %s=%s) at every call' % (nm.split('.')[-1], p, p),
                              'option %r is forwarded to %s at line %d but not in the sibling call %s: that arm answers in the callee\'s '
                              'default whatever the caller asked for' % (p, nm.split('.')[-1], yes[0].lineno, src(c, 60)), f=f, node=c)
            else:
                run.holds(rule, f.key, '%s(.., %s=%s) at every call' % (nm.split('.')[-1], p, p),
                          '%d sibling calls all forward the option' % len(yes), f=f)
    return n


# ---------------------------------------------------------------------------------------------------------------- R10m
def check_none_belief(run, funcs, rule='R10m'):
    """Contradiction rule.  A function that tests a None-default parameter p against None on some path believes that p can be
    None.  Then a use of the argument p as a NUMBER or VECTOR -- an element of a list/tuple display, an operand of arithmetic, a
    subscripted value -- needs the fact `p is not None` on every path to it (a dominating test, in whatever spelling, or the
    failed `p is None` with an exit).  Passing p on as an argument is not such a use (the callee may accept None)."""
    n = 0
    for f in funcs:
        dfl = f.defaults()
        cand = [p for p, d in dfl.items() if isinstance(d, ast.Constant) and d.value is None and p != f.selfname]
        if not cand:
            continue
        tested = set()
        for x in own_walk(f.node):
            if isinstance(x, ast.Compare) and len(x.ops) == 1 and isinstance(x.ops[0], (ast.Is, ast.IsNot)) and isinstance(x.left, ast.Name) \
                    and x.left.id in cand and isinstance(x.comparators[0], ast.Constant) and x.comparators[0].value is None:
                tested.add(x.left.id)
        if not tested:
            continue
        cfg = CFG(f.node)
        IN, OUT = reaching_defs(cfg, f.allparams)
        facts = must_facts(cfg)
        reach = cfg.reachable()
        par = _parents(f.node)
        for p in sorted(tested):
            bad = None
            uses = 0
            for node in cfg.nodes:
                if node.id not in reach or (p, cfg.entry.id) not in IN.get(node.id, frozenset()):
                    continue
                # only the argument itself: every reaching definition is the entry
                if any(nm == p and d != cfg.entry.id for (nm, d) in IN.get(node.id, ())):
                    continue
                for h in header_expr(node):
                    if h is None:
                        continue
                    for x in ast.walk(h):
                        if not (isinstance(x, ast.Name) and x.id == p and isinstance(x.ctx, ast.Load)):
                            continue
                        pr = par.get(id(x))
                        numeric = isinstance(pr, (ast.List, ast.Tuple)) and isinstance(getattr(pr, 'ctx', None), ast.Load) or \
                            isinstance(pr, ast.BinOp) or (isinstance(pr, ast.Subscript) and pr.value is x) or isinstance(pr, ast.UnaryOp) and isinstance(pr.op, ast.USub)
                        if not numeric:
                            continue
                        # short-circuit: `p is not None and ... p ...` inside one expression
                        anc, child, sc = pr, x, False
                        while anc is not None and not isinstance(anc, ast.stmt):
                            if isinstance(anc, ast.BoolOp) and isinstance(anc.op, ast.And):
                                idx = [i for i, v in enumerate(anc.values) if any(y is child for y in ast.walk(v))]
                                if idx and any(ast.unparse(v) in ('%s is not None' % p,) for v in anc.values[:idx[0]]):
                                    sc = True
                            if isinstance(anc, ast.IfExp) and any(y is child for y in ast.walk(anc.body)) and ast.unparse(anc.test) == '%s is not None' % p:
                                sc = True
                            if isinstance(anc, ast.IfExp) and any(y is child for y in ast.walk(anc.orelse)) and ast.unparse(anc.test) == '%s is None' % p:
                                sc = True
                            child, anc = anc, par.get(id(anc))
                        if sc:
                            uses += 1
                            continue
                        uses += 1
                        fs = facts.get(node.id, frozenset())
                        known = False
                        for fc in fs:
                            t, pol = fc[2].ast, fc[1]
                            if isinstance(t, ast.Compare) and len(t.ops) == 1 and isinstance(t.left, ast.Name) and t.left.id == p and \
                                    isinstance(t.comparators[0], ast.Constant) and t.comparators[0].value is None:
                                if isinstance(t.ops[0], ast.IsNot) and pol or isinstance(t.ops[0], ast.Is) and not pol:
                                    known = True
                            # isscalar(p) / isvector(p, ..) / len(p) facts: p is a value
                            if pol and isinstance(t, ast.Call) and t.args and isinstance(t.args[0], ast.Name) and t.args[0].id == p:
                                known = True
                            if pol and any(isinstance(y, ast.Call) and isinstance(y.func, ast.Name) and y.func.id == 'len' and y.args and
                                           isinstance(y.args[0], ast.Name) and y.args[0].id == p for y in ast.walk(t)) and not isinstance(t, ast.BoolOp):
                                known = True          # len(p) == k holds: p is a sequence
                        if not known and bad is None:
                            bad = (x, pr)
            if not uses:
                continue
            n += 1
            if bad is not None:
                x, pr = bad
                run.violation(rule, f.key, 'None-default %s used as a value' % p, 'parameter %s defaults to None and is tested against None elsewhere in %s, '
                              'but it is used as a number/vector in %s on a path where nothing has established `%s is not None`: a caller who leaves it out '
                              'gets a None inside the value (or a TypeError) instead of the documented behaviour' % (p, f.name, src(pr, 50), p), f=f, node=x)
            else:
                run.holds(rule, f.key, 'None-default %s used as a value' % p, 'every use as a number/vector is under `%s is not None`' % p, f=f)
    return n


# ---------------------------------------------------------------------------------------------------------------- R10g
def check_getvector_contract(run, rule='R10g'):
    """The normaliser root itself.  Every other rule takes `getvector` as the point where list, tuple, 1-D, row and column forms
    become ONE value; that needs three things of its body:
    (dtype)  an array or sequence result is converted with the dtype the CALLER asked for (parameter `dtype`, default float64):
             every definition of the conversion dtype that reaches `.astype(dt)` / `np.array(v, dtype=dt)` is `dt = dtype`, or is
             made under a symbol / object-dtype test.  Keeping the argument's own dtype makes an int array wrap and a float32
             array lose nine digits where the equal list is computed in float64;
    (default) the default of `dtype` is float64;
    (length) when `dim` is given, every value return lies behind the length test of its container arm: a return placed before
             it answers a vector of the wrong length instead of rejecting it."""
    f = run.prog.func('base/argcheck:getvector')
    fi = FuncInfo.of(f)
    cfg = CFG(f.node)
    facts = must_facts(cfg)
    IN, OUT = reaching_defs(cfg, f.allparams)
    reach = cfg.reachable()
    n = 0
    # (default)
    d = f.defaults().get('dtype')
    dn = cname(fi, d) if isinstance(d, (ast.Attribute, ast.Name)) else None
    n += 1
    if 'dtype' not in f.allparams:
        run.error('R10g: getvector has no dtype parameter (anchor not found in the current source)', hard=True)
    elif dn in ('numpy.float64', 'float', 'numpy.float_', 'numpy.double') or (isinstance(d, ast.Name) and d.id == 'float'):
        run.holds(rule, f.key, 'default of dtype', 'the default conversion dtype is float64', f=f)
    else:
        run.violation(rule, f.key, 'default of dtype', 'the default of dtype is %s, not float64: integer and single-precision arrays are no longer brought to '
                      'the type the equal list is computed in' % (ast.unparse(d) if d is not None else None), f=f)
    # (dtype)
    for node in cfg.nodes:
        if node.id not in reach:
            continue
        for h in header_expr(node):
            if h is None:
                continue
            for x in ast.walk(h):
                dt = None
                if isinstance(x, ast.Call) and isinstance(x.func, ast.Attribute) and x.func.attr == 'astype' and x.args:
                    dt = x.args[0]
                elif isinstance(x, ast.Call) and cname(fi, x) in ('numpy.array', 'numpy.asarray') and kwarg(x, 'dtype') is not None:
                    dt = kwarg(x, 'dtype')
                if dt is None:
                    # an array built from the argument without any dtype (np.array(v)) takes the type of the elements: a list of ints gives an
                    # int array where the equal float list gives float64
                    if isinstance(x, ast.Call) and cname(fi, x) in ('numpy.array', 'numpy.asarray') and x.args and isinstance(x.args[0], ast.Name) \
                            and x.args[0].id == f.params[0] and isinstance(node.ast, ast.Return):
                        n += 1
                        run.violation(rule, f.key, 'conversion dtype of ' + src(x, 40), 'the argument is converted without a dtype: the result has the type of the '
                                      'elements (a list of ints gives an int array) instead of the dtype the caller asked for', f=f, node=x)
                    continue
                n += 1
                construct = 'conversion dtype of ' + src(x, 40)
                if isinstance(dt, ast.Name) and dt.id == 'dtype':
                    run.holds(rule, f.key, construct, 'the dtype parameter itself', f=f, node=x)
                    continue
                if not isinstance(dt, ast.Name):
                    run.undecided(rule, f.key, construct, 'conversion dtype is not a name', f=f, node=x)
                    continue
                bad = None
                for (nm, dnode) in IN.get(node.id, ()):
                    if nm != dt.id or dnode == cfg.entry.id:
                        continue
                    a = cfg.nodes[dnode].ast
                    val = a.value if isinstance(a, ast.Assign) else None
                    if isinstance(val, ast.Name) and val.id == 'dtype':
                        continue
                    if val is not None and (cname(fi, val) in ('numpy.float64', 'numpy.float_', 'numpy.double') or (isinstance(val, ast.Name) and val.id == 'float')):
                        continue          # float64 spelt out
                    under_sym = any(fc[1] and any(k in ast.unparse(fc[2].ast) for k in ("dtype.kind == 'O'", "dtype == 'O'", 'dtype == object', 'issymbol('))
                                    for fc in facts.get(dnode, frozenset()))
                    if under_sym:
                        continue
                    bad = a
                if bad is None:
                    run.holds(rule, f.key, construct, 'every definition of %s is the dtype parameter or is made under a symbol test' % dt.id, f=f, node=x)
                else:
                    run.violation(rule, f.key, construct, 'the conversion dtype %s can be %s here (not the dtype parameter, not under a symbol test): the argument keeps '
                                  'a type of its own -- an integer array is then computed in wrapping integer arithmetic and a float32 array to seven digits, '
                                  'while the equal list is computed in float64' % (dt.id, src(bad.value, 30) if isinstance(bad, ast.Assign) else '?'), f=f, node=x)
    # (conversion) an array / row / col result passes through a conversion (astype / np.array(.., dtype=)): returning the flattened
    # argument itself keeps the caller's dtype.  Unconverted returns are the 'sequence' / 'list' outputs only.
    for node in cfg.nodes:
        if node.id not in reach or not isinstance(node.ast, ast.Return) or node.ast.value is None:
            continue
        rv = node.ast.value
        txt = ast.unparse(rv)
        if 'astype(' in txt or 'dtype=' in txt or isinstance(rv, ast.Constant):
            continue
        if isinstance(rv, ast.Call) and isinstance(rv.func, ast.Name) and rv.func.id == 'list':
            continue
        fs = facts.get(node.id, frozenset())
        seq = any(fc[1] and any(k in ast.unparse(fc[2].ast) for k in ("out == 'sequence'", "out == 'list'", "out in ('sequence', 'list')", "out in ('list', 'sequence')")) for fc in fs)
        n += 1
        if seq:
            run.holds(rule, f.key, 'conversion of ' + src(rv, 40), "unconverted only for the 'sequence' / 'list' outputs", f=f, node=node.ast)
        else:
            run.violation(rule, f.key, 'conversion of ' + src(rv, 40), "an 'array' / 'row' / 'col' result is returned without a conversion to the requested dtype "
                          '(astype / np.array(.., dtype=)): the result keeps the dtype of the argument -- uint8 wraps, float32 has seven digits -- where the '
                          'equal list is converted to float64', f=f, node=node.ast)
    # (length)
    def walk(stmts, seen):
        nonlocal n
        seen = list(seen)
        for st in stmts:
            if isinstance(st, ast.If):
                has_ret = any(isinstance(y, ast.Return) for y in ast.walk(st))
                if not has_ret:
                    seen.append(st.test)           # a guard (raises or only assigns): its test has been evaluated on the way
                    for y in ast.walk(st):
                        if isinstance(y, ast.If):
                            seen.append(y.test)
                    continue
                walk(st.body, seen + [st.test])
                walk(st.orelse, seen + [st.test])
                seen.append(st.test)
            elif isinstance(st, ast.Return) and st.value is not None:
                n += 1
                construct = 'length test before ' + src(st, 40)
                if any(any(isinstance(y, ast.Name) and y.id == 'dim' for y in ast.walk(t)) and
                       any(isinstance(y, ast.Call) and isinstance(y.func, ast.Name) and y.func.id == 'len' or isinstance(y, ast.Attribute) and y.attr == 'shape' or
                           isinstance(y, ast.Name) and y.id in ('s',) for y in ast.walk(t)) for t in seen):
                    run.holds(rule, f.key, construct, 'behind the length test of its arm', f=f, node=st)
                else:
                    run.violation(rule, f.key, construct, 'this value return is reached without the length of the argument having been compared with dim: '
                                  'a vector of the wrong length in this form is answered instead of rejected', f=f, node=st)
            elif isinstance(st, (ast.For, ast.While, ast.With, ast.Try)):
                walk(getattr(st, 'body', []), seen)
    walk(body_nodoc(f.node), [])
    if n < 10:
        run.error('R10g: only %d instances recognised in getvector (expected >= 10)' % n)
    return n


def check_getunit_contract(run, rule='R10g'):
    """getunit(v, unit): v itself under 'rad'; every element of v times pi/180 under 'deg' (the scalar / array product, or a
    comprehension over ALL of v); any other unit raises."""
    from .r16_tables import Ctx, sl_eval
    from ..terms import Normaliser, parse_expr, Unrecognised
    f = run.prog.func('base/argcheck:getunit')
    cx = Ctx(run, f.key)
    v, u = f.params[0], f.params[1]
    nm = Normaliser()
    want = nm.poly(parse_expr('%s * pi / 180' % v))
    n = 0
    for (r, e, conds) in sl_eval(cx, with_conds=True):
        unit = None
        for (ce, pol) in conds:
            for lit in ('rad', 'deg'):
                if matches("%s == '%s'" % (u, lit), ce) is not None and pol:
                    unit = lit
        n += 1
        construct = 'getunit under %s: %s' % (unit, src(r.value, 40))
        if unit == 'rad':
            if isinstance(e, ast.Name) and e.id == v:
                run.holds(rule, f.key, construct, 'radians are returned as given', f=f, node=r)
            else:
                run.violation(rule, f.key, construct, "under unit == 'rad' the value returned is %s, not the argument itself" % src(e, 40), f=f, node=r)
        elif unit == 'deg':
            ok = False
            try:
                if isinstance(e, ast.ListComp) and len(e.generators) == 1 and isinstance(e.generators[0].target, ast.Name):
                    g = e.generators[0]
                    x = g.target.id
                    if isinstance(g.iter, ast.Name) and g.iter.id == v and not g.ifs:
                        ok = nm.poly(e.elt) == nm.poly(parse_expr('%s * pi / 180' % x))
                    else:
                        run.violation(rule, f.key, construct, 'the comprehension ranges over %s, not over all of %s: some angles are dropped or not converted' % (src(g.iter, 30), v), f=f, node=r)
                        continue
                elif matches('radians(%s)' % v, e) is not None or matches('deg2rad(%s)' % v, e) is not None:
                    ok = True
                else:
                    ok = nm.poly(e) == want
            except Unrecognised:
                run.error('R10g: getunit: unrecognised conversion %s' % src(e, 40))
                continue
            if ok:
                run.holds(rule, f.key, construct, 'every element times pi/180', f=f, node=r)
            else:
                run.violation(rule, f.key, construct, "under unit == 'deg' the value returned is %s, not the argument times pi/180" % src(e, 50), f=f, node=r)
        else:
            run.violation(rule, f.key, construct, 'a value is returned for a unit that is neither rad nor deg: an unknown unit must raise', f=f, node=r)
    if n < 3:
        run.error('R10g: getunit: fewer than 3 value returns evaluated')
    return n


def check_scalartypes(run, rule='R10g'):
    """The table of scalar types that isscalar / isvector / getvector accept contains the Python and the NumPy real scalars:
    int, float, numpy.integer and numpy.floating (np.int64 is not an int, np.float32 is not a float)."""
    mod = None
    for m in run.prog.modules.values() if hasattr(run.prog, 'modules') else []:
        if m.short == 'base/argcheck':
            mod = m
    if mod is None:
        run.error('R10g: module base/argcheck not found', hard=True)
        return
    tbl = None
    for st in mod.tree.body:
        if isinstance(st, ast.Assign) and any(isinstance(t, ast.Name) and t.id == '_scalartypes' for t in st.targets):
            tbl = st
    if tbl is None:
        run.error('R10g: _scalartypes table not found in base/argcheck (anchor not found in the current source)', hard=True)
        return
    modvals = {}
    for st in mod.tree.body:
        if isinstance(st, ast.Assign) and len(st.targets) == 1 and isinstance(st.targets[0], ast.Name):
            modvals[st.targets[0].id] = st.value
    names = set()

    def collect(e, depth=0):
        for y in ast.walk(e):
            if isinstance(y, ast.Name):
                if y.id in modvals and y.id != '_scalartypes' and depth < 4:
                    collect(modvals[y.id], depth + 1)      # a named part of the table (_realtypes + sym.symtype)
                else:
                    names.add(y.id)
            elif isinstance(y, ast.Attribute):
                names.add(y.attr)
    collect(tbl.value)
    need = {'int', 'float', 'integer', 'floating'}
    alt = {'integer': {'number', 'generic', 'Integral', 'Real', 'Number'}, 'floating': {'number', 'generic', 'Real', 'Number'}}
    missing = [k for k in sorted(need) if k not in names and not (alt.get(k, set()) & names)]
    construct = 'scalar type table'
    if missing:
        run.violation(rule, 'base/argcheck:_scalartypes', construct, 'the table of accepted scalar types lacks %s: NumPy scalars of that kind (np.int64 from an arange, '
                      'np.float32) are no longer scalars for isscalar / isvector / getvector, so a NumPy integer angle or factor takes the vector branch or is '
                      'rejected' % ', '.join('numpy.' + k if k in ('integer', 'floating') else k for k in missing), node=tbl)
    else:
        run.holds(rule, 'base/argcheck:_scalartypes', construct, 'int, float, numpy.integer, numpy.floating are accepted', node=tbl)


def check_unit_only_converts(run, funcs, rule='R10v'):
    """In a function that converts its angle argument with getunit(x, unit), the unit option has done its work there: radians and
    degrees describe the same angle, so nothing else may depend on it.  A branch whose test reads `unit` (directly or through a
    local computed from it) and whose arms compute or assign anything makes the result for unit='deg' differ from the result for
    the converted radians in more than the conversion.  Allowed: passing unit on to a callee, raising for an unknown unit,
    arms that only print or warn."""
    n = 0
    for f in funcs:
        us = [p for p in f.allparams if p in ('unit', 'units')]
        if not us:
            continue
        u = us[0]
        fi = FuncInfo.of(f)
        has_conv = False
        for c in own_walk(f.node):
            if isinstance(c, ast.Call) and getattr(c.func, 'attr', getattr(c.func, 'id', None)) == 'getunit' and \
                    any(isinstance(y, ast.Name) and y.id == u for a in list(c.args) + [k.value for k in c.keywords] for y in ast.walk(a)):
                has_conv = True
        if not has_conv:
            continue
        tainted = {u}
        for _ in range(3):
            for st in own_walk(f.node):
                if isinstance(st, ast.Assign) and len(st.targets) == 1 and isinstance(st.targets[0], ast.Name):
                    if any(isinstance(y, ast.Call) for y in ast.walk(st.value)) and any(
                            isinstance(y, ast.Call) and getattr(y.func, 'attr', getattr(y.func, 'id', None)) not in ('isscalar', 'issymbol', 'isinstance', 'len')
                            for y in ast.walk(st.value)):
                        continue        # a computed value (the conversion itself, a callee given unit=unit) is not a unit flag
                    if any(isinstance(y, ast.Name) and y.id in tainted for y in ast.walk(st.value)) and \
                            isinstance(st.value, (ast.Compare, ast.BoolOp, ast.Name, ast.UnaryOp)):
                        tainted.add(st.targets[0].id)
        for st in own_walk(f.node):
            if not isinstance(st, (ast.If, ast.IfExp)):
                continue
            if not any(isinstance(y, ast.Name) and y.id in tainted for y in ast.walk(st.test)):
                continue
            n += 1
            construct = 'branch on the unit: ' + src(st.test, 50)
            if isinstance(st, ast.If):
                arms = list(st.body) + list(st.orelse)
                harmless = all(isinstance(b, ast.Raise) or (isinstance(b, ast.Expr) and isinstance(b.value, ast.Call) and
                                                            getattr(b.value.func, 'id', getattr(b.value.func, 'attr', None)) in ('print', 'warn', 'warning'))
                               or isinstance(b, ast.Pass) for b in arms)
            else:
                harmless = False
            if harmless:
                run.holds(rule, f.key, construct, 'the arms only report or reject: no value depends on the unit after the conversion', f=f, node=st, nontrivial=False)
            else:
                run.violation(rule, f.key, construct, 'the angle is converted by getunit, yet a later branch on %s computes something: the result for '
                              "unit='deg' differs from the result for the same angle in radians in more than the conversion" %
                              '/'.join(sorted(tainted & {y.id for y in ast.walk(st.test) if isinstance(y, ast.Name)})), f=f, node=st)
    return n
