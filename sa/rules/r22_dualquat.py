"""R22 -- the unit-dual-quaternion point route, composed in the quaternion algebra.

A rigid motion (R, t) is the unit dual quaternion q = r + eps d with d = 1/2 t r (construction table T27), a point p the
dual quaternion 1 + eps p (T27: Pure).  The point route of `DualQuaternion.__mul__` is evaluated symbolically as a pair
(real, dual) of non-commutative polynomials over the atoms r, r~ (conjugate of r), t, p with the relations
r r~ = r~ r = 1, conj(t) = -t, conj(p) = -p (pure quaternions) and conj(ab) = conj(b) conj(a).  The dual part of the result
must be  r p r~ + t  (rotate, then translate).  The product rule (a + eps b)(c + eps e) = ac + eps(ae + bc) and the
conjugate used by the code are read from the code (`__mul__` is checked against the rule by T27; `conj` is interpreted)."""
import ast
from fractions import Fraction

from ..scope import FuncInfo
from ..callgraph import own_walk
from ..astutil import src, body_nodoc
from ..pattern import canon, matches


class NC:
    """non-commutative polynomial: word (tuple of atoms) -> coefficient, reduced with r R = R r = 1"""

    def __init__(self, t=None):
        self.t = {}
        for w, c in (t or {}).items():
            w = self._red(w)
            self.t[w] = self.t.get(w, 0) + c
        self.t = {w: c for w, c in self.t.items() if c != 0}

    @staticmethod
    def _red(w):
        out = []
        for a in w:
            if out and {out[-1], a} == {'r', 'R'} and out[-1] != a:
                out.pop()
            else:
                out.append(a)
        return tuple(out)

    @staticmethod
    def atom(a):
        return NC({(a,): Fraction(1)})

    @staticmethod
    def const(c):
        return NC({(): Fraction(c)})

    def __add__(self, o):
        d = dict(self.t)
        for w, c in o.t.items():
            d[w] = d.get(w, 0) + c
        return NC(d)

    def __neg__(self):
        return NC({w: -c for w, c in self.t.items()})

    def __sub__(self, o):
        return self + (-o)

    def __mul__(self, o):
        d = {}
        for w1, c1 in self.t.items():
            for w2, c2 in o.t.items():
                w = self._red(w1 + w2)
                d[w] = d.get(w, 0) + c1 * c2
        return NC(d)

    def scale(self, c):
        return NC({w: v * c for w, v in self.t.items()})

    def conj(self):
        d = {}
        for w, c in self.t.items():
            sign = 1
            out = []
            for a in reversed(w):
                if a == 'r':
                    out.append('R')
                elif a == 'R':
                    out.append('r')
                else:
                    out.append(a)
                    sign = -sign            # pure quaternion
            d[tuple(out)] = d.get(tuple(out), 0) + c * sign
        return NC(d)

    def __eq__(self, o):
        return isinstance(o, NC) and self.t == o.t

    def __str__(self):
        if not self.t:
            return '0'
        parts = []
        for w, c in sorted(self.t.items()):
            word = ' '.join({'R': 'r~'}.get(a, a) for a in w) or '1'
            parts.append(('%s*' % c if c not in (1, -1) else ('-' if c == -1 else '')) + word)
        return ' + '.join(parts).replace('+ -', '- ')


class Shape(Exception):
    pass


class DQEval:
    def __init__(self, prog, left_name):
        self.prog = prog
        r, t = NC.atom('r'), NC.atom('t')
        self.env = {left_name: (r, t.scale(Fraction(1, 2)) * r)}
        self.conj_rule = self._read_conj()

    def _read_conj(self):
        """DualQuaternion.conj -> function (real, dual) -> (real', dual') interpreted from its return"""
        f = self.prog.func('DualQuaternion:DualQuaternion.conj')
        fi = FuncInfo.of(f)
        rets = [r for r in own_walk(f.node) if isinstance(r, ast.Return) and r.value is not None]
        if len(rets) != 1:
            raise Shape('DualQuaternion.conj has %d returns' % len(rets))
        e = canon(fi, rets[0].value, inline=False)
        b = matches('DualQuaternion(_A, _B)', e) or matches('self.__class__(_A, _B)', e)
        if b is None:
            raise Shape('DualQuaternion.conj returns ' + src(rets[0].value, 50))
        s = f.selfname

        def rule(val):
            sub = DQEval.__new__(DQEval)
            sub.prog = self.prog
            sub.env = {s: val}
            sub.conj_rule = None
            return (sub.q(b['_A']), sub.q(b['_B']))
        return rule

    # dual-quaternion valued expressions
    def dq(self, e):
        if isinstance(e, ast.Name) and e.id in self.env:
            return self.env[e.id]
        if isinstance(e, ast.BinOp) and isinstance(e.op, ast.Mult):
            a, b = self.dq(e.left), self.dq(e.right)
            return (a[0] * b[0], a[0] * b[1] + a[1] * b[0])
        if isinstance(e, ast.Call):
            if matches('DualQuaternion.Pure(_V)', e) is not None or matches('UnitDualQuaternion.Pure(_V)', e) is not None:
                return (NC.const(1), NC.atom('p'))
            if isinstance(e.func, ast.Attribute) and e.func.attr == 'conj' and not e.args:
                v = self.dq(e.func.value)
                if self.conj_rule is None:
                    raise Shape('nested conj')
                return self.conj_rule(v)
            if isinstance(e.func, ast.Attribute) and not e.args and not e.keywords:
                # a zero-argument helper method of the dual-quaternion classes (a private _point_conj ...): its single return,
                # read like conj, applied to the receiver's value
                g = None
                for cn in ('UnitDualQuaternion', 'DualQuaternion'):
                    c = self.prog.classes.get(cn)
                    if c is not None:
                        k, mem = self.prog.lookup_member(c, e.func.attr)
                        if mem is not None and hasattr(mem, 'node') and getattr(mem, 'selfname', None):
                            g = mem
                            break
                if g is not None and getattr(self, '_depth', 0) < 3:
                    rets = [r for r in own_walk(g.node) if isinstance(r, ast.Return) and r.value is not None]
                    if len(rets) == 1:
                        v = self.dq(e.func.value)
                        sub = DQEval.__new__(DQEval)
                        sub.prog = self.prog
                        sub.env = {g.selfname: v}
                        sub.conj_rule = self.conj_rule
                        sub._depth = getattr(self, '_depth', 0) + 1
                        from ..cfg import pure_locals, _subst_pure
                        return sub.dq(canon(FuncInfo.of(g), _subst_pure(rets[0].value, pure_locals(g.node)), inline=False))
            b = matches('DualQuaternion(_A, _B)', e) or matches('UnitDualQuaternion(_A, _B)', e)
            if b is not None:
                return (self.q(b['_A']), self.q(b['_B']))
        raise Shape('dual-quaternion expression ' + src(e, 50))

    # quaternion valued expressions
    def q(self, e):
        if isinstance(e, ast.Attribute) and e.attr in ('real', 'dual'):
            v = self.dq(e.value)
            return v[0] if e.attr == 'real' else v[1]
        if isinstance(e, ast.UnaryOp) and isinstance(e.op, ast.USub):
            return -self.q(e.operand)
        if isinstance(e, ast.Call) and isinstance(e.func, ast.Attribute) and e.func.attr == 'conj' and not e.args:
            return self.q(e.func.value).conj()
        if isinstance(e, ast.BinOp) and isinstance(e.op, ast.Mult):
            for a, b in ((e.left, e.right), (e.right, e.left)):
                c = a.value if isinstance(a, ast.Constant) else (-a.operand.value if isinstance(a, ast.UnaryOp) and isinstance(a.op, ast.USub)
                                                                 and isinstance(a.operand, ast.Constant) else None)
                if isinstance(c, (int, float)):
                    return self.q(b).scale(Fraction(c).limit_denominator(10**6))
            return self.q(e.left) * self.q(e.right)
        raise Shape('quaternion expression ' + src(e, 50))


def check_point_route(run, rule='R22'):
    prog = run.prog
    f = prog.func('DualQuaternion:DualQuaternion.__mul__')
    fi = FuncInfo.of(f)
    left = f.params[0]
    # the Pure constructor: (identity, pure quaternion of the point)
    g = prog.func('DualQuaternion:DualQuaternion.Pure')
    gi = FuncInfo.of(g)
    okp = any(isinstance(r, ast.Return) and r.value is not None and matches('cls(UnitQuaternion(), Quaternion.Pure(x))', canon(gi, r.value, inline=False)) is not None
              for r in own_walk(g.node))
    (run.holds if okp else run.error)(*((rule, g.key, 'point as dual quaternion', '1 + eps (0, p)') if okp else ('R22: DualQuaternion.Pure is not cls(UnitQuaternion(), Quaternion.Pure(x))',)),
                                      **({'f': g} if okp else {}))
    # locate `vp = <expr>` and `return vp.dual.v` in the vector branch
    defs = {}
    ret = None
    for st in own_walk(f.node):
        if isinstance(st, ast.Assign) and isinstance(st.targets[0], ast.Name):
            defs[st.targets[0].id] = st
        if isinstance(st, ast.Return) and st.value is not None and matches('_X.dual.v', st.value) is not None:
            ret = st
    if ret is None:
        run.error('R22: DualQuaternion.__mul__: no `return <dq>.dual.v` (point route)')
        return
    x = matches('_X.dual.v', ret.value)['_X']
    if isinstance(x, ast.Name) and x.id in defs:
        x = defs[x.id].value
    # named intermediate products (partial = left * Pure(v); vp = partial * conjugate) are put back in place
    from ..cfg import pure_locals, _subst_pure
    x = _subst_pure(x, pure_locals(f.node))
    try:
        ev = DQEval(prog, left)
        real, dual = ev.dq(canon(fi, x, inline=False))
    except Shape as ex:
        run.error('R22: unit dual quaternion point route: unrecognised %s' % ex)
        return
    r, R, t, p = NC.atom('r'), NC.atom('R'), NC.atom('t'), NC.atom('p')
    want = r * p * R + t
    construct = 'point route ' + src(x, 50)
    if dual == want:
        run.holds(rule, f.key, construct, 'dual part composes to r p r~ + t (rotate, then translate); real part %s' % real, f=f, node=ret)
    else:
        run.violation(rule, f.key, construct, 'for q = r + eps (1/2 t r) the dual part of the product composes to [%s], not to [%s]: the point is '
                      '%s' % (dual, want, 'rotated but not translated (the conjugate used cancels the translation: q p q~ needs the conjugate '
                                         'r~ - eps d~)' if dual == r * p * R else 'not mapped to R p + t'), f=f, node=ret)


def check_pose_pair(run, rule='R22'):
    """Construction from an SE3 and the way back, in the same algebra.  The constructor stores (real, dual) built from
    S = UnitQuaternion(T.R) (atom r) and D = Quaternion.Pure(T.t) (atom t); the pair must be (r, 1/2 t r).  SE3() must read the
    translation back as a quaternion expression over (real, dual) that evaluates to t on that pair (2 d r~), and the rotation
    from the real part.  Quaternion products are not commutative: r~ d is r~ t r / 2, the translation rotated back."""
    prog = run.prog
    from ..cfg import pure_locals, _subst_pure
    r, t = NC.atom('r'), NC.atom('t')
    # ---- constructor
    g = prog.func('DualQuaternion:UnitDualQuaternion.__init__')
    gi = FuncInfo.of(g)
    env = pure_locals(g.node)
    stores = {'real': [], 'dual': []}
    for st in own_walk(g.node):
        if isinstance(st, ast.Assign) and len(st.targets) == 1 and isinstance(st.targets[0], ast.Attribute) and st.targets[0].attr in stores \
                and isinstance(st.targets[0].value, ast.Name) and st.targets[0].value.id == g.selfname:
            stores[st.targets[0].attr].append(st)

    class _Ctor(DQEval):
        def __init__(self):
            self.prog = prog
            self.env = {}
            self.conj_rule = None

        def q(self, e):
            e2 = canon(gi, e, inline=False)
            if matches('UnitQuaternion(_T.R)', e2) is not None:
                return r
            if matches('Quaternion.Pure(_T.t)', e2) is not None or matches('pure(_T.t)', e2) is not None:
                return t
            bs = matches('Quaternion.Pure(_K * _T.t)', e2) or matches('Quaternion.Pure(_T.t * _K)', e2)
            if bs is not None and isinstance(bs['_K'], ast.Constant) and isinstance(bs['_K'].value, (int, float)):
                return t.scale(Fraction(bs['_K'].value).limit_denominator(10**6))     # the pure quaternion is linear in the vector
            bs = matches('Quaternion.Pure(_T.t / _K)', e2)
            if bs is not None and isinstance(bs['_K'], ast.Constant) and isinstance(bs['_K'].value, (int, float)) and bs['_K'].value != 0:
                return t.scale(1 / Fraction(bs['_K'].value).limit_denominator(10**6))
            return DQEval.q(self, e)
    ev = _Ctor()
    n_ok = 0
    for part, want in (('real', r), ('dual', t.scale(Fraction(1, 2)) * r)):
        decided = False
        for st in stores[part]:
            x = _subst_pure(st.value, env)
            try:
                got = ev.q(x)
            except Shape:
                continue           # the (real, dual) passthrough arm and the default arm are R13/R22 pair integrity's subject
            decided = True
            if got == want:
                run.holds(rule, g.key, 'from SE3: %s part' % part, '%s = %s over r = UnitQuaternion(T.R), t = Pure(T.t)' % (part, want), f=g, node=st)
                n_ok += 1
            else:
                run.violation(rule, g.key, 'from SE3: %s part' % part, 'the %s part stored for a pose (R, t) is [%s]; the dual quaternion of the motion p -> R p + t, '
                              'which the product and the point route are composed over, has [%s] (quaternion products do not commute: r t / 2 '
                              'is the motion p -> R p + R t)' % (part, got, want), f=g, node=st)
        if not decided:
            run.error('R22: UnitDualQuaternion.__init__: no store of the %s part built from UnitQuaternion(T.R) / Quaternion.Pure(T.t)' % part)
    # ---- SE3()
    f = prog.func('DualQuaternion:UnitDualQuaternion.SE3')
    fi = FuncInfo.of(f)
    envf = pure_locals(f.node)
    rets = [x for x in own_walk(f.node) if isinstance(x, ast.Return) and x.value is not None]
    if len(rets) != 1:
        run.error('R22: UnitDualQuaternion.SE3 has %d returns' % len(rets))
        return
    e = canon(fi, _subst_pure(rets[0].value, envf), inline=False)
    b = matches('SE3(rt2tr(_R, _X.v))', e) or matches('SE3(rt2tr(_R, _X.v), check=False)', e) or matches('SE3.Rt(_R, _X.v)', e)
    if b is None:
        run.error('R22: UnitDualQuaternion.SE3: return %s is not SE3(rt2tr(<rotation>, <quaternion>.v))' % src(rets[0].value, 60))
        return
    okR = any(matches(p_, b['_R']) is not None for p_ in ('q2r(self.real.A)', 'q2r(self.real._A)', 'self.real.R', 'q2r(self.real.vec)'))
    (run.holds if okR else run.violation)(rule, f.key, 'SE3(): rotation', 'rotation matrix of the real part' if okR else
                                          'the rotation is %s, not the rotation matrix of the real part' % src(b['_R'], 40), f=f, node=rets[0])
    try:
        sub = DQEval.__new__(DQEval)
        sub.prog = prog
        sub.env = {f.selfname: (r, t.scale(Fraction(1, 2)) * r)}
        sub.conj_rule = None
        got = sub.q(b['_X'])
    except Shape as ex:
        run.error('R22: UnitDualQuaternion.SE3: unrecognised %s' % ex)
        return
    if got == t:
        run.holds(rule, f.key, 'SE3(): translation', 'on the pair (r, t r / 2) the translation expression evaluates to t', f=f, node=rets[0])
    else:
        run.violation(rule, f.key, 'SE3(): translation', 'on the pair (r, 1/2 t r) of the motion (R, t) the translation read back is [%s], not [t]: '
                      'SE3() returns a different pose than the one the dual quaternion moves points by' % got, f=f, node=rets[0])
