"""C10 rules: the list layer of SMUserList is correct by delegation to list/UserList."""
import ast

from ..model import Function
from ..scope import FuncInfo
from ..cfg import CFG, must_facts
from ..callgraph import own_walk
from ..astutil import src, body_nodoc, is_super_call
from ..pattern import canon, matches, find_all
from .r2_none import own_returns

RULE = 'RL'


def _type_guard_kind(test, s, x):
    """Classify a type test between receiver s and argument x: 'exact' | 'isinstance' | None"""
    for p in ('type(%s) == type(%s)' % (s, x), 'type(%s) is type(%s)' % (s, x), '%s.__class__ is %s.__class__' % (s, x),
              '%s.__class__ == %s.__class__' % (s, x)):
        if matches(p, test) is not None:
            return 'exact'
    for p in ('isinstance(%s, type(%s))' % (x, s), 'isinstance(%s, %s.__class__)' % (x, s)):
        if matches(p, test) is not None:
            return 'isinstance'
    return None


def _has_subclass_with_other_shape(prog):
    """Is there a concrete class with a concrete proper subclass? (then isinstance is weaker than type equality)"""
    pub = set(prog.public_classes())
    pairs = []
    for c in prog.classes.values():
        if c.name in pub:
            for sub in prog.subclasses(c, strict=True):
                if sub.name in pub:
                    pairs.append((c.name, sub.name))
    return pairs


def check_mutator(run, f, argname, mutation_pred, need_single=True):
    """append / insert / __setitem__ / extend"""
    fi = FuncInfo.of(f)
    prog = run.prog
    s = f.selfname
    cfg = CFG(f.node)
    facts = must_facts(cfg)
    reach = cfg.reachable()
    muts = [n for n in cfg.nodes if n.id in reach and n.ast is not None and n.kind == 'stmt' and mutation_pred(n.ast)]
    if not muts:
        run.error('%s: no list mutation statement recognised in %s' % (RULE, f.key))
        return
    for m in muts:
        fs = facts.get(m.id, frozenset())
        tg = None
        for fc in fs:
            k = _type_guard_kind(fc[2].ast, s, argname)
            if k and fc[1]:
                tg = k if tg != 'exact' else tg
        construct = 'type guard before ' + src(m.ast, 50)
        if tg == 'exact':
            run.holds(RULE, f.key, construct, 'type(self) == type(%s) holds on every path to the mutation; the false edge raises' % argname, f=f, node=m.ast)
        elif tg == 'isinstance':
            pairs = _has_subclass_with_other_shape(prog)
            if pairs:
                run.violation(RULE, f.key, construct, 'the class test is isinstance(%s, type(self)), which also admits objects of a '
                              'subclass (%s): an object of a different class is stored instead of raising'
                              % (argname, ', '.join('%s<%s' % (b, a) for a, b in pairs[:4])), f=f, node=m.ast)
            else:
                run.holds(RULE, f.key, construct, 'isinstance test; no concrete class has a concrete subclass', f=f, node=m.ast)
        else:
            run.violation(RULE, f.key, construct, 'no class-equality test on %s dominates the list mutation: an object of a '
                          'different class can be stored / the object is changed before the error is raised' % argname, f=f, node=m.ast)
        if need_single:
            ok = False
            for fc in fs:
                t, pol = fc[2].ast, fc[1]
                if (not pol and (matches('len(%s) > 1' % argname, t) is not None or matches('len(%s) != 1' % argname, t) is not None)) or \
                        (pol and matches('len(%s) == 1' % argname, t) is not None):
                    ok = True
            construct = 'single-value guard before ' + src(m.ast, 50)
            if ok:
                run.holds(RULE, f.key, construct, 'len(%s) == 1 holds on every path to the mutation' % argname, f=f, node=m.ast)
            else:
                run.violation(RULE, f.key, construct, 'no single-value test on %s dominates the list mutation: a multi-valued '
                              'object can be stored as one element' % argname, f=f, node=m.ast)


def _is_super_method_call(st, names):
    return (isinstance(st, ast.Expr) and isinstance(st.value, ast.Call) and isinstance(st.value.func, ast.Attribute)
            and st.value.func.attr in names and (is_super_call(st.value.func.value) or
                                                 (isinstance(st.value.func.value, ast.Attribute) and st.value.func.value.attr == 'data')))


def check_getitem(run, f):
    fi = FuncInfo.of(f)
    s = f.selfname
    i = f.params[1]
    body = body_nodoc(f.node)
    rets = own_returns(f.node)
    # simple delegating form: return self.__class__(self.data[i])   (list slicing does the work)
    if len(rets) == 1 and (matches('%s.__class__(%s.data[%s])' % (s, s, i), rets[0].value) is not None or
                           (f.cls is not None and matches('%s(%s.data[%s])' % (f.cls.name, s, i), rets[0].value) is not None
                            and not run.prog.subclasses(f.cls, strict=True))):
        run.holds(RULE, f.key, 'index/slice', 'delegates both int and slice to list indexing of self.data and wraps in the same class', f=f)
        return
    cfg = CFG(f.node)
    facts = must_facts(cfg)
    n_slice = n_int = 0
    for r in rets:
        node = cfg.node_of(r)
        fs = facts.get(node.id, frozenset()) if node else frozenset()
        is_slice = any(fc[1] and matches('isinstance(%s, slice)' % i, fc[2].ast) is not None for fc in fs)
        not_slice = any((not fc[1]) and matches('isinstance(%s, slice)' % i, fc[2].ast) is not None for fc in fs)
        wrapped = isinstance(r.value, ast.Call) and (src(r.value.func) in ('%s.__class__' % s, 'type(%s)' % s))
        if not wrapped:
            run.violation(RULE, f.key, 'result class of ' + src(r.value, 50), 'indexed result is not wrapped in self.__class__', f=f, node=r)
            continue
        arg = r.value.args[0] if r.value.args else None
        if is_slice:
            n_slice += 1
            # accepted: self.data[i]  |  [self.data[k] for k in range(*i.indices(len(self)))]
            if arg is not None and matches('%s.data[%s]' % (s, i), arg) is not None:
                run.holds(RULE, f.key, 'slice', 'slice delegated to list slicing', f=f, node=r)
                continue
            if arg is not None:
                # locals of the arm are put in place (selected = range(*i.indices(len(self))); [self.data[k] for k in selected])
                from ..cfg import pure_locals, _subst_pure
                arg = _subst_pure(arg, {k: v for k, v in pure_locals(f.node).items() if k not in (s, i)})
            rng = [n for n in ast.walk(arg)] if arg is not None else []
            rcalls = [n for n in rng if isinstance(n, ast.Call) and isinstance(n.func, ast.Name) and n.func.id == 'range']
            if len(rcalls) == 1:
                rc = rcalls[0]
                if len(rc.args) == 1 and isinstance(rc.args[0], ast.Starred) and \
                        matches('%s.indices(len(%s))' % (i, s), rc.args[0].value) is not None:
                    run.holds(RULE, f.key, 'slice', 'slice bounds normalised by slice.indices(len(self))', f=f, node=r)
                    continue
                # hand-computed bounds: dependence checks (inline locals first)
                cr = canon(fi, rc)
                problems = []
                a = cr.args
                start = a[0] if len(a) >= 2 else None
                step = a[2] if len(a) >= 3 else None
                if start is None or not find_all('len(%s)' % s, start):
                    problems.append('the start bound (%s) does not depend on len(self): a negative start is not '
                                    'normalised' % (src(start) if start is not None else 'absent'))
                step_tested = any(isinstance(n, ast.Compare) and ('%s.step' % i) in ast.unparse(n) for n in own_walk(f.node))
                if not step_tested:
                    problems.append('the sign of the step is never inspected: a negative step cannot select the right elements')
                if problems:
                    run.violation(RULE, f.key, 'slice bounds ' + src(rc, 60), 'slice bounds are computed by hand and ' +
                                  '; '.join(problems) + ' (list semantics not reproduced)', f=f, node=r)
                else:
                    run.undecided(RULE, f.key, 'slice bounds ' + src(rc, 60), 'hand-computed slice bounds depend on len(self), '
                                  'start sign and step sign; equivalence with list slicing is not decided', f=f, node=r)
                continue
            # re-slicing with the NORMALISED bounds: slice(*i.indices(n)) -- for a negative step that runs to the start, indices() gives
            # stop = -1, which list slicing reads as "the last element": x[::-1] comes back empty
            resl = [n for n in rng if isinstance(n, ast.Call) and isinstance(n.func, ast.Name) and n.func.id == 'slice' and len(n.args) == 1 and
                    isinstance(n.args[0], ast.Starred) and matches('%s.indices(__)' % i, n.args[0].value) is not None]
            if resl:
                run.violation(RULE, f.key, 'slice ' + src(resl[0], 50), 'the list is sliced again with the bounds NORMALISED by slice.indices(): for a negative step '
                              'reaching the first element indices() returns stop = -1, which a second slicing reads as "the last element", so x[::-1], '
                              'x[2::-1] come back empty (the normalised bounds are for range(), not for another slice)', f=f, node=r)
                continue
            run.error('%s: unrecognised slice branch in %s' % (RULE, f.key))
        elif not_slice or not is_slice:
            n_int += 1
            if arg is not None and matches('%s.data[%s]' % (s, i), arg) is not None:
                # the index handed to the list is the caller's index: if it is rebound first (hand normalisation of negative
                # values), BOTH range tests must hold at the delegation, otherwise the list wraps an out-of-range index again
                from ..cfg import reaching_defs
                IN, OUT = reaching_defs(cfg, f.allparams)
                redefs = [cfg.nodes[d].ast for (nm, d) in IN.get(node.id, ()) if nm == i and d != cfg.entry.id] if node else []
                if not redefs:
                    run.holds(RULE, f.key, 'integer index', 'delegated to list indexing (IndexError exactly when a list raises)', f=f, node=r)
                else:
                    def has(pred):
                        return any(pred(fc) for fc in fs)
                    low = has(lambda fc: (fc[1] and matches('%s >= 0' % i, fc[2].ast) is not None) or ((not fc[1]) and matches('%s < 0' % i, fc[2].ast) is not None))
                    txts = [(fc[1], ast.unparse(fc[2].ast)) for fc in fs]
                    high = any((pol and t.startswith('%s < ' % i)) or ((not pol) and t.startswith('%s >= ' % i)) for pol, t in txts)
                    if low and high:
                        run.holds(RULE, f.key, 'integer index', 'index normalised by hand; both range tests hold at the delegation', f=f, node=r)
                    else:
                        run.violation(RULE, f.key, 'integer index rewritten: ' + src(redefs[0], 40), 'the index is rewritten (%s) before it is handed to the '
                                      'list and %s is not re-tested afterwards: an index below -len(self) is wrapped a second time by the list '
                                      'instead of raising IndexError' % (src(redefs[0], 40), 'the lower bound' if not low else 'the upper bound'), f=f, node=r)
            else:
                run.violation(RULE, f.key, 'integer index ' + src(r.value, 50), 'integer indexing is not a plain self.data[i]', f=f, node=r)
    if n_slice == 0:
        run.violation(RULE, f.key, 'slice', 'no slice branch: slicing is not supported by delegation', f=f)


NOT_OVERRIDDEN = ['__delitem__', '__len__', '__iter__', '__contains__', 'reverse', 'clear', '__reversed__', 'index']


def check_who_defines(run):
    prog = run.prog
    for c in prog.classes.values():
        if prog.UserList not in c.mro:
            continue
        for nm in NOT_OVERRIDDEN:
            if nm in c.members and isinstance(c.members[nm], Function):
                run.violation(RULE, c.key, 'overrides ' + nm, '%s overrides the list primitive %s below UserList: list '
                              'equivalence by delegation no longer holds' % (c.name, nm), f=c.members[nm])
    n = sum(1 for c in prog.classes.values() if prog.UserList in c.mro)
    run.holds(RULE, 'class-model', 'list primitives', '%d list-capable classes inherit %s from UserList unchanged'
              % (n, ', '.join(NOT_OVERRIDDEN)))


def check_empty_alloc(run):
    prog = run.prog
    f = prog.func('smuserlist:SMUserList.Empty')
    ok = any(isinstance(n, ast.Assign) and matches('[]', n.value) is not None and
             any(isinstance(t, ast.Attribute) and t.attr == 'data' for t in n.targets) for n in own_walk(f.node))
    (run.holds if ok else run.violation)(RULE, f.key, 'data = []', 'Empty() sets data to an empty list' if ok else
                                         'Empty() does not set data to []', f=f)
    f = prog.func('smuserlist:SMUserList.Alloc')
    ok = False
    for n in own_walk(f.node):
        if isinstance(n, ast.Assign) and any(isinstance(t, ast.Attribute) and t.attr == 'data' for t in n.targets):
            if matches('[cls._identity() for _I in range(n)]', n.value) is not None:
                ok = True
            elif isinstance(n.value, ast.BinOp) and isinstance(n.value.op, ast.Mult):
                run.violation(RULE, f.key, 'data = ' + src(n.value), 'Alloc repeats one identity object n times: the n '
                              'elements alias each other', f=f, node=n)
                return
    (run.holds if ok else run.violation)(RULE, f.key, 'n identities', 'Alloc(n) builds n separately constructed identity values'
                                         if ok else 'Alloc(n) does not build n separate identities', f=f)


def check_pop(run, f):
    s = f.selfname
    rets = own_returns(f.node)
    ok = len(rets) == 1 and (matches('%s.__class__(super().pop(i))' % s, rets[0].value) is not None or
                             matches('%s.__class__(%s.data.pop(i))' % (s, s), rets[0].value) is not None)
    (run.holds if ok else run.violation)(RULE, f.key, 'pop', 'pop delegates to list.pop and wraps the value in the same class'
                                         if ok else 'pop is not `self.__class__(super().pop(i))`', f=f)


def check_extend(run, f):
    fi = FuncInfo.of(f)
    s = f.selfname
    x = f.params[1]
    check_mutator(run, f, x, lambda st: _is_super_method_call(st, {'extend'}), need_single=False)
    for n in own_walk(f.node):
        if isinstance(n, ast.Call) and isinstance(n.func, ast.Attribute) and n.func.attr == 'extend':
            a = n.args[0] if n.args else None
            if a is not None and matches('%s.data' % x, a) is not None:
                run.holds(RULE, f.key, 'extend argument', 'extends with the argument\'s element list', f=f, node=n)
            elif a is not None and isinstance(a, ast.Attribute) and a.attr in ('A', '_A', 'S'):
                run.violation(RULE, f.key, 'extend argument ' + src(a), 'extends with %s, which is a single array (not a list) '
                              'for a single-valued argument: its rows are appended as elements' % src(a), f=f, node=n)
            else:
                run.undecided(RULE, f.key, 'extend argument ' + src(a), 'unrecognised extend argument', f=f, node=n)


def check_empty_list_ctor(run, f):
    """In arghandler every `arg[0]` is dominated by a non-emptiness fact: X([]) must build an empty object
    (every empty slice goes through this path), not raise IndexError."""
    from ..cfg import header_expr
    cfg = CFG(f.node)
    facts = must_facts(cfg)
    reach = cfg.reachable()
    arg = f.params[1]
    n = 0
    for node in cfg.nodes:
        if node.id not in reach:
            continue
        for h in header_expr(node):
            if h is None:
                continue
            for x in ast.walk(h):
                if isinstance(x, ast.Subscript) and isinstance(x.value, ast.Name) and x.value.id == arg and \
                        isinstance(x.slice, ast.Constant) and x.slice.value == 0:
                    n += 1
                    fs = facts.get(node.id, frozenset())
                    ok = False
                    for fc in fs:
                        t, pol = fc[2].ast, fc[1]
                        if (not pol and (matches('len(%s) == 0' % arg, t) is not None or matches('not %s' % arg, t) is not None)) or \
                                (pol and (matches('len(%s) > 0' % arg, t) is not None or matches('len(%s) != 0' % arg, t) is not None
                                          or matches('len(%s) >= 1' % arg, t) is not None or (isinstance(t, ast.Name) and t.id == arg))):
                            ok = True
                    # the test of the first branch itself (`if len(arg) == 0`) guards the following elif tests
                    if ok:
                        run.holds(RULE, f.key, 'non-empty guard for ' + src(x), 'first element read only for a non-empty list', f=f, node=x)
                    else:
                        run.violation(RULE, f.key, 'non-empty guard for ' + src(x), 'the first element of the list argument is read '
                                      'without a non-emptiness test: X([]) -- hence every empty slice -- raises IndexError where a '
                                      'list gives an empty result', f=f, node=x)
                    break
    return n


def run_mutator_guards(run):
    """class-equality and single-value guards of append / insert / __setitem__ (also what keeps a value of another class out of an
    object: C07)"""
    prog = run.prog
    f = prog.func('smuserlist:SMUserList.append')
    check_mutator(run, f, f.params[1], lambda st: _is_super_method_call(st, {'append'}))
    f = prog.func('smuserlist:SMUserList.insert')
    check_mutator(run, f, f.params[2], lambda st: _is_super_method_call(st, {'insert'}))
    f = prog.func('smuserlist:SMUserList.__setitem__')
    check_mutator(run, f, f.params[2], lambda st: isinstance(st, ast.Assign) and any(
        isinstance(t, ast.Subscript) and isinstance(t.value, ast.Attribute) and t.value.attr == 'data' for t in st.targets))


def run_list_rules(run):
    prog = run.prog
    check_getitem(run, prog.func('smuserlist:SMUserList.__getitem__'))
    for k in ('geom3d:Plucker.__getitem__', 'spatialvector:SpatialVector.__getitem__', 'spatialvector:SpatialInertia.__getitem__'):
        if k in prog.functions:
            check_getitem(run, prog.functions[k])
    run_mutator_guards(run)
    f = prog.func('geom3d:Plucker.append')
    check_mutator(run, f, f.params[1], lambda st: _is_super_method_call(st, {'append'}))
    check_extend(run, prog.func('smuserlist:SMUserList.extend'))
    check_shared_element_list(run)
    check_pop(run, prog.func('smuserlist:SMUserList.pop'))
    check_who_defines(run)
    check_empty_alloc(run)
    check_empty_list_ctor(run, prog.func('smuserlist:SMUserList.arghandler'))


def check_shared_element_list(run):
    """Container freshness: the element list of an object is its own.  A method that binds `self.data` to the element list of
    another object (`self.data = other.data`, also through a local) makes the two objects share one list: every later in-place
    operation on one (append, clear, extend, item assignment) changes the other, which no Python list built by extend / copy /
    slicing ever does.  A fresh list (list(..), a comprehension, a slice, .copy(), a concatenation) is accepted."""
    from ..cfg import pure_locals, _subst_pure
    prog = run.prog
    n = 0
    for f in prog.analysed_functions():
        if f.cls is None or f.selfname is None or prog.UserList not in f.cls.mro or f.module.short.startswith('stdlib/'):
            continue
        params = [p for p in f.allparams if p != f.selfname]
        if not params:
            continue
        env = None
        for st in own_walk(f.node):
            if not (isinstance(st, ast.Assign) and len(st.targets) == 1 and isinstance(st.targets[0], ast.Attribute) and st.targets[0].attr == 'data'
                    and isinstance(st.targets[0].value, ast.Name) and st.targets[0].value.id == f.selfname):
                continue
            if env is None:
                env = pure_locals(f.node)
            v = _subst_pure(st.value, env)
            n += 1
            if isinstance(v, ast.Attribute) and v.attr == 'data' and isinstance(v.value, ast.Name) and v.value.id in params:
                run.violation(RULE, f.key, 'element list shared with ' + v.value.id, 'self.data is bound to %s.data itself, not to a copy: the two objects '
                              'share one element list, so a later append / clear / extend / item assignment on either changes both (a Python list '
                              'extended from another never does)' % v.value.id, f=f, node=st)
            else:
                run.holds(RULE, f.key, 'element list ' + src(st.value, 40), 'not the element list of another object', f=f, node=st, nontrivial=False)
    return n
