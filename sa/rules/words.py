"""Group words: abstract evaluation of an expression denoting a rotation / rigid-motion matrix as a word over the
function's parameters, g1^e1 * g2^e2 ..., following local definitions (reaching definitions).  `@` concatenates,
trinv / inv / (for rotations) .T invert, t2r is a homomorphism onto the rotation part."""
import ast

from ..cfg import reaching_defs
from ..pattern import canon, matches

INV_FUNCS = {'trinv', 'trinv2', 'inv'}
HOMS = {'t2r', 'r2t', 'array', 'asarray', 'copy'}


def _inv(w):
    return [(n, -p) for (n, p) in reversed(w)]


def _simplify(w):
    out = []
    for (n, p) in w:
        if out and out[-1][0] == n and out[-1][1] == -p:
            out.pop()
        else:
            out.append((n, p))
    return out


def group_word(cx, expr, at_stmt, rotation=True, assume=None, _depth=0):
    """-> list of words (one per combination of reaching definitions) or None if unrecognised.
    expr must be a *non-inlined* or inlined canonical expression; names are looked up at statement at_stmt."""
    if not hasattr(cx, '_rd'):
        cx._rd = reaching_defs(cx.cfg, cx.f.allparams)
    IN, OUT = cx._rd
    node = cx.cfg.node_of(at_stmt)
    params = set(cx.f.allparams)
    assume = assume or {}

    def ev(e, nid, depth):
        if depth > 8:
            return None
        if isinstance(e, ast.Name):
            defs = [d for (nm, d) in IN.get(nid, ()) if nm == e.id]
            if not defs and e.id in params:
                return [[(e.id, 1)]]
            res = []
            for d in defs:
                if d == cx.cfg.entry.id:
                    res.append([(e.id, 1)])
                    continue
                a = cx.cfg.nodes[d].ast
                if isinstance(a, ast.Assign) and len(a.targets) == 1:
                    t = a.targets[0]
                    if isinstance(t, ast.Name) and t.id == e.id:
                        # skip definitions made under a branch contradicting the assumption (e.g. T1 is None)
                        sub = ev(canon(cx.fi, a.value, inline=False), d, depth + 1)
                        if sub is None:
                            return None
                        res += sub
                        continue
                    if isinstance(t, (ast.Tuple, ast.List)) and isinstance(a.value, ast.Call):
                        cv = canon(cx.fi, a.value, inline=False)
                        if isinstance(cv.func, ast.Name) and cv.func.id == 'tr2rt' and len(t.elts) == 2 and \
                                isinstance(t.elts[0], ast.Name) and t.elts[0].id == e.id:
                            sub = ev(cv.args[0], d, depth + 1)
                            if sub is None:
                                return None
                            res += sub
                            continue
                return None
            return res
        if isinstance(e, ast.BinOp) and isinstance(e.op, ast.MatMult):
            l = ev(e.left, nid, depth + 1)
            r = ev(e.right, nid, depth + 1)
            if l is None or r is None:
                return None
            return [_simplify(a + b) for a in l for b in r]
        if isinstance(e, ast.Attribute) and e.attr == 'T' and rotation:
            s = ev(e.value, nid, depth + 1)
            return None if s is None else [_inv(w) for w in s]
        if isinstance(e, ast.Call) and isinstance(e.func, ast.Name):
            fn = e.func.id
            if fn in INV_FUNCS and e.args:
                s = ev(e.args[0], nid, depth + 1)
                return None if s is None else [_inv(w) for w in s]
            if fn in HOMS and e.args:
                return ev(e.args[0], nid, depth + 1)
            if fn in ('rt2tr', 'Ab2M') and rotation and len(e.args) >= 2:
                # the rotation part of the assembled matrix [[A, b], [0, 1]] is its first argument
                return ev(e.args[0], nid, depth + 1)
        if isinstance(e, ast.Subscript) and rotation:
            # X[:3, :3] is the rotation part
            if matches('_X[:3, :3]', e) is not None or matches('_X[:2, :2]', e) is not None:
                return ev(e.value, nid, depth + 1)
        return None

    ws = ev(expr, node.id, 0)
    if ws is None:
        return None
    uniq = []
    for w in ws:
        if w not in uniq:
            uniq.append(w)
    return uniq
