"""R23 -- line / plane intersection composed with the conventions of the classes (component-wise vector algebra).

Vectors are triples of polynomials over the atoms wx.. (direction), vx.. (moment), nx.. (plane normal), d (plane offset),
nw (= |w|, with nw^2 = w.w); every value is a rational function numerator/denominator and identities are decided by
cross-multiplication.  For `Plucker.intersect_plane` returning (p, lam):
   (i)   p is in the plane:        n.p + d = 0                      (reader convention of Plane.contains, T25)
   (ii)  p is on the line:         w x p - v  is a multiple of w.v  (vanishes under the Pluecker constraint w.v = 0)
   (iii) lam is the line parameter of p:  lam = (p - pp).uw, because point(lam) = pp + uw*lam with uw = w/|w|, pp = v x w / w.w
A method that builds p = point(lam) from its lam (closest) satisfies (iii) by construction."""
import ast
from fractions import Fraction

from ..scope import FuncInfo
from ..callgraph import own_walk
from ..astutil import src
from ..pattern import canon, matches
from ..terms import Poly, ZERO, ONE


class Shape(Exception):
    pass


def _vec(prefix):
    return [Poly.atom(prefix + c) for c in 'xyz']


def _red(p):
    """nw**2 -> wx^2 + wy^2 + wz^2"""
    changed = True
    ww = sum((a * a for a in _vec('w')), ZERO)
    while changed:
        changed = False
        r = ZERO
        for mon, v in p.t.items():
            d = dict(mon)
            if d.get('nw', 0) >= 2:
                changed = True
                d['nw'] -= 2
                r = r + Poly({tuple(sorted((a, q) for a, q in d.items() if q)): v}) * ww
            else:
                r = r + Poly({mon: v})
        p = r
    return p


class Val:
    """scalar or 3-vector rational function: comps (list of Poly, length 1 or 3) over a common denominator"""

    def __init__(self, comps, den=ONE):
        self.c = [_red(x) for x in comps]
        self.den = _red(den)

    @property
    def isvec(self):
        return len(self.c) == 3

    def __add__(self, o):
        if len(self.c) != len(o.c):
            raise Shape('adding scalar and vector')
        return Val([a * o.den + b * self.den for a, b in zip(self.c, o.c)], self.den * o.den)

    def __neg__(self):
        return Val([-a for a in self.c], self.den)

    def __sub__(self, o):
        return self + (-o)

    def mul(self, o):
        if self.isvec and o.isvec:
            raise Shape('vector * vector')
        if self.isvec:
            return Val([a * o.c[0] for a in self.c], self.den * o.den)
        return Val([self.c[0] * b for b in o.c], self.den * o.den)

    def div(self, o):
        if o.isvec:
            raise Shape('division by a vector')
        return Val([a * o.den for a in self.c], self.den * o.c[0])

    def dot(self, o):
        return Val([sum((a * b for a, b in zip(self.c, o.c)), ZERO)], self.den * o.den)

    def cross(self, o):
        a, b = self.c, o.c
        return Val([a[1] * b[2] - a[2] * b[1], a[2] * b[0] - a[0] * b[2], a[0] * b[1] - a[1] * b[0]], self.den * o.den)

    def equals(self, o):
        return len(self.c) == len(o.c) and all(_red(a * o.den) == _red(b * self.den) for a, b in zip(self.c, o.c))

    def is_zero(self):
        return all(not x.t for x in self.c)


def line_env(selfname, planename=None):
    w, v = Val(_vec('w')), Val(_vec('v'))
    env = {selfname + '.w': w, selfname + '.v': v,
           selfname + '.pp': v.cross(w).div(w.dot(w)),
           selfname + '.uw': w.div(Val([Poly.atom('nw')]))}
    if planename:
        env[planename + '.n'] = Val(_vec('n'))
        env[planename + '.d'] = Val([Poly.atom('d')])
    return env


class VecEval:
    def __init__(self, env):
        self.env = dict(env)

    def ev(self, e):
        key = ast.unparse(e)
        if key in self.env:
            return self.env[key]
        if isinstance(e, ast.Constant) and isinstance(e.value, (int, float)):
            return Val([Poly.const(Fraction(e.value).limit_denominator(10**9))])
        if isinstance(e, ast.UnaryOp) and isinstance(e.op, ast.USub):
            return -self.ev(e.operand)
        if isinstance(e, ast.BinOp):
            a, b = self.ev(e.left), self.ev(e.right)
            if isinstance(e.op, ast.Add):
                return a + b
            if isinstance(e.op, ast.Sub):
                return a - b
            if isinstance(e.op, ast.Mult):
                return a.mul(b)
            if isinstance(e.op, ast.Div):
                return a.div(b)
        if isinstance(e, ast.Call) and isinstance(e.func, ast.Name) and len(e.args) == 2:
            if e.func.id == 'cross':
                return self.ev(e.args[0]).cross(self.ev(e.args[1]))
            if e.func.id == 'dot':
                return self.ev(e.args[0]).dot(self.ev(e.args[1]))
        raise Shape('expression ' + src(e, 40))


def check_intersect_plane(run, rule='R23'):
    f = run.prog.func('geom3d:Plucker.intersect_plane')
    fi = FuncInfo.of(f)
    s = f.selfname
    plane = [p for p in f.params if p != s][0]
    ev = VecEval(line_env(s, plane))
    # straight-line definitions of the value-returning branch
    ret = None
    for r in own_walk(f.node):
        if isinstance(r, ast.Return) and r.value is not None and not (isinstance(r.value, ast.Constant) and r.value.value is None):
            ret = r
    if ret is None:
        run.error('R23: intersect_plane: no value return')
        return
    try:
        order = sorted([st for st in own_walk(f.node) if isinstance(st, ast.Assign) and isinstance(st.targets[0], ast.Name) and st.lineno < ret.lineno],
                       key=lambda st: st.lineno)
        for st in order:
            nm = st.targets[0].id
            if nm == plane:
                continue
            ev.env[nm] = ev.ev(canon(fi, st.value, inline=False))
        rv = canon(fi, ret.value, inline=False)
        if isinstance(rv, ast.Call) and rv.keywords and isinstance(rv.func, ast.Call) and len(rv.func.args) == 2 and \
                isinstance(rv.func.args[1], ast.Constant) and isinstance(rv.func.args[1].value, str):
            # <namedtuple>(p=.., lam=..): bind the keywords to the declared field order
            fields = rv.func.args[1].value.replace(',', ' ').split()
            byname = {k.arg: k.value for k in rv.keywords if k.arg}
            pos = list(rv.args)
            while len(pos) < len(fields) and fields[len(pos)] in byname:
                pos.append(byname.pop(fields[len(pos)]))
            if not byname:
                rv = ast.Call(func=rv.func, args=pos, keywords=[])
        if not (isinstance(rv, ast.Call) and len(rv.args) == 2 and not rv.keywords):
            run.error('R23: intersect_plane: return is not <namedtuple>(p, lam): %s' % src(ret.value, 50))
            return
        p, lam = ev.ev(rv.args[0]), ev.ev(rv.args[1])
    except Shape as ex:
        run.error('R23: intersect_plane unrecognised: %s' % ex)
        return
    w, v, n, d = ev.env[s + '.w'], ev.env[s + '.v'], ev.env[plane + '.n'], ev.env[plane + '.d']
    # (i)
    res = n.dot(p) + d
    (run.holds if res.is_zero() else run.violation)(
        rule, f.key, 'intersection point lies in the plane', 'n.p + d composes to 0' if res.is_zero() else
        'n.p + d composes to %s / %s, not 0: the returned point is not in the plane n.x + d = 0' % (res.c[0], res.den), f=f, node=ret)
    # (ii)  w x p - v + k (w.v) n == 0 for the k that the triple-product expansion gives (k = 1/den)
    resid = w.cross(p) - v
    wv = w.dot(v)
    on_line = False
    for k in (n.div(w.dot(n)), -n.div(w.dot(n))):
        if (resid + k.mul(wv)).is_zero():
            on_line = True
    if resid.is_zero():
        on_line = True
    (run.holds if on_line else run.violation)(
        rule, f.key, 'intersection point lies on the line', 'w x p - v is a multiple of w.v (zero under the Pluecker constraint)' if on_line else
        'w x p - v composes to %s (over %s), which does not vanish under w.v = 0: the returned point is not on the line' % (resid.c, resid.den), f=f, node=ret)
    # (iii)
    want = (p - ev.env[s + '.pp']).dot(ev.env[s + '.uw'])
    if lam.equals(want):
        run.holds(rule, f.key, 'line parameter of the intersection', 'lam = (p - pp).uw, so point(lam) = p', f=f, node=ret)
    else:
        run.violation(rule, f.key, 'line parameter of the intersection', 'lam is computed as %s, which does not compose to (p - pp).uw: point(lam) is not '
                      'the intersection point' % src(rv.args[1] if not isinstance(rv.args[1], ast.Name) else
                                                     [st.value for st in order if st.targets[0].id == rv.args[1].id][-1], 50), f=f, node=ret)


def check_closest(run, rule='R23'):
    """closest(x): the result tuple (p, d, lam) -- fields read from the namedtuple declaration, values with every local put in
    place, whatever the locals are called -- has lam = (x - pp).uw and p = point(lam)."""
    f = run.prog.func('geom3d:Plucker.closest')
    fi = FuncInfo.of(f)
    s = f.selfname
    from ..cfg import pure_locals, _subst_pure
    x = [p for p in f.params if p != s][0]
    env = {k: canon(fi, v, inline=False) for k, v in pure_locals(f.node).items()}
    fields = None
    for c in own_walk(f.node):
        if isinstance(c, ast.Call) and getattr(c.func, 'id', getattr(c.func, 'attr', None)) == 'namedtuple' and len(c.args) >= 2:
            a = c.args[1]
            if isinstance(a, ast.Constant) and isinstance(a.value, str):
                fields = a.value.replace(',', ' ').split()
            elif isinstance(a, (ast.List, ast.Tuple)) and all(isinstance(e, ast.Constant) for e in a.elts):
                fields = [e.value for e in a.elts]
    rets = [r for r in own_walk(f.node) if isinstance(r, ast.Return) and isinstance(r.value, ast.Call)]
    P = L = None
    if fields and 'p' in fields and 'lam' in fields and len(rets) == 1:
        c = rets[0].value
        vals = {}
        for k, a in zip(fields, c.args):
            vals[k] = a
        for kw in c.keywords:
            if kw.arg:
                vals[kw.arg] = kw.value
        if 'p' in vals and 'lam' in vals:
            for _ in range(6):
                vals = {k: _subst_pure(canon(fi, v, inline=False), env) for k, v in vals.items()}
            P, L = vals['p'], vals['lam']
    if P is None:
        run.error('R23: Plucker.closest: the result is not a namedtuple call with the fields p and lam')
        return
    ok_l = matches('dot(%s - %s.pp, %s.uw)' % (x, s, s), L) is not None
    bp = matches('%s.point(_L).flatten()' % s, P) or matches('%s.point(_L)' % s, P)
    ok_p = bp is not None and ast.dump(bp['_L']) == ast.dump(L)
    (run.holds if ok_l else run.violation)(rule, f.key, 'parameter of the closest point', 'lam = (x - pp).uw' if ok_l else
                                           'lam is %s, not dot(x - pp, uw)' % ast.unparse(L), f=f)
    (run.holds if ok_p else run.violation)(rule, f.key, 'closest point from its parameter', 'p = point(lam)' if ok_p else
                                           'p is %s, not point(lam) of the returned lam' % ast.unparse(P)[:80], f=f)


# =========================================================================== line-line distance
NORM_ATOMS = {'nw': 'w', 'nw1': 'a', 'nw2': 'b'}


def _red2(p):
    """n<name>**2 -> <vec>.<vec> for the norm atoms of the two-line environment"""
    changed = True
    while changed:
        changed = False
        r = ZERO
        for mon, v in p.t.items():
            d = dict(mon)
            hit = [a for a in d if (a in NORM_ATOMS or a == 'ak') and d[a] >= 2]
            if hit:
                changed = True
                a = hit[0]
                d[a] -= 2
                vv = Poly.atom('k') * Poly.atom('k') if a == 'ak' else sum((x * x for x in _vec(NORM_ATOMS[a])), ZERO)
                r = r + Poly({tuple(sorted((k, q) for k, q in d.items() if q)): v}) * vv
            else:
                r = r + Poly({mon: v})
        p = r
    return p


class Val2(Val):
    def __init__(self, comps, den=ONE):
        self.c = [_red2(x) for x in comps]
        self.den = _red2(den)

    def _mk(self, comps, den):
        return Val2(comps, den)


def _v2(val):
    return Val2(val.c, val.den)


class SqEval:
    """value of e**2 for scalar expressions built from abs, norm, /, *, ** 2 over the vector algebra"""

    def __init__(self, vev):
        self.v = vev

    def sq(self, e):
        if isinstance(e, ast.Call) and isinstance(e.func, ast.Name):
            if e.func.id == 'abs' and len(e.args) == 1:
                return self.sq(e.args[0])
            if e.func.id == 'norm' and len(e.args) == 1:
                x = self.v.ev(e.args[0])
                if not x.isvec:
                    return _mul(x, x)
                return x.dot(x)
        if isinstance(e, ast.BinOp):
            if isinstance(e.op, ast.Div):
                return self.sq(e.left).div(self.sq(e.right))
            if isinstance(e.op, ast.Mult):
                if isinstance(e.left, ast.Name) and isinstance(e.right, ast.Name):
                    x = self.v.ev(e)            # product of two line objects: the reciprocal product
                    return _mul(x, x)
                return _mul(self.sq(e.left), self.sq(e.right))
            if isinstance(e.op, ast.Pow) and isinstance(e.right, ast.Constant) and e.right.value == 2:
                s = self.sq(e.left)
                return _mul(s, s)
        x = self.v.ev(e)
        if x.isvec:
            raise VectorResult(e)
        return _mul(x, x)


class VectorResult(Exception):
    pass


def _mul(a, b):
    return a.mul(b)


def _eq2(a, b):
    return len(a.c) == len(b.c) and all(_red2(x * b.den) == _red2(y * a.den) for x, y in zip(a.c, b.c))


def check_distance(run, rule='R23'):
    """Plucker.distance against elementary geometry, for lines given by a point and a direction each (v = w x p):
    skew:      d^2 = ((p2 - p1).(w1 x w2))^2 / |w1 x w2|^2
    parallel:  d^2 = |w1 x (p1 - p2)|^2 / |w1|^2         (w2 = k w1)
    The code's expression is squared structurally (abs, norm, /, **2) and compared by cross-multiplication."""
    prog = run.prog
    f = prog.func('geom3d:Plucker.distance')
    fi = FuncInfo.of(f)
    g = prog.func('geom3d:Plucker.__mul__')
    gi = FuncInfo.of(g)
    recip = None
    for r in own_walk(g.node):
        if isinstance(r, ast.Return) and r.value is not None:
            recip = canon(gi, r.value, inline=False)
    if recip is None:
        run.error('R23: Plucker.__mul__: reciprocal product not found')
        return
    L, Rn = g.params[0], g.params[1]
    if L == g.selfname:
        # `left = self` alias inside the method
        for st in own_walk(g.node):
            if isinstance(st, ast.Assign) and isinstance(st.targets[0], ast.Name) and isinstance(st.value, ast.Name) and st.value.id == g.selfname:
                L = st.targets[0].id

    def env_for(parallel):
        a, p1, p2 = Val(_vec('a')), Val(_vec('p')), Val(_vec('q'))
        if parallel:
            k = Val([Poly.atom('k')])
            b = a.mul(k)
            nb = Val([Poly.atom('nw1') * Poly.atom('ak')])      # |k a| = |k| |a|, ak = |k| with ak^2 = k^2 (the sign of k is kept apart)
        else:
            b = Val(_vec('b'))
            nb = Val([Poly.atom('nw2')])
        env = {'l1.w': a, 'l1.v': a.cross(p1), 'l1.uw': a.div(Val([Poly.atom('nw1')])),
               'l2.w': b, 'l2.v': b.cross(p2), 'l2.uw': b.div(nb),
               'norm(l1.w)': Val([Poly.atom('nw1')]), 'norm(l2.w)': nb}
        return env, a, b, p1, p2

    # per-path value of the result (symbolic substitution of locals along every path, with the path conditions)
    from .r16_tables import Ctx, sl_eval
    cx = Ctx(run, 'geom3d:Plucker.distance')
    S1 = f.selfname
    S2 = [p_ for p_ in f.params if p_ != S1][0]
    paths = sl_eval(cx, with_conds=True)
    branches = {}
    for (r, e, conds) in paths:
        par = [pol for (c, pol) in conds if matches('%s | %s' % (S1, S2), c) is not None or matches('%s.isparallel(%s)' % (S1, S2), c) is not None]
        if isinstance(e, ast.Constant) and e.value == 0 and not isinstance(e.value, bool):
            # distance 0 on the strength of a vanishing reciprocal product: valid for NON-parallel lines only (the reciprocal
            # product of two parallel lines is zero as well -- they are coplanar -- whatever their separation)
            recip_test = any(pol for (c, pol) in conds if any(isinstance(x, ast.BinOp) and isinstance(x.op, ast.Mult) and
                                                              {ast.unparse(x.left), ast.unparse(x.right)} == {S1, S2} for x in ast.walk(c)))
            if recip_test:
                if par and par[-1] is False:
                    run.holds(rule, f.key, 'distance 0 for intersecting lines', 'returned only where the lines are not parallel', f=f, node=r)
                else:
                    run.violation(rule, f.key, 'distance 0 for intersecting lines', 'distance 0 is returned when the reciprocal product l1 * l2 vanishes '
                                  'without first excluding parallel lines: two parallel lines are coplanar, so their reciprocal product is zero '
                                  'whatever their separation, and parallel non-coincident lines get distance 0', f=f, node=r)
            continue
        if not par:
            continue
        if isinstance(e, ast.Constant) and e.value == 0:
            continue                      # intersecting lines
        branches.setdefault('parallel lines' if par[-1] else 'skew lines', []).append((r, e))
    for label, parallel in (('parallel lines', True), ('skew lines', False)):
        if len(branches.get(label, [])) != 1:
            run.error('R23: Plucker.distance: %d value paths found for %s (expected 1)' % (len(branches.get(label, [])), label))
            continue
        a_st, e = branches[label][0]
        env, a, b, p1, p2 = env_for(parallel)
        env = {k.replace('l1.', S1 + '.').replace('l2.', S2 + '.'): v for k, v in env.items()}

        class EV(VecEval):
            def ev(self2, e_):
                if isinstance(e_, ast.BinOp) and isinstance(e_.op, ast.Mult) and ast.unparse(e_.left) == S1 and ast.unparse(e_.right) == S2:
                    sub = VecEval({k.replace(S1 + '.', L + '.').replace(S2 + '.', Rn + '.'): v for k, v in env.items()})
                    return sub.ev(recip)
                return VecEval.ev(self2, e_)
        vev = EV(env)
        construct = 'distance, %s: %s' % (label, src(e, 50))
        try:
            got = SqEval(vev).sq(e)
        except VectorResult:
            run.violation(rule, f.key, construct, 'the value returned for %s is a VECTOR (a cross product that is not reduced by a norm): the '
                          'documented result is the scalar distance' % label, f=f, node=a_st)
            continue
        except Shape as ex:
            run.error('R23: Plucker.distance (%s) unrecognised: %s' % (label, ex))
            continue
        if parallel:
            num = a.cross(p1 - p2)
            want = num.dot(num).div(a.dot(a))
        else:
            c = a.cross(b)
            tp = (p2 - p1).dot(c)
            want = tp.mul(tp).div(c.dot(c))
        if _eq2(got, want):
            run.holds(rule, f.key, construct, 'squared value composes to the elementary formula %s' %
                      ('|w1 x (p1 - p2)|^2 / |w1|^2' if parallel else '((p2 - p1).(w1 x w2))^2 / |w1 x w2|^2'), f=f, node=a_st)
        else:
            run.violation(rule, f.key, construct, 'for lines (p1, w1), (p2, w2) with v = w x p the squared value of this expression is not %s: '
                          'the reported distance is wrong for %s' % ('|w1 x (p1 - p2)|^2 / |w1|^2' if parallel else '((p2 - p1).(w1 x w2))^2 / |w1 x w2|^2',
                                                                     'directions that are not unit vectors or not perpendicular'), f=f, node=a_st)
