"""R9 -- purity: no in-place write reaches storage that may alias an argument, the receiver of a
non-mutating method, or a module-level object.  May-alias forward dataflow with function summaries
(returns-alias-of-parameter, mutates-parameter), computed to a fixpoint over the whole package."""
import ast

from ..model import Function, Class
from ..scope import FuncInfo
from ..cfg import CFG, forward, header_expr, must_facts
from ..callgraph import own_walk, method_candidates, local_aliases

OBJ, ELEM = 'obj', 'elem'

MUTATING_METHODS = {'append', 'extend', 'insert', 'pop', 'remove', 'clear', 'sort', 'reverse', 'fill', 'resize',
                    'put', 'itemset', 'partition', 'setflags', 'update', 'setdefault', 'popitem', 'add',
                    'discard', '__setitem__', '__delitem__', '__iadd__', '__imul__', 'byteswap', 'setfield',
                    'itemset', 'sort'}
VIEW_METHODS = {'reshape', 'ravel', 'squeeze', 'view', 'transpose', 'swapaxes', 'diagonal', 'conj', 'conjugate',
                '__getitem__', 'get', 'items', 'values', 'keys', '__iter__', 'T'}
FRESH_METHODS = {'copy', 'flatten', 'astype', 'tolist', 'sum', 'dot', 'min', 'max', 'mean', 'argmax', 'argmin',
                 'format', 'join', 'split', 'replace', 'startswith', 'trace', 'all', 'any', 'index', 'count',
                 'det', 'subs', 'simplify', 'lower', 'upper', 'strip', 'round', 'cumsum', 'prod', 'nonzero',
                 'str', 'write', 'evalf'}
NP_VIEW_FUNCS = {'asarray', 'asanyarray', 'atleast_1d', 'atleast_2d', 'atleast_3d', 'ravel', 'reshape', 'squeeze',
                 'transpose', 'ascontiguousarray', 'asfarray', 'diagonal', 'swapaxes', 'moveaxis', 'broadcast_to',
                 'real', 'imag', 'expand_dims', 'flip', 'fliplr', 'flipud', 'rollaxis', 'split', 'hsplit', 'vsplit',
                 'nditer', 'asmatrix'}
# numpy functions known to return freshly allocated storage (never their argument, never a view).
# Anything NOT listed here (e.g. linalg.matrix_power, which returns its argument itself for n == 1)
# is assumed to possibly return an alias of its array arguments.
NP_FRESH_FUNCS = {'array', 'zeros', 'ones', 'eye', 'identity', 'empty', 'full', 'zeros_like', 'ones_like',
                  'empty_like', 'full_like', 'stack', 'vstack', 'hstack', 'dstack', 'block', 'concatenate',
                  'column_stack', 'cross', 'dot', 'matmul', 'inner', 'outer', 'kron', 'pad', 'tile', 'repeat',
                  'where', 'mod', 'clip', 'sum', 'abs', 'absolute', 'sqrt', 'sin', 'cos', 'tan', 'arcsin', 'arccos',
                  'arctan', 'arctan2', 'exp', 'log', 'power', 'add', 'subtract', 'multiply', 'divide', 'negative',
                  'norm', 'det', 'inv', 'pinv', 'solve', 'eig', 'svd', 'trace', 'delete', 'insert', 'append',
                  'linspace', 'arange', 'vectorize', 'uniform', 'rand', 'randn', 'normal', 'random', 'prod',
                  'cumsum', 'argmax', 'argmin', 'max', 'min', 'amax', 'amin', 'mean', 'all', 'any', 'allclose',
                  'isclose', 'isscalar', 'finfo', 'sign', 'floor', 'ceil', 'round', 'around', 'copy', 'diag',
                  'meshgrid', 'array_equal', 'isnan', 'isfinite', 'maximum', 'minimum', 'deg2rad', 'rad2deg',
                  'radians', 'degrees', 'expm', 'logm', 'sort', 'argsort', 'unique', 'count_nonzero', 'nonzero',
                  'float64', 'int64', 'float32', 'tril', 'triu', 'roll', 'cov', 'average', 'std', 'var',
                  'hypot', 'square', 'remainder', 'fmod', 'logical_and', 'logical_or', 'logical_not', 'equal',
                  'not_equal', 'less', 'greater', 'einsum', 'tensordot', 'vdot', 'matrix_rank', 'cond', 'qr',
                  'cholesky', 'lstsq', 'eigh', 'eigvals', 'flatnonzero', 'fromiter', 'frombuffer', 'loadtxt',
                  'choose', 'select', 'piecewise', 'interp', 'polyfit', 'polyval', 'trapz', 'diff', 'gradient',
                  'ptp', 'percentile', 'median', 'nan_to_num', 'real_if_close', 'angle', 'unwrap', 'fix', 'trunc',
                  'rint', 'exp2', 'log2', 'log10', 'log1p', 'expm1', 'sinh', 'cosh', 'tanh', 'arcsinh', 'arccosh',
                  'arctanh', 'cbrt', 'reciprocal', 'positive', 'float_power', 'fabs', 'heaviside', 'gcd', 'lcm',
                  'isin', 'in1d', 'intersect1d', 'union1d', 'setdiff1d', 'histogram', 'bincount', 'digitize',
                  'searchsorted', 'extract', 'compress', 'take', 'trim_zeros', 'resize', 'mat', 'bmat'}
NP_INPLACE_FUNCS = {'fill_diagonal': 0, 'put': 0, 'copyto': 0, 'place': 0, 'putmask': 0, 'put_along_axis': 0}
ELEM_BUILTINS = {'list', 'tuple', 'zip', 'enumerate', 'reversed', 'iter', 'map', 'filter', 'sorted', 'set',
                 'dict', 'frozenset', 'next'}
SCALAR_BUILTINS = {'len', 'float', 'int', 'abs', 'bool', 'str', 'repr', 'isinstance', 'type', 'max', 'min', 'sum',
                   'round', 'all', 'any', 'callable', 'hasattr', 'id', 'hash', 'range', 'print', 'format', 'ord',
                   'chr', 'divmod', 'pow', 'issubclass', 'getattr'}
SCALAR_ATTRS = {'shape', 'dtype', 'size', 'ndim', 'kind', '__name__', '__class__', 'N', 'itemsize', 'nbytes',
                'start', 'stop', 'step'}

DOCUMENTED_MUTATORS = {
    'smuserlist:SMUserList.append', 'smuserlist:SMUserList.extend', 'smuserlist:SMUserList.insert',
    'smuserlist:SMUserList.pop', 'smuserlist:SMUserList.__setitem__', 'geom3d:Plucker.append',
}
# may assign attributes of their own receiver (object under construction)
CONSTRUCTION = {'__init__', '__new__', 'arghandler'}
RECEIVER_CACHE_EXCEPTIONS = {
    ('super_pose:SMPose._string_matrix', '_ansiformatter'): 'display-formatter cache; value state untouched',
}
RNG_ALLOWED = {'base/quaternions:rand', 'pose2d:SO2.Rand', 'pose2d:SE2.Rand', 'pose3d:SE3.Rand',
               'twist:Twist3.Rand'}
RNG_PREFIXES = ('numpy.random', 'random.', 'time.', 'os.environ', 'os.getenv', 'os.urandom', 'datetime.',
                'uuid.', 'secrets.')


class Val:
    """Abstract value: may-alias roots and a definitely-immutable-scalar flag."""
    __slots__ = ('roots', 'scalar')

    def __init__(self, roots=frozenset(), scalar=False):
        self.roots = frozenset(roots)
        self.scalar = scalar

    def __eq__(self, o):
        return isinstance(o, Val) and self.roots == o.roots and self.scalar == o.scalar

    def __hash__(self):
        return hash((self.roots, self.scalar))

    def join(self, o):
        return Val(self.roots | o.roots, self.scalar and o.scalar)

    def at(self, level):
        return {r for (r, l) in self.roots if l == level}

    def elems(self):
        """value obtained by subscripting / iterating / attribute access"""
        return Val({(r, OBJ) for (r, l) in self.roots}, False)

    def demote(self):
        """fresh container whose elements alias"""
        return Val({(r, ELEM) for (r, l) in self.roots}, False)

    def __repr__(self):
        return 'Val(%s%s)' % (sorted(self.roots), ',scalar' if self.scalar else '')


FRESH = Val()
SCALAR = Val(scalar=True)


class Summary:
    def __init__(self):
        self.ret = {}       # param index/name -> level set  (returns alias)
        self.ret_guard = []  # list of (facts, Val) per return for partial evaluation
        self.mut = {}       # param name -> description of the mutation event
        self.ret_self = set()
        self.mut_self = None

    def key(self):
        return (tuple(sorted((k, tuple(sorted(v))) for k, v in self.ret.items())), tuple(sorted(self.mut)),
                tuple(sorted(self.ret_self)), self.mut_self is not None, len(self.ret_guard))


class Purity:
    def __init__(self, prog):
        self.prog = prog
        self.summ = {}
        self.events = {}
        self.counts = {'stores': 0, 'aug': 0, 'mutcalls': 0, 'calls': 0}

    # ---------------------------------------------------------------- driver
    def analyse_all(self, funcs):
        for f in funcs:
            self.summ[f.key] = Summary()
        changed = True
        it = 0
        while changed and it < 12:
            changed = False
            it += 1
            for f in funcs:
                old = self.summ[f.key].key()
                self.analyse(f)
                if self.summ[f.key].key() != old:
                    changed = True
        self.iterations = it
        return self

    # ---------------------------------------------------------------- per function
    def analyse(self, f):
        fi = FuncInfo.of(f)
        self.fi = fi
        self.f = f
        cfg = CFG(f.node)
        facts = must_facts(cfg)
        selfname = f.selfname if f.kind in ('method', 'property') else None
        init = {}
        for p in f.allparams:
            if p == selfname:
                init[p] = Val({(('self', p), OBJ)})
            elif f.kind == 'class' and p == f.selfname:
                init[p] = Val({(('global', 'cls'), OBJ)})
            else:
                init[p] = Val({(('param', p), OBJ)})
        # parameters with immutable literal defaults keep aliasing semantics only if rebound objects are passed
        events = []
        summ = Summary()
        self._events = events
        self._summ = summ
        self._selfname = selfname

        def transfer(node, env):
            if env is None:
                return None
            return self.exec_node(node, env, record=False)

        def join(vals):
            vs = [v for v in vals if v is not None]
            if not vs:
                return None
            r = dict(vs[0])
            for v in vs[1:]:
                for k, x in v.items():
                    r[k] = r[k].join(x) if k in r else x
            return r
        IN, OUT = forward(cfg, init, transfer, join)
        # second pass: record events with converged environments
        reach = cfg.reachable()
        for node in cfg.nodes:
            if node.id in reach and node.id in IN and IN[node.id] is not None:
                self._facts = facts.get(node.id, frozenset())
                self.exec_node(node, dict(IN[node.id]), record=True)
        self.events[f.key] = events
        # summaries from events
        for ev in events:
            for (r, l) in ev['roots']:
                if r[0] == 'param' and l == OBJ and not _immutable_param(f, r):
                    summ.mut.setdefault(r[1], ev['what'])
                if r[0] == 'self' and l == OBJ:
                    summ.mut_self = summ.mut_self or ev['what']
        self.summ[f.key] = summ

    def exec_node(self, node, env, record):
        env = dict(env)
        a = node.ast
        k = node.kind
        if a is None:
            return env
        self._record = record
        self._node = node
        if k in ('if', 'while', 'assert'):
            self.ev(a.test, env)
        elif k == 'for':
            it = self.ev(a.iter, env)
            self.bind(a.target, it.elems(), env)
        elif k == 'with':
            for item in a.items:
                v = self.ev(item.context_expr, env)
                if item.optional_vars is not None:
                    self.bind(item.optional_vars, v, env)
        elif k == 'handler':
            if a.name:
                env[a.name] = FRESH
        elif k == 'return':
            if a.value is not None:
                v = self.ev(a.value, env)
                if record:
                    self._summ.ret_guard.append((self._facts, v))
                    for (r, l) in v.roots:
                        if r[0] == 'param':
                            self._summ.ret.setdefault(r[1], set()).add(l)
                        elif r[0] == 'self':
                            self._summ.ret_self.add(l)
        elif k == 'raiseS':
            if a.exc is not None:
                self.ev(a.exc, env)
        elif isinstance(a, ast.Assign):
            v = self.ev(a.value, env)
            for t in a.targets:
                self.assign(t, v, env, a)
        elif isinstance(a, ast.AnnAssign):
            if a.value is not None:
                v = self.ev(a.value, env)
                self.assign(a.target, v, env, a)
        elif isinstance(a, ast.AugAssign):
            v = self.ev(a.value, env)
            t = a.target
            if isinstance(t, ast.Name):
                cur = env.get(t.id)
                if cur is None:
                    cur = self.name_val(t, env)
                self.counts['aug'] += record
                if not cur.scalar and cur.at(OBJ):
                    self.event('augmented assignment %s' % ast.unparse(a)[:60], cur.at(OBJ), a,
                               'in-place operator on a name that may hold an array/list aliasing')
                # value after: same object (in-place) or new scalar
                env[t.id] = cur if not cur.scalar else SCALAR
            else:
                self.store(t, env, a, aug=True)
        elif isinstance(a, ast.Delete):
            for t in a.targets:
                if isinstance(t, (ast.Subscript, ast.Attribute)):
                    self.store(t, env, a)
                elif isinstance(t, ast.Name):
                    env.pop(t.id, None)
        elif isinstance(a, ast.Expr):
            self.ev(a.value, env)
        elif isinstance(a, (ast.FunctionDef, ast.AsyncFunctionDef, ast.ClassDef)):
            env[a.name] = FRESH
        elif isinstance(a, (ast.Import, ast.ImportFrom)):
            for x in a.names:
                env[(x.asname or x.name).split('.')[0]] = FRESH
        elif isinstance(a, ast.Global):
            self.event('global statement', {('global', ','.join(a.names))}, a, 'function declares module-level state writable')
        return env

    # ---------------------------------------------------------------- helpers
    def event(self, what, roots, node, why):
        if not self._record:
            return
        rs = {(r, OBJ) for r in roots}
        self._events.append({'what': what, 'roots': rs, 'node': node, 'why': why})

    def bind(self, target, v, env):
        if isinstance(target, ast.Name):
            env[target.id] = v
        elif isinstance(target, (ast.Tuple, ast.List)):
            for e in target.elts:
                self.bind(e, v.elems(), env)
        elif isinstance(target, ast.Starred):
            self.bind(target.value, v, env)
        elif isinstance(target, (ast.Subscript, ast.Attribute)):
            self.store(target, env, target)

    def assign(self, t, v, env, stmt):
        if isinstance(t, ast.Name):
            env[t.id] = v
        elif isinstance(t, (ast.Tuple, ast.List)):
            for e in t.elts:
                self.assign(e, v.elems(), env, stmt)
        elif isinstance(t, ast.Starred):
            self.assign(t.value, v, env, stmt)
        else:
            self.store(t, env, stmt)

    def store(self, t, env, stmt, aug=False):
        """Subscript / attribute store: the object written into is t.value."""
        self.counts['stores'] += self._record
        base = self.ev(t.value, env)
        roots = set(base.at(OBJ))
        if isinstance(t, ast.Attribute) and isinstance(t.value, ast.Name) and t.value.id == self._selfname:
            # rebinding an attribute of the receiver
            f = self.f
            if f.name in CONSTRUCTION or f.key in DOCUMENTED_MUTATORS:
                return
            if (f.key, t.attr) in RECEIVER_CACHE_EXCEPTIONS:
                return
            self.event('receiver attribute store %s' % ast.unparse(t), {('self', self._selfname)}, stmt,
                       'a non-mutating method rebinds an attribute of its receiver')
            return
        if isinstance(t, ast.Subscript):
            self.ev(t.slice, env)
        if roots:
            f = self.f
            only_self = all(r[0] == 'self' for r in roots)
            if only_self and (f.name in CONSTRUCTION or f.key in DOCUMENTED_MUTATORS):
                return
            self.event('%sstore %s' % ('augmented ' if aug else '', ast.unparse(t)[:60]), roots, stmt,
                       'in-place write into storage that may alias')

    def name_val(self, n, env):
        if n.id in env:
            return env[n.id]
        k, t = self.fi.classify(n)
        if k == 'global' and t is not None:
            if t.kind == 'var':
                return Val({(('global', n.id), OBJ)})
            if t.kind == 'class':
                return Val({(('global', n.id), OBJ)}, False)
            return FRESH
        if k == 'free':
            return FRESH
        return FRESH

    def ev(self, e, env):
        """Abstract evaluation; records mutation events of calls as a side effect."""
        if e is None:
            return FRESH
        if isinstance(e, ast.Constant):
            return SCALAR
        if isinstance(e, ast.Name):
            return self.name_val(e, env)
        if isinstance(e, ast.Attribute):
            b = self.ev(e.value, env)
            if e.attr in SCALAR_ATTRS:
                return SCALAR
            # property on the receiver with a summary
            if isinstance(e.value, ast.Name) and e.value.id == self._selfname:
                oc = self.fi.owner_class()
                if oc is not None:
                    cands = [m for m in method_candidates(self.prog, oc, e.attr) if m.kind == 'property']
                    if cands:
                        r = FRESH
                        for m in cands:
                            s = self.summ.get(m.key)
                            if s is None or s.ret_self:
                                r = r.join(b.elems())
                        return r
            return b.elems() if b.roots else Val(scalar=False)
        if isinstance(e, ast.Subscript):
            b = self.ev(e.value, env)
            self.ev(e.slice, env)
            return b.elems()
        if isinstance(e, ast.Starred):
            return self.ev(e.value, env)
        if isinstance(e, (ast.Tuple, ast.List, ast.Set)):
            r = FRESH
            for x in e.elts:
                r = r.join(self.ev(x, env).demote())
            return Val(r.roots, False)
        if isinstance(e, ast.Dict):
            r = FRESH
            for x in list(e.keys) + list(e.values):
                if x is not None:
                    r = r.join(self.ev(x, env).demote())
            return Val(r.roots, False)
        if isinstance(e, (ast.ListComp, ast.SetComp, ast.GeneratorExp, ast.DictComp)):
            env2 = dict(env)
            for g in e.generators:
                it = self.ev(g.iter, env2)
                self.bind(g.target, it.elems(), env2)
                for c in g.ifs:
                    self.ev(c, env2)
            if isinstance(e, ast.DictComp):
                v = self.ev(e.key, env2).join(self.ev(e.value, env2))
            else:
                v = self.ev(e.elt, env2)
            return Val(v.demote().roots, False)
        if isinstance(e, ast.IfExp):
            self.ev(e.test, env)
            return self.ev(e.body, env).join(self.ev(e.orelse, env))
        if isinstance(e, ast.BoolOp):
            r = None
            for x in e.values:
                v = self.ev(x, env)
                r = v if r is None else r.join(v)
            return r
        if isinstance(e, ast.NamedExpr):
            v = self.ev(e.value, env)
            self.bind(e.target, v, env)
            return v
        if isinstance(e, (ast.BinOp,)):
            l = self.ev(e.left, env)
            r = self.ev(e.right, env)
            return Val(scalar=l.scalar and r.scalar)
        if isinstance(e, ast.UnaryOp):
            v = self.ev(e.operand, env)
            return Val(scalar=v.scalar)
        if isinstance(e, ast.Compare):
            self.ev(e.left, env)
            for c in e.comparators:
                self.ev(c, env)
            return Val(scalar=False)
        if isinstance(e, ast.Lambda):
            self.lambda_body(e)
            return FRESH
        if isinstance(e, (ast.JoinedStr, ast.FormattedValue)):
            for x in ast.iter_child_nodes(e):
                if isinstance(x, ast.expr):
                    self.ev(x, env)
            return SCALAR
        if isinstance(e, ast.Call):
            return self.call(e, env)
        if isinstance(e, ast.Slice):
            for x in (e.lower, e.upper, e.step):
                self.ev(x, env)
            return SCALAR
        if isinstance(e, ast.Await):
            return self.ev(e.value, env)
        return FRESH

    def lambda_body(self, lam):
        """A lambda handed to binop/_op2/unop receives operand storage: any in-place event on its
        parameters is a violation."""
        if not self._record:
            return
        params = {a.arg for a in lam.args.args + lam.args.kwonlyargs}
        for n in ast.walk(lam.body):
            tgt = None
            if isinstance(n, ast.Call) and isinstance(n.func, ast.Attribute) and n.func.attr in MUTATING_METHODS:
                tgt = n.func.value
            elif isinstance(n, ast.NamedExpr):
                continue
            if isinstance(n, ast.Call):
                for kw in n.keywords:
                    if kw.arg == 'out':
                        tgt = kw.value
            if tgt is not None:
                names = {x.id for x in ast.walk(tgt) if isinstance(x, ast.Name)}
                if names & params:
                    self._events.append({'what': 'in-place call inside operator lambda %s' % ast.unparse(n)[:60],
                                         'roots': {(('param', p), OBJ) for p in names & params}, 'node': n,
                                         'why': 'lambda parameters are the operands\' stored arrays'})

    # ---------------------------------------------------------------- calls
    def call(self, c, env):
        self.counts['calls'] += self._record
        args = [self.ev(a, env) for a in c.args]
        kws = {kw.arg: self.ev(kw.value, env) for kw in c.keywords}
        fn = c.func
        # out= keyword: in-place
        if 'out' in kws and kws['out'].at(OBJ):
            self.event('out= argument in %s' % ast.unparse(c)[:60], kws['out'].at(OBJ), c,
                       'result written into storage that may alias')
        t = self.fi.resolve(fn)
        # ---- method call on a value
        if isinstance(fn, ast.Attribute) and t.kind not in ('func', 'class', 'module', 'external') \
                and not (t.kind == 'method' and isinstance(fn.value, ast.Name) and False):
            recv = self.ev(fn.value, env)
            is_super = isinstance(fn.value, ast.Call) and isinstance(fn.value.func, ast.Name) and fn.value.func.id == 'super'
            if is_super and self._selfname:
                recv = Val({(('self', self._selfname), OBJ)})
            name = fn.attr
            if name in MUTATING_METHODS:
                self.counts['mutcalls'] += self._record
                roots = recv.at(OBJ)
                if roots:
                    f = self.f
                    only_self = all(r[0] == 'self' for r in roots)
                    if not (only_self and (f.key in DOCUMENTED_MUTATORS or f.name in CONSTRUCTION)):
                        # resolved repo method of the receiver's own class that is itself a documented mutator
                        self.event('mutating call %s' % ast.unparse(c)[:70], roots, c,
                                   'in-place method on storage that may alias')
                if name == 'pop':
                    return recv.elems()
                return FRESH
            if t.kind == 'method' and isinstance(t.obj, Function):
                return self.repo_call(c, [t.obj] + [m for m in self._dyn(fn, t.obj) if m is not t.obj], args, kws,
                                      recv=recv, env=env)
            if name in VIEW_METHODS:
                return recv.elems() if recv.roots else FRESH
            if name in FRESH_METHODS:
                # astype(dt, copy=False) / copy=False in general hands back the receiver itself when nothing has to change
                nocopy = any(k.arg == 'copy' and isinstance(k.value, ast.Constant) and k.value.value is False for k in c.keywords)
                if nocopy and recv.roots:
                    return recv.elems()
                return Val(scalar=False)
            # unknown method on an object: result may expose its storage
            return recv.elems() if recv.roots else FRESH
        if t.kind == 'func' and isinstance(t.obj, Function):
            return self.repo_call(c, [t.obj], args, kws, env=env)
        if t.kind == 'method' and isinstance(t.obj, Function):
            # Class.method(...) or staticmethod through class
            return self.repo_call(c, [t.obj], args, kws, env=env)
        if t.kind in ('class', 'selfclass'):
            # constructor: object holds its arguments by reference
            r = FRESH
            for v in args + list(kws.values()):
                r = r.join(v.demote())
            return Val(r.roots, False)
        if t.kind == 'external':
            nm = str(t.obj)
            if nm.startswith('numpy.'):
                short = nm.split('.')[-1]
                if nm.startswith('numpy.random') and short == 'shuffle' and args and args[0].at(OBJ):
                    self.event('np.random.shuffle', args[0].at(OBJ), c, 'in-place shuffle')
                if short in NP_INPLACE_FUNCS and args:
                    i = NP_INPLACE_FUNCS[short]
                    if args[i].at(OBJ):
                        self.event('numpy in-place %s' % ast.unparse(c)[:60], args[i].at(OBJ), c,
                                   'numpy function with in-place semantics')
                    return FRESH
                if short in NP_VIEW_FUNCS and args:
                    return args[0].elems() if args[0].roots else FRESH
                if short == 'array' and args:
                    cp = [kw for kw in c.keywords if kw.arg == 'copy']
                    if cp and isinstance(cp[0].value, ast.Constant) and cp[0].value.value is False:
                        return args[0].elems()
                    return FRESH
                if short in ('norm', 'det', 'trace', 'isscalar', 'allclose'):
                    return SCALAR
                if short in NP_FRESH_FUNCS:
                    return FRESH
                # unknown numpy function (e.g. linalg.matrix_power returns its argument for n == 1):
                # the result may be, or be a view of, an array argument
                r = FRESH
                for v in args:
                    if v.roots:
                        r = r.join(v.elems())
                return Val(r.roots, False)
            if nm.startswith('math.'):
                return SCALAR
            if nm == 'copy.copy' and args:
                return args[0].demote() if args[0].roots else FRESH
            if nm == 'copy.deepcopy':
                return FRESH
            if nm.startswith('random.') and nm.endswith('shuffle') and args and args[0].at(OBJ):
                self.event('random.shuffle', args[0].at(OBJ), c, 'in-place shuffle')
            return FRESH
        if t.kind == 'builtin':
            nm = t.obj
            if nm in SCALAR_BUILTINS:
                return SCALAR if nm not in ('max', 'min', 'sum', 'getattr') else FRESH
            if nm in ELEM_BUILTINS:
                r = FRESH
                for v in args:
                    r = r.join(v.demote() if nm not in ('next',) else v.elems())
                return Val(r.roots, False)
            if nm == 'setattr' and args and args[0].at(OBJ):
                self.event('setattr call', args[0].at(OBJ), c, 'attribute store')
            if nm == 'super':
                return Val({(('self', self._selfname), OBJ)}) if self._selfname else FRESH
            return FRESH
        if t.kind == 'local' and isinstance(fn, ast.Name):
            al = local_aliases(self.fi).get(fn.id)
            if al:
                return self.repo_call(c, list(al), args, kws, env=env)
            # callable parameter such as `op`: arguments are handed to a callback visible at call sites
            return FRESH
        return FRESH

    def _dyn(self, fn, m):
        if isinstance(fn.value, ast.Name) and fn.value.id == self._selfname:
            oc = self.fi.owner_class()
            if oc is not None:
                return method_candidates(self.prog, oc, fn.attr)
        return []

    def repo_call(self, c, targets, args, kws, recv=None, env=None):
        res = FRESH
        any_s = False
        for g in targets:
            s = self.summ.get(g.key)
            if s is None:
                continue
            any_s = True
            # map arguments to parameter names
            params = list(g.params)
            bound = {}
            if g.kind in ('method', 'property', 'class') and params:
                if recv is not None or g.kind == 'class':
                    if g.kind != 'class':
                        bound[params[0]] = recv
                    params = params[1:]
                elif isinstance(c.func, ast.Attribute):
                    # Class.method(obj, ...) form: first arg is the receiver
                    pass
            for i, v in enumerate(args):
                if i < len(params):
                    bound[params[i]] = v
            for k, v in kws.items():
                if k is not None:
                    bound[k] = v
            # constant bindings for partial evaluation of the callee's return guards
            consts = {}
            dfl = g.defaults()
            pos = list(g.params)
            if g.kind in ('method', 'property', 'class') and pos and (recv is not None or g.kind == 'class'):
                pos = pos[1:]
            for p, d in dfl.items():
                if isinstance(d, ast.Constant):
                    consts[p] = ('const', d.value)
            for i, a in enumerate(c.args):
                if i < len(pos):
                    if isinstance(a, ast.Constant):
                        consts[pos[i]] = ('const', a.value)
                    else:
                        consts.pop(pos[i], None)
            for kw in c.keywords:
                if kw.arg is not None:
                    if isinstance(kw.value, ast.Constant):
                        consts[kw.arg] = ('const', kw.value.value)
                    else:
                        consts.pop(kw.arg, None)
            # mutation through the callee
            for p, what in s.mut.items():
                v = bound.get(p)
                if v is not None and v.at(OBJ):
                    f = self.f
                    only_self = all(r[0] == 'self' for r in v.at(OBJ))
                    if only_self and (f.key in DOCUMENTED_MUTATORS or f.name in CONSTRUCTION):
                        continue
                    self.event('call %s mutates its parameter %r (%s)' % (g.key, p, what), v.at(OBJ), c,
                               'callee writes in place into this argument')
            if s.mut_self is not None and recv is not None and recv.at(OBJ):
                f = self.f
                only_self = all(r[0] == 'self' for r in recv.at(OBJ))
                ok = only_self and (f.key in DOCUMENTED_MUTATORS or f.name in CONSTRUCTION)
                if g.key in DOCUMENTED_MUTATORS or g.name in CONSTRUCTION:
                    # calling a documented mutator on something that aliases a parameter / own receiver
                    if not ok and not all(r[0] == 'self' for r in recv.at(OBJ)):
                        self.event('call of list mutator %s on an argument' % g.key, recv.at(OBJ), c,
                                   'documented mutator applied to an operand, not to the receiver')
                    elif not ok and g.name not in CONSTRUCTION:
                        self.event('call of list mutator %s on the receiver of a non-mutating method' % g.key,
                                   recv.at(OBJ), c, 'receiver modified')
                elif not ok:
                    self.event('call %s mutates its receiver (%s)' % (g.key, s.mut_self), recv.at(OBJ), c,
                               'callee writes in place into its receiver')
            # returned aliases, with partial evaluation on constant arguments
            rets = s.ret_guard
            if rets:
                for (facts, v) in rets:
                    if self._contradicts(facts, consts):
                        continue
                    for (r, l) in v.roots:
                        src = None
                        if r[0] == 'param':
                            src = bound.get(r[1])
                        elif r[0] == 'self':
                            src = recv
                        elif r[0] == 'global':
                            res = res.join(Val({(r, l)}))
                        if src is not None and src.roots:
                            res = res.join(src.elems() if l == OBJ else src.demote())
            else:
                for p, lv in s.ret.items():
                    v = bound.get(p)
                    if v is not None and v.roots:
                        res = res.join(v.elems())
                if s.ret_self and recv is not None and recv.roots:
                    res = res.join(recv.elems())
        if not any_s:
            return FRESH
        return Val(res.roots, False)

    @staticmethod
    def _contradicts(facts, consts):
        """Does a must-fact at the callee's return contradict the constant arguments of this call?"""
        for f in facts:
            test, pol = f[2].ast, f[1]
            if isinstance(test, ast.Compare) and len(test.ops) == 1 and isinstance(test.left, ast.Name) \
                    and test.left.id in consts:
                val = consts[test.left.id][1]
                cmp = test.comparators[0]
                op = test.ops[0]
                if isinstance(cmp, ast.Constant):
                    if isinstance(op, ast.Eq) and ((val == cmp.value) != pol):
                        return True
                    if isinstance(op, ast.NotEq) and ((val != cmp.value) != pol):
                        return True
                    if isinstance(op, ast.Is) and ((val is cmp.value) != pol) and cmp.value is None:
                        return True
                    if isinstance(op, ast.IsNot) and ((val is not cmp.value) != pol) and cmp.value is None:
                        return True
                elif isinstance(cmp, (ast.Tuple, ast.List)) and all(isinstance(x, ast.Constant) for x in cmp.elts):
                    vals = [x.value for x in cmp.elts]
                    if isinstance(op, ast.In) and ((val in vals) != pol):
                        return True
                    if isinstance(op, ast.NotIn) and ((val not in vals) != pol):
                        return True
        return False


def describe_roots(roots):
    out = []
    for (r, l) in sorted(roots, key=str):
        if r[0] == 'param':
            out.append('parameter %r' % r[1])
        elif r[0] == 'self':
            out.append('the receiver %r' % r[1])
        elif r[0] == 'global':
            out.append('module-level object %r' % r[1])
    return ', '.join(sorted(set(out)))


def run_r9(run, funcs=None, rule='R9', report_only=None):
    """report_only: if given, summaries are still computed over `funcs` (whole package) but obligations are recorded only
    for the functions whose key is in this set."""
    prog = run.prog
    funcs = funcs or [f for f in prog.analysed_functions()]
    pa = Purity(prog).analyse_all(funcs)
    nev = 0
    for f in funcs:
        if report_only is not None and f.key not in report_only:
            continue
        evs = pa.events.get(f.key, [])
        bad = []
        for ev in evs:
            roots = ev['roots']
            # a parameter whose only possible values are immutable literals (str/number defaults used as options)
            roots = {(r, l) for (r, l) in roots if not _immutable_param(f, r)}
            if not roots:
                continue
            bad.append((ev, roots))
        if bad:
            for ev, roots in bad:
                nev += 1
                run.violation(rule, f.key, ev['what'], '%s: %s %s' % (ev['why'], 'target may alias',
                              describe_roots(roots)), f=f, node=ev['node'])
        else:
            n_writes = sum(1 for n in own_walk(f.node) if isinstance(n, (ast.AugAssign, ast.Delete)) or
                           (isinstance(n, (ast.Subscript, ast.Attribute)) and isinstance(n.ctx, ast.Store)) or
                           (isinstance(n, ast.Call) and isinstance(n.func, ast.Attribute)
                            and n.func.attr in MUTATING_METHODS))
            run.holds(rule, f.key, 'effects', '%d in-place constructs, none reaches an argument, the receiver of a '
                      'non-mutating method or module state' % n_writes, f=f, nontrivial=n_writes > 0)
    # determinism clause
    for f in funcs:
        if report_only is not None and f.key not in report_only:
            continue
        fi = FuncInfo.of(f)
        hits = []
        for n in own_walk(f.node):
            if isinstance(n, (ast.Attribute, ast.Name)) and isinstance(getattr(n, 'ctx', None), ast.Load):
                t = fi.resolve(n)
                if t.kind == 'external':
                    nm = str(t.obj) + '.'
                    if any(nm.startswith(p) or nm.startswith(p.rstrip('.') + '.') for p in RNG_PREFIXES):
                        hits.append((n, str(t.obj)))
        if hits:
            if f.key in RNG_ALLOWED:
                run.holds('R9d', f.key, 'rng', 'random source used in a documented random constructor', f=f)
            else:
                n, nm = hits[0]
                run.violation('R9d', f.key, 'nondeterministic source ' + nm,
                              'uses %s outside the documented random constructors: repeated calls on equal inputs '
                              'may differ' % nm, f=f, node=n)
    run.extra['r9'] = {'functions': len(funcs), 'fixpoint_iterations': pa.iterations, **pa.counts,
                       'mutating_summaries': sorted(k for k, s in pa.summ.items() if s.mut or s.mut_self),
                       'alias_returning': sorted(k for k, s in pa.summ.items() if s.ret or s.ret_self)[:80]}
    return pa


def _immutable_param(f, r):
    # a parameter whose default is a str/number literal is an option value (immutable): `fmt += 'x'` rebinds
    if r[0] != 'param':
        return False
    d = f.defaults().get(r[1])
    return isinstance(d, ast.Constant) and isinstance(d.value, (str, int, float, bool)) and d.value is not None
