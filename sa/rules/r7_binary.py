"""R7 -- binary helpers use both operands, in order, in all four length cases; binary dunders depend on
both operands; no boolean operator / comparison has two identical operands."""
import ast
import copy

from ..scope import FuncInfo
from ..cfg import CFG, must_facts, reaching_defs, header_expr
from ..callgraph import own_walk
from ..pattern import canon, matches, find_all, parse_pat
from ..astutil import src
from .r2_none import own_returns


class _AtoA(ast.NodeTransformer):
    def visit_Attribute(self, n):
        self.generic_visit(n)
        if n.attr in ('_A',):
            n.attr = 'A'
        return n


def norm_expr(fi, e):
    return _AtoA().visit(canon(fi, e))


def _fact(facts, pats, pol):
    for f in facts:
        if f[1] != pol:
            continue
        for p in pats:
            if matches(p, f[2].ast) is not None:
                return True
    return False


def _names(who):
    return sorted(who) if isinstance(who, (set, frozenset, list, tuple)) else [who]


def len1(facts, who, pol):
    """Is `len(who) == 1` known with polarity pol at this point? (who: a name or a set of alias names)"""
    for w in _names(who):
        if _fact(facts, ['len(%s) == 1' % w, 'len(%s.data) == 1' % w], pol):
            return True
        if _fact(facts, ['len(%s) > 1' % w, 'len(%s) != 1' % w], not pol):
            return True
    return False


def leneq(facts, a, b, pol=True):
    for x in _names(a):
        for y in _names(b):
            if _fact(facts, ['len(%s) == len(%s)' % (x, y), 'len(%s.data) == len(%s.data)' % (x, y)], pol) or \
                    _fact(facts, ['len(%s) != len(%s)' % (x, y)], not pol):
                return True
    return False


def check_helper(run, f, rule='R7'):
    """SMUserList.binop / SMPose._op2"""
    fi = FuncInfo.of(f)
    cfg = CFG(f.node)
    facts = must_facts(cfg)
    reach = cfg.reachable()
    # the receiver may be renamed (`left = self`)
    L = f.params[0]
    R = f.params[1]
    aliases = {L}
    for n in own_walk(f.node):
        if isinstance(n, ast.Assign) and isinstance(n.value, ast.Name) and n.value.id == L and \
                len(n.targets) == 1 and isinstance(n.targets[0], ast.Name):
            aliases.add(n.targets[0].id)
    subj = f.key
    seen = {'11': 0, '1M': 0, 'M1': 0, 'MM': 0, 'scalar': 0}

    def lname(e):
        return isinstance(e, ast.Name) and e.id in aliases

    for r in own_returns(f.node):
        node = cfg.node_of(r)
        if node is None or node.id not in reach or r.value is None:
            continue
        fs = facts.get(node.id, frozenset())
        LA = aliases
        e = norm_expr(fi, r.value)
        # after canon, `left` (alias of self) is inlined to the receiver name: use L everywhere
        txt = src(e, 90)
        case = None
        problems = []
        b = None
        for pat, c in (('op(%s.A, %s.A)' % (L, R), '11'), ('[op(%s.A, %s.A)]' % (L, R), '11'),
                       ('[op(%s.A, _X) for _X in %s.A]' % (L, R), '1M'), ('[op(%s.A, _X) for _X in %s.data]' % (L, R), '1M'),
                       ('[op(_X, %s.A) for _X in %s.A]' % (R, L), 'M1'), ('[op(_X, %s.A) for _X in %s.data]' % (R, L), 'M1'),
                       ('[op(_X, _Y) for (_X, _Y) in zip(%s.A, %s.A)]' % (L, R), 'MM'),
                       ('[op(_X, _Y) for (_X, _Y) in zip(%s.data, %s.data)]' % (L, R), 'MM'),
                       ('op(%s.A, %s)' % (L, R), 'scalar'), ('[op(%s.A, %s)]' % (L, R), 'scalar'),
                       ('[op(_X, %s) for _X in %s.A]' % (R, L), 'scalar'), ('[op(_X, %s) for _X in %s.data]' % (R, L), 'scalar')):
            b = matches(pat, e)
            if b is not None:
                case = c
                break
        if case is None:
            # recognise the near-misses that are definite defects
            for pat, what in (('op(%s.A, %s.A)' % (R, L), 'operands swapped in the 1x1 case'),
                              ('[op(%s.A, %s.A)]' % (R, L), 'operands swapped in the 1x1 case'),
                              ('[op(_X, %s.A) for _X in %s.A]' % (L, R), 'operands swapped in the 1xM case'),
                              ('[op(%s.A, _X) for _X in %s.A]' % (R, L), 'operands swapped in the Mx1 case'),
                              ('[op(_Y, _X) for (_X, _Y) in zip(%s.A, %s.A)]' % (L, R), 'operands swapped in the MxM case'),
                              ('[op(_X, _Y) for (_X, _Y) in zip(%s.A, %s.A)]' % (R, L), 'operands swapped in the MxM case'),
                              ('[op(%s, _X) for _X in %s.A]' % (R, L), 'operands swapped in the scalar case'),
                              ('op(%s, %s.A)' % (R, L), 'operands swapped in the scalar case'),
                              ('[op(%s.A, _X) for _X in %s.A]' % (L, L), 'the right operand is not used (iterates the left twice)'),
                              ('[op(_X, _Y) for (_X, _Y) in zip(%s.A, %s.A)]' % (L, L), 'zip pairs the left operand with itself'),
                              ('op(%s.A, %s.A)' % (L, L), 'the right operand is not used'),
                              ('[op(_X, %s.A) for _X in %s.A]' % (L, L), 'the right operand is not used')):
                if matches(pat, e) is not None:
                    run.violation(rule, subj, 'return ' + txt, 'binary helper: %s' % what, f=f, node=r)
                    break
            else:
                # operand roles of every op(a, b) in the returned expression: a derives from the left operand, b from the right one
                # (comprehension variables take the role of what they range over)
                roles = {}
                for g in [g for x in ast.walk(e) if isinstance(x, (ast.ListComp, ast.GeneratorExp)) for g in x.generators]:
                    its = g.iter.args if (isinstance(g.iter, ast.Call) and isinstance(g.iter.func, ast.Name) and g.iter.func.id == 'zip') else [g.iter]
                    tgs = g.target.elts if isinstance(g.target, (ast.Tuple, ast.List)) else [g.target]
                    if len(its) == len(tgs):
                        for t_, it_ in zip(tgs, its):
                            nms = {y.id for y in ast.walk(it_) if isinstance(y, ast.Name)}
                            if isinstance(t_, ast.Name):
                                roles[t_.id] = 'L' if nms & aliases and R not in nms else ('R' if R in nms and not (nms & aliases) else None)

                def role(x):
                    rs = set()
                    for y in ast.walk(x):
                        if isinstance(y, ast.Name):
                            if y.id in aliases:
                                rs.add('L')
                            elif y.id == R:
                                rs.add('R')
                            elif roles.get(y.id):
                                rs.add(roles[y.id])
                    return rs
                verdicts = []
                for c_ in ast.walk(e):
                    if isinstance(c_, ast.Call) and isinstance(c_.func, ast.Name) and c_.func.id == 'op' and len(c_.args) == 2:
                        ra, rb = role(c_.args[0]), role(c_.args[1])
                        if ra == {'R'} and rb == {'L'}:
                            verdicts.append('operands swapped: op(%s) takes the right operand first' % src(c_, 40))
                        elif ra == rb and ra in ({'L'}, {'R'}):
                            verdicts.append('both arguments of %s derive from the %s operand: the other operand is not used' % (src(c_, 40), 'left' if ra == {'L'} else 'right'))
                if verdicts:
                    run.violation(rule, subj, 'return ' + txt, 'binary helper: %s' % verdicts[0], f=f, node=r)
                else:
                    run.error('R7: unrecognised return form in %s: %s' % (f.key, txt))
            continue
        seen[case] += 1
        if case == '11':
            if not (len1(fs, LA, True) and len1(fs, R, True)):
                problems.append('single-value form op(left.A, right.A) is not guarded by len(left)==1 and len(right)==1')
        elif case == '1M':
            if not len1(fs, LA, True):
                problems.append('1xM form not guarded by len(left)==1')
            if len1(fs, R, True):
                problems.append('1xM form under len(right)==1')
        elif case == 'M1':
            if not len1(fs, R, True):
                problems.append('Mx1 form not guarded by len(right)==1')
            if len1(fs, LA, True):
                problems.append('Mx1 form under len(left)==1')
        elif case == 'MM':
            if not leneq(fs, LA, R):
                problems.append('MxM form zips the two sequences without a dominating len(left) == len(right) test: '
                                'operands of different lengths (both > 1) are silently truncated instead of raising '
                                'ValueError')
        elif case == 'scalar':
            sc = _fact(fs, ['isscalar(%s)' % R, 'argcheck.isscalar(%s)' % R, 'base.isscalar(%s)' % R], True) or \
                any(f_[1] and ('isscalar(%s)' % R) in ast.unparse(f_[2].ast) for f_ in fs)
            if not sc:
                problems.append('scalar form not guarded by isscalar(right)')
            multi = isinstance(e, ast.ListComp)
            if multi and len1(fs, LA, True):
                problems.append('per-element scalar form under len(left)==1')
        if problems:
            for p in problems:
                run.violation(rule, subj, 'return ' + txt, 'binary helper: ' + p, f=f, node=r)
        else:
            run.holds(rule, subj, 'return ' + txt, 'case %s: guards and operand order as tabulated' % case, f=f, node=r)
    for c in ('11', '1M', 'M1', 'MM'):
        if seen[c] == 0:
            run.violation(rule, subj, 'case ' + c, 'binary helper has no branch for the %s length case' % c, f=f)
    # ValueError for unequal lengths
    has_raise = False
    for n in cfg.nodes:
        if n.kind == 'raiseS' and n.id in reach:
            fs = facts.get(n.id, frozenset())
            ex = n.ast.exc
            nm = ex.func.id if isinstance(ex, ast.Call) and isinstance(ex.func, ast.Name) else (ex.id if isinstance(ex, ast.Name) else '')
            if nm == 'ValueError' and len1(fs, aliases, False) and len1(fs, R, False) and leneq(fs, aliases, R, False):
                has_raise = True
    if has_raise:
        run.holds(rule, subj, 'unequal lengths', 'ValueError raised when both lengths > 1 and different', f=f)
    else:
        run.violation(rule, subj, 'unequal lengths', 'no `raise ValueError` under len(left)!=1, len(right)!=1, '
                      'len(left)!=len(right): operands of two different lengths both > 1 do not raise ValueError', f=f)


BIN_DUNDERS = {'__mul__', '__rmul__', '__truediv__', '__rtruediv__', '__add__', '__radd__', '__sub__', '__rsub__',
               '__pow__', '__matmul__', '__rmatmul__', '__eq__', '__ne__', '__xor__', '__or__', '__and__',
               '__imul__', '__itruediv__', '__iadd__', '__isub__', '__ipow__'}


def _deps(fi, cfg, IN, node, expr):
    """Parameter names the value of expr (evaluated at node) depends on, through local definitions.
    Occurrences inside isinstance()/type()/issubclass() do not count."""
    params = set(fi.f.allparams)
    seen = set()
    out = set()

    def names_of(e):
        res = []

        def walk(n):
            if isinstance(n, ast.Call) and isinstance(n.func, ast.Name) and n.func.id in ('isinstance', 'type', 'issubclass'):
                return
            if isinstance(n, ast.Name) and isinstance(n.ctx, ast.Load):
                res.append(n.id)
            for c in ast.iter_child_nodes(n):
                walk(c)
        walk(e)
        return res

    work = [(node.id, nm) for nm in names_of(expr)]
    while work:
        nid, nm = work.pop()
        if (nid, nm) in seen:
            continue
        seen.add((nid, nm))
        defs = [d for (x, d) in IN.get(nid, ()) if x == nm]
        if not defs:
            if nm in params:
                out.add(nm)
            continue
        for d in defs:
            if d == cfg.entry.id:
                if nm in params:
                    out.add(nm)
                continue
            dn = cfg.nodes[d]
            for h in header_expr(dn):
                if isinstance(h, (ast.Assign, ast.AugAssign, ast.AnnAssign)):
                    v = h.value
                    if v is not None:
                        for x in names_of(v):
                            work.append((d, x))
                    if isinstance(h, ast.AugAssign):
                        for x in names_of(h.target):
                            work.append((d, x))
                elif isinstance(h, ast.expr):
                    for x in names_of(h):
                        work.append((d, x))
            if dn.kind == 'for':
                for x in names_of(dn.ast.iter):
                    work.append((d, x))
    return out


def check_dunder_deps(run, f, rule='R7'):
    if len(f.params) < 2:
        return
    fi = FuncInfo.of(f)
    cfg = CFG(f.node)
    IN, OUT = reaching_defs(cfg, f.allparams)
    reach = cfg.reachable()
    a, b = f.params[0], f.params[1]
    nret = 0
    bad = []
    for r in own_returns(f.node):
        n = cfg.node_of(r)
        if n is None or n.id not in reach or r.value is None:
            continue
        if isinstance(r.value, ast.Constant) or (isinstance(r.value, ast.Name) and r.value.id in ('NotImplemented', 'NotImplementedError')):
            continue
        nret += 1
        d = _deps(fi, cfg, IN, n, r.value)
        miss = [p for p in (a, b) if p not in d]
        if miss:
            bad.append((r, miss))
    if bad:
        for r, miss in bad:
            run.violation(rule, f.key, 'return ' + src(r.value, 80),
                          'result of the binary operator does not depend on operand %s (used at most in a type test)'
                          % ', '.join(miss), f=f, node=r)
    elif nret:
        run.holds(rule, f.key, 'operand dependence', '%d value returns depend on both operands' % nret, f=f)


def _squared_norm(e, f):
    """text of e when it is a squared length: normsq(x), dot(x, x), x @ x, sum(x ** 2), sum(x * x), norm(x) ** 2 -- also through one local"""
    from ..astutil import single_assignments
    if isinstance(e, ast.Name):
        sa = single_assignments(f.node)
        if e.id in sa:
            e = sa[e.id]
    t = ast.unparse(e)
    if isinstance(e, ast.Call):
        fn = e.func.attr if isinstance(e.func, ast.Attribute) else (e.func.id if isinstance(e.func, ast.Name) else '')
        if fn == 'normsq':
            return t
        if fn in ('dot', 'inner', 'vdot') and len(e.args) == 2 and ast.dump(e.args[0]) == ast.dump(e.args[1]):
            return t
        if fn == 'sum' and e.args and isinstance(e.args[0], ast.BinOp) and (
                (isinstance(e.args[0].op, ast.Pow) and isinstance(e.args[0].right, ast.Constant) and e.args[0].right.value == 2) or
                (isinstance(e.args[0].op, ast.Mult) and ast.dump(e.args[0].left) == ast.dump(e.args[0].right))):
            return t
    if isinstance(e, ast.BinOp) and isinstance(e.op, ast.MatMult) and ast.dump(e.left) == ast.dump(e.right):
        return t
    if isinstance(e, ast.BinOp) and isinstance(e.op, ast.Pow) and isinstance(e.right, ast.Constant) and e.right.value == 2 and isinstance(e.left, ast.Call):
        fn = e.left.func.attr if isinstance(e.left.func, ast.Attribute) else (e.left.func.id if isinstance(e.left.func, ast.Name) else '')
        if fn == 'norm':
            return t
    return None


def _linear_eps(e):
    """text of e when it is k * eps (one factor of the machine epsilon, not squared)"""
    names = [y.id for y in ast.walk(e) if isinstance(y, ast.Name)] + [y.attr for y in ast.walk(e) if isinstance(y, ast.Attribute)]
    if not any(nm in ('_eps', 'eps', 'EPS') for nm in names):
        return None
    if any(isinstance(y, ast.Pow) for y in ast.walk(e)):
        return None
    if isinstance(e, ast.BinOp) and isinstance(e.op, ast.Mult) and ast.dump(e.left) == ast.dump(e.right):
        return None
    return ast.unparse(e)


def check_duplicates(run, f, rule='R7'):
    n = 0
    found = False
    for x in own_walk(f.node):
        if isinstance(x, ast.BoolOp):
            n += 1
            txt = [ast.unparse(v) for v in x.values]
            if len(set(txt)) < len(txt):
                found = True
                run.violation(rule, f.key, 'duplicate operand ' + src(x, 80),
                              'boolean operator has two identical operands (one of them was meant to test the other '
                              'operand)', f=f, node=x)
        elif isinstance(x, ast.Compare) and len(x.ops) == 1 and isinstance(x.ops[0], (ast.Eq, ast.NotEq, ast.Is, ast.IsNot)):
            n += 1
            if ast.unparse(x.left) == ast.unparse(x.comparators[0]) and not isinstance(x.left, ast.Constant):
                found = True
                run.violation(rule, f.key, 'self comparison ' + src(x, 80), 'comparison of an expression with itself', f=f, node=x)
        elif isinstance(x, ast.BinOp) and isinstance(x.op, (ast.Sub, ast.Div, ast.FloorDiv, ast.Mod, ast.BitXor)) and not isinstance(x.left, ast.Constant):
            n += 1
            if ast.dump(x.left) == ast.dump(x.right):
                found = True
                run.violation(rule, f.key, 'constant expression ' + src(x, 60), 'both operands of %s are the same expression: the value is 0 / 1 whatever the '
                              'input (one of them was meant to be the other operand)' % {'Sub': '-', 'Div': '/', 'FloorDiv': '//', 'Mod': '%', 'BitXor': '^'}[type(x.op).__name__],
                              f=f, node=x)
        elif isinstance(x, ast.Compare) and len(x.ops) == 1 and isinstance(x.ops[0], (ast.Lt, ast.LtE, ast.Gt, ast.GtE)) and not isinstance(x.left, ast.Constant):
            n += 1
            sq = _squared_norm(x.left, f) or _squared_norm(x.comparators[0], f)
            lin = _linear_eps(x.comparators[0]) if _squared_norm(x.left, f) else _linear_eps(x.left)
            if sq and lin:
                found = True
                run.violation(rule, f.key, 'squared length against a length tolerance ' + src(x, 60), 'a SQUARED length (%s) is compared with a tolerance that is '
                              'linear in eps (%s): the effective threshold on the length is sqrt(k eps) ~ 1e-7 instead of k eps ~ 1e-14, so short non-zero '
                              'vectors are taken for zero' % (sq, lin), f=f, node=x)
            if ast.dump(x.left) == ast.dump(x.comparators[0]):
                found = True
                run.violation(rule, f.key, 'self comparison ' + src(x, 80), 'comparison of an expression with itself', f=f, node=x)
        elif isinstance(x, ast.Call) and isinstance(x.func, ast.Name) and x.func.id in ('isinstance', 'issubclass') and len(x.args) == 2 and \
                isinstance(x.args[1], ast.Name) and x.args[1].id in f.allparams and x.args[1].id not in ('cls', 'klass', 'type_', 'types') and \
                x.func.id == 'isinstance':
            # isinstance(<a type>, <a value>): the arguments are exchanged -- TypeError as soon as the test is reached
            n += 1
            a0 = x.args[0]
            fi_ = FuncInfo.of(f)
            t0 = fi_.resolve(a0) if isinstance(a0, (ast.Name, ast.Attribute)) else None
            is_type = t0 is not None and (t0.kind in ('class', 'selfclass') or (t0.kind == 'external' and str(t0.obj).split('.')[-1] in
                                          ('ndarray', 'integer', 'floating', 'number', 'generic', 'Expr', 'Symbol', 'Matrix')) or
                                          (t0.kind == 'builtin' and str(t0.obj) in ('int', 'float', 'list', 'tuple', 'str', 'dict', 'set', 'bool', 'complex')))
            if is_type and not (isinstance(a0, ast.Name) and a0.id in f.allparams):
                found = True
                run.violation(rule, f.key, 'exchanged arguments ' + src(x, 60), 'isinstance is given the type %s as the object and the parameter %r as the type: '
                              'the test raises TypeError (arg 2 must be a type) whenever it is reached' % (src(a0, 30), x.args[1].id), f=f, node=x)
        elif isinstance(x, ast.Call) and len(x.args) == 2 and not x.keywords and not isinstance(x.args[0], ast.Constant):
            nm = x.func.attr if isinstance(x.func, ast.Attribute) else (x.func.id if isinstance(x.func, ast.Name) else '')
            if nm in ('atan2', 'arctan2', 'cross', 'subtract', 'isclose', 'allclose', 'array_equal'):
                n += 1
                if ast.dump(x.args[0]) == ast.dump(x.args[1]):
                    found = True
                    run.violation(rule, f.key, 'constant expression ' + src(x, 60), 'both arguments of %s are the same expression: the result does not depend on '
                                  'the input as intended' % nm, f=f, node=x)
        elif isinstance(x, (ast.ListComp, ast.GeneratorExp, ast.SetComp)):
            # every variable unpacked from a zip / tuple target of the comprehension is used by the element expression
            for g in x.generators:
                if isinstance(g.target, (ast.Tuple, ast.List)) and len(g.target.elts) >= 2 and all(isinstance(t, ast.Name) for t in g.target.elts):
                    n += 1
                    used = {y.id for y in ast.walk(x.elt) if isinstance(y, ast.Name)} | {y.id for c in g.ifs for y in ast.walk(c) if isinstance(y, ast.Name)} | \
                        {y.id for g2 in x.generators if g2 is not g for y in ast.walk(g2.iter) if isinstance(y, ast.Name)}
                    unused = [t.id for t in g.target.elts if t.id not in used and not t.id.startswith('_')]
                    if unused:
                        found = True
                        run.violation(rule, f.key, 'unused element ' + src(x, 60), 'the comprehension unpacks %s from its iterable but the element expression does '
                                      'not use %s: one of the paired sequences has no influence on the result' % (', '.join(t.id for t in g.target.elts),
                                                                                                              '/'.join(unused)), f=f, node=x)
    # an if / elif chain that tests the same condition twice: the second arm can never be taken (one of the two tests was meant to be another)
    from ..astutil import if_chain
    seen_chain = set()
    for x in own_walk(f.node):
        if isinstance(x, ast.If) and id(x) not in seen_chain:
            arms, els = if_chain(x)
            node_ = x
            while True:
                seen_chain.add(id(node_))
                if len(node_.orelse) == 1 and isinstance(node_.orelse[0], ast.If):
                    node_ = node_.orelse[0]
                else:
                    break
            if len(arms) >= 2:
                n += 1
                tests = [ast.dump(t) for (t, _) in arms if t is not None]
                for i_, t_ in enumerate(tests):
                    if t_ in tests[:i_] and not any(isinstance(y, ast.Call) for y in ast.walk(arms[i_][0])):
                        found = True
                        run.violation(rule, f.key, 'repeated test ' + src(arms[i_][0], 40), 'the chain tests `%s` twice: the second arm is unreachable, so the case '
                                      'it was written for falls into the first arm (or into the else)' % src(arms[i_][0], 40), f=f, node=arms[i_][0])
                        break
    # distinct locals that read the SAME constant-indexed element / row / column of one array (v2 = p[:, 1]; v3 = p[:, 1]): one of the
    # elements meant to be read is never read
    sel = {}
    for x in own_walk(f.node):
        if isinstance(x, ast.Assign) and len(x.targets) == 1 and isinstance(x.targets[0], ast.Name) and isinstance(x.value, ast.Subscript) \
                and isinstance(x.value.value, ast.Name) and any(isinstance(c, ast.Constant) and isinstance(c.value, int) for c in ast.walk(x.value.slice)) \
                and not any(isinstance(c, ast.Name) for c in ast.walk(x.value.slice)):
            sel.setdefault(ast.dump(x.value), []).append(x)
    for d, sts in sel.items():
        names = {st.targets[0].id for st in sts}
        if len(names) > 1:
            n += 1
            found = True
            run.violation(rule, f.key, 'duplicate selection ' + src(sts[0].value, 30), 'the locals %s are all bound to %s: one of the elements that were '
                          'meant to be read is never read' % (', '.join(sorted(names)), src(sts[0].value, 30)), f=f, node=sts[1])
    if sel:
        n += 1
    if n and not found:
        run.holds(rule, f.key, 'duplicate-operand lint', '%d boolean / comparison / difference / paired expressions, none with identical or unused operands' % n, f=f)


def run_r7(run, helpers=True, dunders=True, rule='R7'):
    prog = run.prog
    if helpers:
        check_helper(run, prog.func('smuserlist:SMUserList.binop'))
        check_helper(run, prog.func('super_pose:SMPose._op2'))
        check_helper_operand_order(run)
    if dunders:
        for f in prog.analysed_functions():
            if f.cls is not None and f.name in BIN_DUNDERS and f.parent is None:
                check_dunder_deps(run, f)
                check_duplicates(run, f)


SYMMETRIC_OPS = ('isequal', 'inner', 'allclose', 'array_equal')


def _symmetric_op(op):
    """the element operation gives the same result with its operands exchanged (+, ==, != , inner products, equality tests)"""
    if isinstance(op, (ast.Name, ast.Attribute)):
        nm = op.id if isinstance(op, ast.Name) else op.attr
        return nm in SYMMETRIC_OPS
    if isinstance(op, ast.Lambda) and len(op.args.args) == 2:
        a, b = op.args.args[0].arg, op.args.args[1].arg
        body = op.body
        while isinstance(body, ast.UnaryOp) and isinstance(body.op, ast.Not):
            body = body.operand
        if isinstance(body, ast.Call) and body.args and isinstance(body.func, (ast.Name, ast.Attribute)):
            nm = body.func.id if isinstance(body.func, ast.Name) else body.func.attr
            if nm == 'all' and len(body.args) == 1:
                body = body.args[0]
            elif nm in SYMMETRIC_OPS and len(body.args) >= 2 and {getattr(x, 'id', None) for x in body.args[:2]} == {a, b}:
                return True
        if isinstance(body, ast.BinOp) and isinstance(body.op, (ast.Add, ast.Mult)) and not isinstance(body.op, ast.MatMult):
            ids = {getattr(body.left, 'id', None), getattr(body.right, 'id', None)}
            # x + y is symmetric; x * y only for element-wise products of arrays/scalars (both plain names)
            return ids == {a, b} and isinstance(body.op, ast.Add)
        if isinstance(body, ast.Compare) and len(body.ops) == 1 and isinstance(body.ops[0], (ast.Eq, ast.NotEq)):
            return {getattr(body.left, 'id', None), getattr(body.comparators[0], 'id', None)} == {a, b}
    return False


def check_helper_operand_order(run, rule='R7o'):
    """A forward binary operator hands its operands to the broadcasting helper in order: the receiver of .binop / ._op2 is the
    method's own first parameter (the LEFT operand) and the helper's argument is (derived from) the second one.  With the
    receiver and the argument exchanged the helper computes op(right_i, left_i): for a non-symmetric element operation
    (qqmul, @, -, /, composition through exp/log) that is the product in the wrong order."""
    prog = run.prog
    n = 0
    for f in prog.analysed_functions():
        if f.cls is None or f.parent is not None or f.name not in BIN_DUNDERS or len(f.params) < 2:
            continue
        # reflected methods: self is the right operand and the helper call is on self by construction -- only the element operation
        # is looked at there
        reflected = f.name.startswith('__r') and f.name not in ('__repr__',) and '__' + f.name[3:] in BIN_DUNDERS
        p0, p1 = f.params[0], f.params[1]
        for c in own_walk(f.node):
            if not (isinstance(c, ast.Call) and isinstance(c.func, ast.Attribute) and c.func.attr in ('binop', '_op2') and c.args):
                continue
            if reflected:
                op_ = c.args[1] if len(c.args) > 1 else None
                if isinstance(op_, ast.Lambda) and len(op_.args.args) == 2:
                    used_ = {x.id for x in ast.walk(op_.body) if isinstance(x, ast.Name)}
                    miss_ = [a.arg for a in op_.args.args if a.arg not in used_]
                    if miss_:
                        run.violation(rule, f.key, 'element operation ' + src(op_, 50), 'the element operation ignores its argument %s: the result does not '
                                      'depend on one of the operands' % miss_[0], f=f, node=c)
                    else:
                        run.holds(rule, f.key, 'element operation ' + src(op_, 50), 'uses both of its arguments', f=f, node=c)
                continue
            n += 1
            recv, arg = c.func.value, c.args[0]
            op = c.args[1] if len(c.args) > 1 else None
            if isinstance(op, ast.Lambda) and len(op.args.args) == 2:
                used = {x.id for x in ast.walk(op.body) if isinstance(x, ast.Name)}
                missing = [a.arg for a in op.args.args if a.arg not in used]
                if missing:
                    run.violation(rule, f.key, 'element operation ' + src(op, 50), 'the element operation ignores its %s argument (%s): the result does not '
                                  'depend on the %s operand' % ('first' if missing[0] == op.args.args[0].arg else 'second', missing[0],
                                                                'left' if missing[0] == op.args.args[0].arg else 'right'), f=f, node=c)
                    continue
            names_arg = {x.id for x in ast.walk(arg) if isinstance(x, ast.Name)}
            construct = src(c, 60)
            if isinstance(recv, ast.Name) and recv.id == p0 and p1 in names_arg and p0 not in names_arg:
                run.holds(rule, f.key, construct, 'helper receives (left, right) in order', f=f, node=c)
            elif isinstance(recv, ast.Name) and recv.id == p1 and p0 in names_arg:
                if op is not None and _symmetric_op(op):
                    run.holds(rule, f.key, construct, 'operands exchanged, element operation is symmetric', f=f, node=c)
                else:
                    run.violation(rule, f.key, construct, 'the broadcasting helper is called on the RIGHT operand with the left one as its argument: it '
                                  'computes op(%s_i, %s_i), i.e. the element operation %s with its operands in the wrong order (a non-commutative '
                                  'product is reversed)' % (p1, p0, src(op, 30) if op is not None else ''), f=f, node=c)
            else:
                run.undecided(rule, f.key, construct, 'receiver / argument of the helper call are not the two operands', f=f, node=c)
    # delegation of the SAME operator to another implementation keeps the operands in order: Base.__mul__(left, right),
    # left.__mul__(right), super().__mul__(right); with the two exchanged a non-commutative product is reversed
    NONCOMM = {'__mul__', '__matmul__', '__truediv__', '__sub__', '__pow__', '__floordiv__'}
    for f in prog.analysed_functions():
        if f.cls is None or f.parent is not None or f.name not in NONCOMM or len(f.params) < 2:
            continue
        p0, p1 = f.params[0], f.params[1]
        for c in own_walk(f.node):
            if not (isinstance(c, ast.Call) and isinstance(c.func, ast.Attribute) and c.func.attr == f.name):
                continue
            a = b = None
            recv = c.func.value
            if isinstance(recv, ast.Name) and recv.id in (p0, p1) and len(c.args) == 1:
                a, b = recv, c.args[0]                                    # x.__mul__(y)
            elif len(c.args) == 2 and not (isinstance(recv, ast.Name) and recv.id in (p0, p1)):
                a, b = c.args[0], c.args[1]                               # Base.__mul__(x, y)
            if not (isinstance(a, ast.Name) and isinstance(b, ast.Name)):
                continue
            construct = 'delegation ' + src(c, 50)
            if a.id == p0 and b.id == p1:
                run.holds(rule, f.key, construct, 'the same operator is delegated with (left, right) in order', f=f, node=c)
            elif a.id == p1 and b.id == p0:
                run.violation(rule, f.key, construct, '%s delegates to another implementation of the same operator with its operands exchanged: the result is '
                              '%s %s %s, not %s %s %s (the product does not commute)' % (f.name, p1, f.name.strip('_'), p0, p0, f.name.strip('_'), p1), f=f, node=c)
    if n < 20:
        run.error('R7o: only %d helper calls in forward binary operators found (expected >= 20)' % n)
    return n
