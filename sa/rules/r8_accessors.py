"""R8 -- per-value accessors of multi-valued objects: length guards, element kinds, branch agreement.

Kinds: `self.data` is List[Arr]; `self.A`, `self._A`, `self.S`, the result of `_op2(...)`, of `binop(..., list1=False)`
and of `left == right` (when the class's __eq__ returns a helper result) are SINGLE-OR-LIST: one array/value when the
object holds one value, a list otherwise.  An array-only use of a single-or-list value needs a dominating
len(self)==1 fact; iterating one needs a dominating len(self)!=1 fact.  Iterating `self` yields objects of the class,
iterating `self.data` yields ndarrays."""
import ast

from ..model import Function
from ..scope import FuncInfo
from ..cfg import CFG, must_facts, header_expr
from ..callgraph import own_walk, closure
from ..astutil import src, ctarget, body_nodoc, if_chain
from ..pattern import canon, matches
from .r7_binary import len1

NDARRAY_ATTRS = {'T', 'shape', 'dtype', 'flatten', 'diagonal', 'reshape', 'copy', 'ndim', 'size', 'astype', 'tolist',
                 'real', 'imag', 'conj', 'dot', 'sum', 'ravel', 'squeeze', 'trace', 'argmax', 'max', 'min', 'all',
                 'any', 'transpose', 'item', 'flat', 'fill', 'mean', 'round', 'view', '__repr__', '__class__', '__len__'}

ACCESSORS = [
    'pose3d:SO3.R', 'pose3d:SO3.inv', 'pose3d:SO3.eul', 'pose3d:SO3.rpy', 'pose3d:SE3.t', 'pose3d:SE3.inv',
    'pose2d:SO2.inv', 'pose2d:SO2.R', 'pose2d:SO2.theta', 'pose2d:SE2.t', 'pose2d:SE2.xyt', 'pose2d:SE2.inv',
    'quaternion:Quaternion.s', 'quaternion:Quaternion.v', 'quaternion:Quaternion.vec', 'quaternion:Quaternion.conj',
    'quaternion:Quaternion.norm', 'quaternion:Quaternion.unit', 'quaternion:Quaternion.__pow__',
    'quaternion:UnitQuaternion.R', 'quaternion:UnitQuaternion.rpy', 'quaternion:UnitQuaternion.eul',
    'quaternion:UnitQuaternion.inv',
    'super_pose:SMPose.det', 'super_pose:SMPose.log', 'super_pose:SMPose.interp', 'super_pose:SMPose.norm',
    'super_pose:SMPose.prod', 'super_pose:SMPose.__pow__', 'super_pose:SMPose.__ne__', 'super_pose:SMPose.__eq__',
    'twist:SMTwist.isprismatic', 'twist:SMTwist.isrevolute', 'twist:SMTwist.isunit', 'twist:SMTwist.inv',
    'twist:Twist3.se3', 'twist:Twist2.se2', 'twist:Twist3.exp', 'twist:Twist2.exp',
    'smuserlist:SMUserList.unop',
]


def _is_sol_attr(e, selfs):
    return isinstance(e, ast.Attribute) and e.attr in ('A', '_A', 'S') and isinstance(e.value, ast.Name) and e.value.id in selfs


def _eq_returns_helper(prog, cls):
    k, mem = prog.lookup_member(cls, '__eq__')
    if not isinstance(mem, Function) or mem.module.short == 'stdlib/collections':
        return False
    for n in own_walk(mem.node):
        if isinstance(n, ast.Return) and isinstance(n.value, ast.Call) and isinstance(n.value.func, ast.Attribute) \
                and n.value.func.attr in ('_op2', 'binop'):
            return True
    return False


def sol_kind(e, f, fi, selfs):
    """Is expression e of kind single-or-list (w.r.t. the receiver's length)? -> description or None"""
    if _is_sol_attr(e, selfs):
        return 'self.' + e.attr
    if isinstance(e, ast.Call) and isinstance(e.func, ast.Attribute) and isinstance(e.func.value, ast.Name) \
            and e.func.value.id in selfs:
        if e.func.attr == '_op2':
            return '_op2 result'
        if e.func.attr == 'binop':
            for kw in e.keywords:
                if kw.arg == 'list1' and isinstance(kw.value, ast.Constant) and kw.value.value is False:
                    return 'binop(list1=False) result'
    if isinstance(e, ast.Compare) and len(e.ops) == 1 and isinstance(e.ops[0], ast.Eq) and \
            isinstance(e.left, ast.Name) and e.left.id in selfs and f.cls is not None:
        prog = fi.prog
        subs = prog.concrete_subclasses(f.cls) or [f.cls]
        if all(_eq_returns_helper(prog, c) for c in subs):
            return 'result of == (helper result: one value for single-valued operands)'
    return None


def check_accessor(run, f, rule='R8', extra_objs=(), skip_self=False):
    """extra_objs: parameter names that hold list-capable objects of the library as well (operands of an operator): their .A
    is single-or-list with respect to THEIR length"""
    fi = FuncInfo.of(f)
    prog = run.prog
    selfs = ({f.selfname} if (f.selfname and not skip_self) else set()) | set(extra_objs)
    if not selfs:
        return
    s = f.selfname
    cfg = CFG(f.node)
    facts = must_facts(cfg)
    reach = cfg.reachable()
    subj = f.key
    n_ob = 0
    # map every expression node to its CFG node
    owner = {}
    for node in cfg.nodes:
        if node.id not in reach:
            continue
        for h in header_expr(node):
            if h is None:
                continue
            for x in ast.walk(h):
                owner.setdefault(id(x), node)
    parents = {}
    for x in own_walk(f.node):
        for c in ast.iter_child_nodes(x):
            parents[id(c)] = x
    for x in own_walk(f.node):
        k = sol_kind(x, f, fi, selfs) if isinstance(x, ast.expr) else None
        if k is None:
            continue
        node = owner.get(id(x))
        if node is None:
            continue
        fs = facts.get(node.id, frozenset())
        par = parents.get(id(x))
        use = None
        if isinstance(par, ast.Subscript) and par.value is x:
            use = 'array'
            what = 'subscript ' + src(par, 50)
        elif isinstance(par, ast.Attribute) and par.value is x and par.attr in NDARRAY_ATTRS:
            use = 'array'
            what = 'attribute ' + src(par, 50)
        elif isinstance(par, ast.BinOp) and isinstance(par.op, ast.MatMult):
            use = 'array'
            what = 'operand of @ in ' + src(par, 50)
        elif isinstance(par, ast.BinOp) and isinstance(par.op, (ast.Mult, ast.Add, ast.Sub, ast.Div)):
            use = 'array'
            what = 'element-wise arithmetic ' + src(par, 50)
        elif isinstance(par, ast.UnaryOp) and isinstance(par.op, ast.USub):
            use = 'array'
            what = 'negation ' + src(par, 50)
        elif isinstance(par, ast.List) and any(el is x for el in par.elts):
            use = 'array'
            what = 'element of the list display ' + src(par, 40)
        elif isinstance(par, ast.comprehension) and par.iter is x:
            use = 'iter'
            what = 'iteration `for ... in %s`' % src(x, 40)
        elif isinstance(par, ast.For) and par.iter is x:
            use = 'iter'
            what = 'iteration `for ... in %s`' % src(x, 40)
        elif isinstance(par, ast.Call) and x in par.args and isinstance(par.func, ast.Name) and par.func.id == 'zip':
            use = 'iter'
            what = 'iteration through zip(%s)' % src(x, 40)
        elif isinstance(par, ast.Call) and x in par.args:
            t = ctarget(fi, par)
            if t is not None and t.module.short.startswith('base/'):
                use = 'array'
                what = 'argument of %s' % t.name
            elif isinstance(par.func, ast.Attribute) and par.func.attr in ('det', 'matrix_power', 'norm', 'inv'):
                use = 'array'
                what = 'argument of ' + par.func.attr
        if use is None:
            continue
        n_ob += 1
        construct = '%s: %s' % (k, what)
        # the object whose length decides: the receiver, or the operand the value was read from
        s_obj = s
        for y in ast.walk(x):
            if isinstance(y, ast.Name) and y.id in selfs:
                s_obj = y.id
                break
        if use == 'array':
            if len1(fs, s_obj, True):
                run.holds(rule, subj, construct, 'array-only use under len(self)==1', f=f, node=x)
            else:
                run.violation(rule, subj, construct, '%s is used as a single array (%s) without a dominating '
                              'len(self)==1 test: for an object holding M>1 values it is a list of arrays'
                              % (k, what), f=f, node=x)
        else:
            if len1(fs, s_obj, False):
                run.holds(rule, subj, construct, 'iterated under len(self)!=1', f=f, node=x)
            else:
                run.violation(rule, subj, construct, '%s is iterated (%s) without a dominating len(self)!=1 test: '
                              'for a single-valued object it is one array/value, so the loop runs over its rows '
                              '(or fails for a scalar)' % (k, what), f=f, node=x)
    # (ii) element kinds in comprehensions / loops
    for x in own_walk(f.node):
        gens = []
        if isinstance(x, (ast.ListComp, ast.GeneratorExp, ast.SetComp)):
            gens = [(g.target, g.iter, [x.elt]) for g in x.generators]
        elif isinstance(x, ast.For):
            gens = [(x.target, x.iter, x.body)]
        for (tgt, it, bodies) in gens:
            if not isinstance(tgt, ast.Name):
                continue
            kind = None
            if isinstance(it, ast.Name) and it.id in selfs:
                kind = 'obj'
            elif isinstance(it, ast.Attribute) and isinstance(it.value, ast.Name) and it.value.id in selfs \
                    and it.attr in ('data', 'A', '_A', 'S'):
                kind = 'arr'
            if kind is None:
                continue
            v = tgt.id
            used = any(isinstance(y, ast.Name) and y.id == v for b in bodies for y in ast.walk(b))
            if not used and not v.startswith('_'):
                n_ob += 1
                run.violation(rule, subj, 'loop variable %s unused' % v, 'the per-element branch iterates %s but never uses the element %r: '
                              'every result is computed from the same value' % (src(it), v), f=f, node=x)
            for b in bodies:
                for y in ast.walk(b):
                    if isinstance(y, ast.Attribute) and isinstance(y.value, ast.Name) and y.value.id == v:
                        if kind == 'arr' and y.attr not in NDARRAY_ATTRS:
                            n_ob += 1
                            resolves = f.cls is not None and any(
                                prog.lookup_member(c, y.attr)[1] is not None for c in prog.subclasses(f.cls))
                            if resolves:
                                run.violation(rule, subj, 'element attribute %s.%s' % (v, y.attr),
                                              '%s iterates %s, whose elements are ndarrays, but uses .%s, an attribute of '
                                              'the class (AttributeError for every multi-valued object)'
                                              % (src(it), src(it), y.attr), f=f, node=y)
                            else:
                                run.undecided(rule, subj, 'element attribute %s.%s' % (v, y.attr),
                                              'attribute of an ndarray element not in the known ndarray attribute set', f=f, node=y)
                        elif kind == 'obj' and y.attr == 'T':
                            n_ob += 1
                            run.violation(rule, subj, 'element attribute %s.T' % v, 'elements of iter(self) are objects of '
                                          'the class, not arrays: .T is not defined on them', f=f, node=y)
                        else:
                            n_ob += 1
                            run.holds(rule, subj, 'element attribute %s.%s' % (v, y.attr), 'consistent with element kind %s' % kind, f=f, node=y)
                    elif isinstance(y, ast.Subscript) and isinstance(y.value, ast.Name) and y.value.id == v and kind == 'obj' \
                            and isinstance(y.slice, ast.Tuple):
                        n_ob += 1
                        run.violation(rule, subj, 'element subscript ' + src(y, 40), 'elements of iter(self) are objects: a '
                                      'tuple subscript is an array operation', f=f, node=y)
    # (ii') stacking orientation: the per-element branch of an accessor stacks one result per element along axis 0, so that
    # result[i] is the value of element i (documented shape (N, k)); a trailing .T makes axis 0 the component index
    if not f.name.startswith('__'):
        for x in own_walk(f.node):
            if isinstance(x, ast.Return) and x.value is not None:
                e = canon(fi, x.value, inline=False)
                if matches('array([_E for _X in _IT]).T', e) is not None or matches('vstack([_E for _X in _IT]).T', e) is not None:
                    it = (matches('array([_E for _X in _IT]).T', e) or matches('vstack([_E for _X in _IT]).T', e))['_IT']
                    over_self = any(isinstance(y, ast.Name) and y.id in selfs for y in ast.walk(it))
                    if over_self:
                        n_ob += 1
                        run.violation(rule, subj, 'stacking orientation ' + src(x.value, 50), 'the per-element results are stacked and then '
                                      'transposed: result[i] is component i of every element, not the value of element i (the documented '
                                      'shape for N values is (N, k)); for N = k the two are silently confused', f=f, node=x)
    # (iii) branch agreement
    body = body_nodoc(f.node)
    for st in body:
        if isinstance(st, ast.If):
            arms, els = if_chain(st)
            if len(arms) == 1 and els is not None and matches('len(%s) == 1' % s, canon(fi, arms[0][0])) is not None:
                c1 = _kernel_calls(fi, arms[0][1])
                c2 = _kernel_calls(fi, els)
                if c1 and c2:
                    n_ob += 1
                    (k1, kw1), (k2, kw2) = c1[0], c2[0]
                    if k1.key != k2.key:
                        run.violation(rule, subj, 'branch agreement', 'single-value branch calls %s but the per-element '
                                      'branch calls %s' % (k1.name, k2.name), f=f, node=st)
                    elif kw1 != kw2:
                        run.violation(rule, subj, 'branch agreement', 'single-value branch passes %s to %s but the '
                                      'per-element branch passes %s' % (_kw(kw1), k1.name, _kw(kw2)), f=f, node=st)
                    else:
                        run.holds(rule, subj, 'branch agreement', 'both branches call %s with %s' % (k1.name, _kw(kw1) or 'no options'), f=f, node=st)
    # (iv) element agreement: the single-value branch returns E(self.A) and the per-element branch W([E'(x) for x in self.A]): E' is E with
    # the element in place of the whole value (same subscripts, same callee, same arguments)
    for st in [x for x in own_walk(f.node) if isinstance(x, ast.If)]:
        if isinstance(st, ast.If):
            arms, els = if_chain(st)
            if not (len(arms) == 1 and els is not None and matches('len(%s) == 1' % s, canon(fi, arms[0][0])) is not None):
                continue
            r1 = [x for x in arms[0][1] if isinstance(x, ast.Return) and x.value is not None]
            r2 = [x for x in els if isinstance(x, ast.Return) and x.value is not None]
            if len(r1) != 1 or len(r2) != 1 or len(arms[0][1]) != 1 or len(els) != 1:
                continue
            e1 = canon(fi, r1[0].value, inline=False)
            e2 = canon(fi, r2[0].value, inline=False)
            comp = None
            for y in ast.walk(e2):
                if isinstance(y, (ast.ListComp, ast.GeneratorExp)) and len(y.generators) == 1 and isinstance(y.generators[0].target, ast.Name):
                    comp = y
                    break
            if comp is None:
                continue
            g = comp.generators[0]
            xv = g.target.id
            it = g.iter
            whole = None
            for cand in ('%s.A' % s, '%s._A' % s, '%s.data' % s, s):
                if matches(cand, it) is not None:
                    whole = cand
            if whole is None:
                continue

            class Sub(ast.NodeTransformer):
                def visit_Attribute(self2, n_):
                    if whole != s and isinstance(n_.value, ast.Name) and n_.value.id == s and n_.attr in ('A', '_A'):
                        return ast.Name(id=xv, ctx=ast.Load())
                    return self2.generic_visit(n_)

                def visit_Name(self2, n_):
                    if whole == s and n_.id == s:
                        return ast.Name(id=xv, ctx=ast.Load())
                    return n_
            import copy as _cp
            # the part of e1 that corresponds to the comprehension in e2: e2 = W(comp) and e1 = W(E) with the same wrapper W, or W is just
            # the stacking call array / vstack / list of the per-element branch
            def locate(a, b):
                if b is comp:
                    return a
                if isinstance(b, ast.Call) and isinstance(b.func, ast.Name) and b.func.id in ('array', 'vstack', 'list', 'asarray', 'stack') and b.args and b.args[0] is comp:
                    return a
                if type(a) is not type(b):
                    return None
                hit = None
                for (fa, va), (fb, vb) in zip(ast.iter_fields(a), ast.iter_fields(b)):
                    if isinstance(vb, ast.AST) and isinstance(va, ast.AST):
                        if any(z is comp for z in ast.walk(vb)):
                            hit = locate(va, vb)
                        elif ast.dump(va) != ast.dump(vb):
                            return None
                    elif isinstance(vb, list) and isinstance(va, list):
                        if len(va) != len(vb):
                            return None
                        for xa, xb in zip(va, vb):
                            if isinstance(xb, ast.AST) and any(z is comp for z in ast.walk(xb)):
                                hit = locate(xa, xb)
                            elif isinstance(xb, ast.AST) and ast.dump(xa) != ast.dump(xb):
                                return None
                return hit
            e1 = locate(e1, e2)
            if e1 is None:
                continue
            e1x = Sub().visit(_cp.deepcopy(e1))
            if not any(isinstance(y, ast.Name) and y.id == xv for y in ast.walk(e1x)):
                continue
            n_ob += 1
            same = ast.dump(e1x) == ast.dump(comp.elt)
            if not same:
                # wrappers of the single value that the per-element branch applies to the stacked result instead (e.g. a trailing .T) are
                # not compared here: only plain subscript / call forms
                OKT = (ast.Subscript, ast.Call, ast.Name, ast.Attribute, ast.Constant, ast.Tuple, ast.Slice, ast.keyword, ast.Load, ast.UnaryOp, ast.USub,
                       ast.BinOp, ast.Mult, ast.Add, ast.Sub, ast.Div, ast.MatMult)
                plain = all(isinstance(z, OKT) for z in ast.walk(e1x)) and all(isinstance(z, OKT) for z in ast.walk(comp.elt))
                if plain and type(e1x) is type(comp.elt):
                    run.violation(rule, subj, 'element agreement', 'for one value the accessor returns %s, for several values it collects %s of each element: '
                                  'element i of a multi-valued result is not what the accessor returns for the single value X[i]' % (src(e1, 40), src(comp.elt, 40)), f=f, node=st)
                else:
                    n_ob -= 1
            else:
                run.holds(rule, subj, 'element agreement', 'the per-element branch applies %s to every element' % src(e1, 40), f=f, node=st)
    # (v) a per-value method answers for EVERY value the receiver holds: a value return that does not read the receiver's values at all
    # (`return self.__class__()` for the zeroth power) is one value whatever the length, unless it lies under a len(self) == 1 test
    if s and not skip_self:
        derived = {s}
        for _ in range(4):
            for y in own_walk(f.node):
                if isinstance(y, ast.Assign) and any(isinstance(z, ast.Name) and z.id in derived and not _class_only(z, parents) for z in ast.walk(y.value)):
                    for t in y.targets:
                        for z in ast.walk(t):
                            if isinstance(z, ast.Name):
                                derived.add(z.id)
                elif isinstance(y, (ast.For, ast.comprehension)) and any(isinstance(z, ast.Name) and z.id in derived for z in ast.walk(y.iter)):
                    for z in ast.walk(y.target):
                        if isinstance(z, ast.Name):
                            derived.add(z.id)
        for r in own_walk(f.node):
            if not (isinstance(r, ast.Return) and r.value is not None):
                continue
            v = r.value
            if isinstance(v, ast.Constant) or (isinstance(v, ast.Name) and v.id in ('NotImplemented',)):
                continue
            reads = [z for z in ast.walk(v) if isinstance(z, ast.Name) and z.id in derived and not _class_only(z, parents)]
            if reads:
                continue
            if not any(isinstance(z, ast.Call) for z in ast.walk(v)):
                continue          # a plain constant expression / flag
            node = owner.get(id(v)) or cfg.node_of(r)
            fs = facts.get(node.id, frozenset()) if node is not None else frozenset()
            single = len1(fs, s, True)
            if single:
                continue
            uses_class = any(isinstance(z, ast.Attribute) and z.attr == '__class__' for z in ast.walk(v)) or \
                any(isinstance(z, ast.Call) and isinstance(z.func, ast.Name) and z.func.id == 'type' for z in ast.walk(v))
            if not uses_class:
                continue          # not an object of the receiver's class: other rules (R6/R7) own such returns
            n_ob += 1
            run.violation(rule, subj, 'result independent of the values: ' + src(v, 40), 'this return builds an object of the receiver\'s class without reading '
                          'the receiver\'s values: for a receiver holding M values the result holds one value instead of M (element i of the result is not the '
                          'operation applied to element i)', f=f, node=r)
    if n_ob == 0:
        run.holds(rule, subj, 'accessor', 'no single-or-list value is used; elements are taken from self / self.data', f=f,
                  nontrivial=False)


def _class_only(name_node, parents):
    """the receiver is read only for its class: self.__class__ / type(self)"""
    p = parents.get(id(name_node))
    if isinstance(p, ast.Attribute) and p.attr == '__class__':
        return True
    if isinstance(p, ast.Call) and isinstance(p.func, ast.Name) and p.func.id == 'type':
        return True
    return False


def _kw(d):
    return ', '.join('%s=%s' % kv for kv in sorted(d.items()))


def _kernel_calls(fi, stmts):
    out = []
    for st in stmts:
        for n in ast.walk(st):
            if isinstance(n, ast.Call):
                t = ctarget(fi, n)
                if t is not None and t.module.short.startswith('base/') and t.name not in ('getvector', 'isscalar', 'isvector'):
                    out.append((t, {k.arg: ast.unparse(k.value) for k in n.keywords if k.arg}))
    return out


def check_unop(run, f, rule='R8'):
    fi = FuncInfo.of(f)
    ok = 0
    for r in [n for n in own_walk(f.node) if isinstance(n, ast.Return) and n.value is not None]:
        e = canon(fi, r.value)
        if matches('[op(_X) for _X in %s.data]' % f.selfname, e) is not None or \
                matches('vstack([op(_X) for _X in %s.data])' % f.selfname, e) is not None:
            ok += 1
        else:
            run.violation(rule, f.key, 'return ' + src(r.value, 60), 'unop does not map op over all of self.data', f=f, node=r)
    if ok:
        run.holds(rule, f.key, 'map over data', '%d returns map op over every element of self.data' % ok, f=f)


VECTORISED = {
    'SMPose': (['__mul__', '__truediv__', '__add__', '__sub__', '__eq__', '__ne__'], 'super_pose:SMPose._op2'),
    'Quaternion': (['__mul__', '__add__', '__sub__', '__eq__', '__ne__'], 'smuserlist:SMUserList.binop'),
    'UnitQuaternion': (['__mul__', '__truediv__', '__eq__', '__ne__'], 'smuserlist:SMUserList.binop'),
    'Twist3': (['__mul__', '__rmul__', '__eq__', '__ne__'], 'smuserlist:SMUserList.binop'),
    'Twist2': (['__mul__', '__rmul__', '__eq__', '__ne__'], 'smuserlist:SMUserList.binop'),
}


def check_reach_helpers(run, rule='R8h'):
    prog = run.prog
    for cn, (ops, helper) in VECTORISED.items():
        c = prog.cls(cn)
        h = prog.func(helper)
        for op in ops:
            k, mem = prog.lookup_member(c, op)
            if not isinstance(mem, Function) or mem.module.short == 'stdlib/collections':
                run.violation(rule, '%s.%s' % (cn, op), 'vectorised operator', 'operator is not defined by the library '
                              '(inherited list semantics)', f=None)
                continue
            # every value returned by an operator that has no non-helper route (comparison, + - /) comes from the helper:
            # a constant or other shortcut result is ONE value whatever the lengths of the operands
            if op in ('__eq__', '__ne__', '__add__', '__sub__', '__truediv__'):
                fi = FuncInfo.of(mem)
                for r in own_walk(mem.node):
                    if not isinstance(r, ast.Return) or r.value is None:
                        continue
                    e = canon(fi, r.value)
                    if isinstance(e, ast.Name) and e.id == 'NotImplemented':
                        continue
                    has_helper = any(isinstance(y, ast.Call) and isinstance(y.func, ast.Attribute) and y.func.attr in ('_op2', 'binop')
                                     for y in ast.walk(e))
                    construct = '%s return %s (for %s)' % (op, src(r.value, 40), cn)
                    # ... and is the helper's result itself (possibly wrapped by a constructor), not a reduction of it: `not <list>`,
                    # any / all / bool / len of the list collapse the M element-wise results into one value
                    collapsed = None
                    parents_ = {}
                    for y in ast.walk(e):
                        for ch in ast.iter_child_nodes(y):
                            parents_[id(ch)] = y
                    for y in ast.walk(e):
                        if isinstance(y, ast.Call) and isinstance(y.func, ast.Attribute) and y.func.attr in ('_op2', 'binop'):
                            p_ = parents_.get(id(y))
                            while p_ is not None:
                                if isinstance(p_, ast.UnaryOp) and isinstance(p_.op, ast.Not):
                                    collapsed = 'not'
                                elif isinstance(p_, ast.Call) and isinstance(p_.func, ast.Name) and p_.func.id in ('any', 'all', 'bool', 'len', 'sum', 'max', 'min'):
                                    collapsed = p_.func.id
                                elif isinstance(p_, (ast.Compare, ast.BoolOp)):
                                    collapsed = 'a comparison / boolean operator'
                                p_ = parents_.get(id(p_))
                    if has_helper and collapsed:
                        run.violation(rule, mem.key, construct, 'the list of element-wise results of the broadcasting helper is reduced by %s to ONE value: '
                                      'for operands holding M values the operator must return M results (`not [..]` is False for every non-empty list)'
                                      % collapsed, f=mem, node=r)
                    elif has_helper:
                        run.holds(rule, mem.key, construct, 'the returned value is the helper result', f=mem, node=r)
                    elif isinstance(e, ast.Constant):
                        run.violation(rule, mem.key, construct, 'a constant is returned without going through the broadcasting helper: for operands '
                                      'holding M values the result is one value instead of M element-wise results', f=mem, node=r)
                    else:
                        run.undecided(rule, mem.key, construct, 'value not produced by the broadcasting helper', f=mem, node=r)
            cl = closure([mem], depth=3, prog=prog)
            if h in cl:
                run.holds(rule, mem.key, 'reaches ' + h.name + ' (for %s)' % cn, 'vectorised operator is implemented through the '
                          'broadcasting helper', f=mem)
            else:
                run.violation(rule, mem.key, 'reaches ' + h.name + ' (for %s)' % cn, 'vectorised operator does not go through '
                              'the broadcasting helper %s: the 1/M length rules are not applied' % h.name, f=mem)


OPERATOR_CLASSES = ('SMPose', 'SO2', 'SE2', 'SO3', 'SE3', 'Quaternion', 'UnitQuaternion', 'SMTwist', 'Twist2', 'Twist3')
OPERATOR_DUNDERS = ('__mul__', '__rmul__', '__matmul__', '__truediv__', '__add__', '__radd__', '__sub__', '__rsub__', '__pow__',
                    '__eq__', '__ne__', '__neg__', '__imul__', '__itruediv__', '__iadd__', '__isub__')


def operator_methods(prog):
    out = []
    for cn in OPERATOR_CLASSES:
        c = prog.cls(cn)
        for nm in OPERATOR_DUNDERS:
            mem = c.members.get(nm)
            if isinstance(mem, Function):
                out.append(mem)
    return out


def run_r8(run, rule='R8'):
    prog = run.prog
    done = set(ACCESSORS)
    for f in operator_methods(prog):
        if f.key not in done:
            done.add(f.key)
            check_accessor(run, f)
    for k in ACCESSORS:
        f = prog.func(k)
        if k.endswith('.unop'):
            check_unop(run, f)
        else:
            check_accessor(run, f)
    check_reach_helpers(run)


# ---------------------------------------------------------------------------------------------------------------- accessor slots
# what "rotation part", "translation" and the named columns of a pose ARE: the slot of the value matrix each accessor reads.  The
# branch-agreement clause of check_accessor only compares the one-value arm with the many-values arm; this table fixes both.
SLOTS = {
    'pose3d:SO3.R': (':3, :3', 'rotation part', ('t2r(_X)',)),
    'pose3d:SO3.n': (':3, 0', 'normal vector (first column of the rotation part)', ()),
    'pose3d:SO3.o': (':3, 1', 'orientation vector (second column of the rotation part)', ()),
    'pose3d:SO3.a': (':3, 2', 'approach vector (third column of the rotation part)', ()),
    'pose3d:SE3.t': (':3, 3', 'translation (last column above the bottom row)', ('transl(_X)',)),
    'pose2d:SO2.R': (':2, :2', 'rotation part', ('t2r(_X)',)),
    'pose2d:SE2.t': (':2, 2', 'translation (last column above the bottom row)', ('transl2(_X)',)),
}


def check_accessor_slots(run, rule='R8'):
    from ..terms import Normaliser
    prog = run.prog
    nm = Normaliser()
    for key, (want, what, alts) in SLOTS.items():
        f = prog.func(key)
        fi = FuncInfo.of(f)
        s = f.selfname
        # names that hold ONE value matrix: comprehension / loop variables over self.A, self.data (arrays) -- and x.A for x over self
        elems, objs = set(), set()
        for n in own_walk(f.node):
            gens = n.generators if isinstance(n, (ast.ListComp, ast.GeneratorExp)) else []
            its = [(g.target, g.iter) for g in gens] + ([(n.target, n.iter)] if isinstance(n, ast.For) else [])
            for t, it in its:
                if not isinstance(t, ast.Name):
                    continue
                if isinstance(it, ast.Attribute) and isinstance(it.value, ast.Name) and it.value.id == s and it.attr in ('A', 'data', '_A'):
                    elems.add(t.id)
                elif isinstance(it, ast.Name) and it.id == s:
                    objs.add(t.id)

        def is_value(e):
            if isinstance(e, ast.Name):
                return e.id in elems
            if isinstance(e, ast.Attribute) and e.attr in ('A', '_A') and isinstance(e.value, ast.Name):
                return e.value.id == s or e.value.id in objs
            if isinstance(e, ast.Subscript) and isinstance(e.value, ast.Attribute) and e.value.attr == 'data' and \
                    isinstance(e.value.value, ast.Name) and e.value.value.id == s and isinstance(e.slice, ast.Constant):
                return True
            return False
        found = 0
        bad = None
        for n in own_walk(f.node):
            if isinstance(n, ast.Subscript) and is_value(n.value) and isinstance(n.slice, ast.Tuple) and len(n.slice.elts) == 2:
                try:
                    got = nm.slice_str(n.slice)
                except Exception:
                    continue
                if '-' in got:
                    continue                  # an index counted from the end: the size is not known here
                found += 1
                if got != want and bad is None:
                    bad = (n, got)
        if bad is not None:
            run.violation(rule, key, 'slot of the ' + what, 'the accessor reads [%s] of the value matrix; the %s is [%s]' % (bad[1], what, want),
                          f=f, node=bad[0])
            continue
        if not found:
            ok = False
            for n in own_walk(f.node):
                if isinstance(n, ast.Call):
                    e = canon(fi, n)
                    if any(matches(a, e) is not None for a in alts):
                        ok = True
            if not ok:
                run.error('%s: %s reads no constant slot of the value matrix (expected [%s])' % (rule, key, want))
                continue
        run.holds(rule, key, 'slot of the ' + what, 'every read of the value matrix takes [%s]' % want, f=f)


# ---------------------------------------------------------------------------------------------------------------- zip lengths
def check_zip_lengths(run, funcs, rule='R8z'):
    """`zip(a, b)` stops at the shorter sequence.  Where the two sequences come from two different operands of a method (the
    receiver's values and an argument's columns / values), pairing them is the M-with-M case of the broadcasting rule and needs a
    length-equality test of exactly these two operands on every path to it -- otherwise operands of two different lengths give a
    (truncated) result instead of ValueError."""
    from ..astutil import single_assignments
    n = 0
    for f in funcs:
        if f.cls is None and f.parent is None:
            continue
        zips = [c for c in own_walk(f.node) if isinstance(c, ast.Call) and isinstance(c.func, ast.Name) and c.func.id == 'zip' and len(c.args) >= 2]
        if not zips:
            continue
        params = set(f.allparams)
        sa = single_assignments(f.node)

        def root(e, depth=0):
            if depth > 4:
                return None
            if isinstance(e, ast.Name):
                if e.id in params:
                    return e.id
                if e.id in sa:
                    return root(sa[e.id], depth + 1)
                return None
            if isinstance(e, (ast.Attribute, ast.Subscript, ast.Starred)):
                return root(e.value, depth)
            if isinstance(e, ast.Call):
                if isinstance(e.func, ast.Attribute):
                    r = root(e.func.value, depth)
                    if r is not None:
                        return r
                return root(e.args[0], depth) if e.args else None
            return None
        cfg = CFG(f.node)
        facts = must_facts(cfg)
        owner = {}
        for node in cfg.nodes:
            for h in header_expr(node):
                if h is None:
                    continue
                for x in ast.walk(h):
                    owner.setdefault(id(x), node)
        for z in zips:
            roots = [root(a) for a in z.args]
            distinct = sorted({r for r in roots if r is not None})
            if len(distinct) < 2:
                continue
            node = owner.get(id(z))
            if node is None:
                continue
            n += 1
            fs = facts.get(node.id, frozenset())
            ok = False
            for fc in fs:
                t = fc[2].ast
                for cmp_ in [y for y in ast.walk(t) if isinstance(y, ast.Compare) and len(y.ops) == 1]:
                    eq = isinstance(cmp_.ops[0], ast.Eq) and fc[1] or isinstance(cmp_.ops[0], ast.NotEq) and not fc[1]
                    if not eq or (isinstance(t, ast.BoolOp) and isinstance(t.op, ast.Or) and fc[1]):
                        continue
                    sides = [cmp_.left, cmp_.comparators[0]]
                    txt = [ast.unparse(s_) for s_ in sides]
                    if not all('len(' in x or '.shape' in x for x in txt):
                        continue
                    names = [{y.id for y in ast.walk(s_) if isinstance(y, ast.Name)} for s_ in sides]
                    if any(a in names[0] and b in names[1] or a in names[1] and b in names[0]
                           for a in distinct for b in distinct if a != b):
                        ok = True
            construct = 'zip(%s)' % ', '.join(src(a, 20) for a in z.args)
            if ok:
                run.holds(rule, f.key, construct, 'paired only where the lengths of %s have been found equal' % ' and '.join(distinct), f=f, node=z)
            else:
                run.violation(rule, f.key, construct, 'the values of %s are paired by zip without a test that their lengths are equal on every path to it: '
                              'zip stops at the shorter one, so operands of two different lengths (both > 1) give a truncated result instead of '
                              'ValueError' % ' and '.join(distinct), f=f, node=z)
    return n


# ---------------------------------------------------------------------------------------------------------------- per-class slices
def check_element_slices(run, keys, rule='R8'):
    """Element agreement through the class's own accessors.  Where the one-value arm of a method of an abstract base reads a part of
    the value through a property (`self.w`) and the many-values arm slices the stored vectors directly (`S[-self.N:] for S in
    self.data`), the two are compared PER CONCRETE CLASS: the property is resolved through the MRO to its slice of `self.data[0]`,
    `self.N` to its constant, the length of the stored vector to the class's `shape`, and both slices to index sets."""
    prog = run.prog

    def const_prop(cls, name):
        k, mem = prog.lookup_member(cls, name)
        if isinstance(mem, Function):
            rets = [r.value for r in own_walk(mem.node) if isinstance(r, ast.Return) and r.value is not None]
            if len(rets) == 1:
                return rets[0]
        return None

    def idx_set(sl, L, env):
        """index set selected by a subscript expression on a vector of length L"""
        def val(x):
            if x is None:
                return None
            x = _SubstNames(env).visit(copy.deepcopy(x))
            try:
                return int(eval(compile(ast.Expression(body=x), '<slice>', 'eval'), {'__builtins__': {}}, {}))
            except Exception:
                raise ValueError(ast.unparse(x))
        if isinstance(sl, ast.Slice):
            return frozenset(range(L)[slice(val(sl.lower), val(sl.upper), val(sl.step))])
        i = val(sl)
        return frozenset([range(L)[i]])
    for key in keys:
        f = prog.func(key)
        s = f.selfname
        if f.cls is None or s is None:
            continue
        cfg = CFG(f.node)
        facts = must_facts(cfg)
        single, multi = [], []
        for r in own_walk(f.node):
            if not (isinstance(r, ast.Return) and r.value is not None):
                continue
            node = cfg.node_of(r)
            fs = facts.get(node.id, frozenset()) if node is not None else frozenset()
            if len1(fs, s, True):
                single.append(r)
            elif len1(fs, s, False):
                multi.append(r)
        if len(single) != 1 or len(multi) != 1:
            continue
        comp = multi[0].value
        if isinstance(comp, ast.Call) and comp.args and isinstance(comp.args[0], ast.ListComp):
            comp = comp.args[0]
        if not (isinstance(comp, ast.ListComp) and len(comp.generators) == 1 and isinstance(comp.generators[0].target, ast.Name)):
            continue
        g = comp.generators[0]
        if not (isinstance(g.iter, ast.Attribute) and g.iter.attr == 'data' and isinstance(g.iter.value, ast.Name) and g.iter.value.id == s):
            continue
        ev = g.target.id
        props = [y for y in ast.walk(single[0].value) if isinstance(y, ast.Attribute) and isinstance(y.value, ast.Name) and y.value.id == s]
        subs = [y for y in ast.walk(comp.elt) if isinstance(y, ast.Subscript) and isinstance(y.value, ast.Name) and y.value.id == ev]
        if len(props) != 1 or len(subs) != 1:
            continue
        classes = prog.concrete_subclasses(f.cls) or [f.cls]
        for cls in classes:
            construct = 'element slice for %s: %s ~ %s' % (cls.name, src(props[0], 20), src(subs[0], 30))
            pe = const_prop(cls, props[0].attr)
            shp = const_prop(cls, 'shape')
            if pe is None or shp is None or not (isinstance(shp, ast.Tuple) and len(shp.elts) == 1 and isinstance(shp.elts[0], ast.Constant)):
                run.undecided(rule, key, construct, 'property or shape of the class not resolved', f=f, node=multi[0])
                continue
            L = shp.elts[0].value
            # property body: self.data[0][<slice>]
            if not (isinstance(pe, ast.Subscript) and isinstance(pe.value, ast.Subscript) and isinstance(pe.value.value, ast.Attribute) and pe.value.value.attr == 'data'):
                run.undecided(rule, key, construct, 'property is not a slice of self.data[0]', f=f, node=multi[0])
                continue
            env = {}
            for y in ast.walk(subs[0].slice):
                if isinstance(y, ast.Attribute) and isinstance(y.value, ast.Name) and y.value.id == s:
                    c = const_prop(cls, y.attr)
                    if isinstance(c, ast.Constant):
                        env[ast.unparse(y)] = c
            try:
                a = idx_set(pe.slice, L, {})
                b = idx_set(subs[0].slice, L, env)
            except ValueError as ex:
                run.undecided(rule, key, construct, 'slice bound %s is not a constant of the class' % ex, f=f, node=multi[0])
                continue
            if a == b:
                run.holds(rule, key, construct, 'both arms read elements %s of the %d-vector' % (sorted(a), L), f=f, node=multi[0])
            else:
                run.violation(rule, key, construct, 'for %s the one-value arm reads %s = elements %s of the stored %d-vector, the many-values arm reads %s = elements %s: '
                              'element i of a multi-valued result is not what the method returns for the single value X[i]'
                              % (cls.name, src(props[0], 20), sorted(a), L, src(subs[0], 30), sorted(b)), f=f, node=multi[0])


import copy  # noqa: E402


class _SubstNames(ast.NodeTransformer):
    def __init__(self, env):
        self.env = env

    def visit_Attribute(self, n):
        k = ast.unparse(n)
        if k in self.env:
            return copy.deepcopy(self.env[k])
        return self.generic_visit(n)


# ------------------------------------------------------------------------------------------------- specialised arms of an operator
SINGLE_ATTRS = ('S', 'A', '_A', 'vec', 'R')


def _swap_variants(e):
    """copies of e with the operands of exactly one non-commutative operation exchanged (@, or a two-argument product helper)"""
    out = []
    nodes = [n for n in ast.walk(e) if (isinstance(n, ast.BinOp) and isinstance(n.op, ast.MatMult)) or
             (isinstance(n, ast.Call) and getattr(n.func, 'id', getattr(n.func, 'attr', None)) in ('qqmul', 'matmul', 'dot', 'cross') and len(n.args) >= 2)]
    for i in range(len(nodes)):
        c = copy.deepcopy(e)
        m = [n for n in ast.walk(c) if (isinstance(n, ast.BinOp) and isinstance(n.op, ast.MatMult)) or
             (isinstance(n, ast.Call) and getattr(n.func, 'id', getattr(n.func, 'attr', None)) in ('qqmul', 'matmul', 'dot', 'cross') and len(n.args) >= 2)][i]
        if isinstance(m, ast.BinOp):
            m.left, m.right = m.right, m.left
        else:
            m.args[0], m.args[1] = m.args[1], m.args[0]
        out.append(c)
    return out


class _Sub(ast.NodeTransformer):
    def __init__(self, env):
        self.env = env

    def visit_Name(self, n):
        if isinstance(n.ctx, ast.Load) and n.id in self.env:
            return copy.deepcopy(self.env[n.id])
        return n


def check_operator_fastpaths(run, rule='R8f'):
    """An operator method that hands its operands to the broadcasting helper -- C(left.binop(right, lambda x, y: F(x, y))) -- defines
    element i of the result as F(left[i], right[i]) (a single operand repeated).  An arm of the same method specialised for
    particular lengths (a fast path: C([E(x) for x in left.data]) under len(right) == 1 ...) must compute the same element:
    E(x) = F(x, <the single right value>) with every local put in place.  An arm that differs from F by the order of the operands
    of one non-commutative operation is a violation; any other difference is an unrecognised form."""
    from ..cfg import pure_locals, _subst_pure
    prog = run.prog
    n = 0
    for f in operator_methods(prog):
        if len(f.params) < 2:
            continue
        fi = FuncInfo.of(f)
        me, other = f.params[0], f.params[1]
        env = pure_locals(f.node)
        generic = []      # (kind-guard text, lambda)
        for c in own_walk(f.node):
            if isinstance(c, ast.Call) and isinstance(c.func, ast.Attribute) and c.func.attr in ('binop', '_op2') and len(c.args) >= 2 and \
                    isinstance(c.func.value, ast.Name) and c.func.value.id == me and isinstance(c.args[1], ast.Lambda) and len(c.args[1].args.args) == 2 \
                    and isinstance(c.args[0], ast.Name) and c.args[0].id == other:
                generic.append(c)
        if not generic:
            continue
        cfg = CFG(f.node)
        facts = must_facts(cfg)
        for r in own_walk(f.node):
            if not (isinstance(r, ast.Return) and r.value is not None):
                continue
            v = _subst_pure(r.value, env)
            comps = [x for x in ast.walk(v) if isinstance(x, ast.ListComp) and len(x.generators) == 1 and not x.generators[0].ifs
                     and isinstance(x.generators[0].target, ast.Name)]
            if len(comps) != 1 or any(isinstance(x, ast.Call) and isinstance(x.func, ast.Attribute) and x.func.attr in ('binop', '_op2') for x in ast.walk(v)):
                continue
            lc = comps[0]
            it = lc.generators[0].iter
            who = None
            base_ = it.value if isinstance(it, ast.Attribute) and it.attr in ('data', 'A', '_A') else it
            if isinstance(base_, ast.Name) and base_.id in (me, other):
                who = base_.id
            if who is None:
                continue
            node = cfg.node_of(r)
            fs = facts.get(node.id, frozenset()) if node is not None else frozenset()
            # the arm must be one for the same operand kind as a generic arm: pick the generic call whose isinstance facts also hold here
            tests_here = {ast.unparse(fc[2].ast) for fc in fs if fc[1] and 'isinstance' in ast.unparse(fc[2].ast)}
            cand = []
            for g in generic:
                gn = None
                for n_ in cfg.nodes:
                    if any(y is g for h in header_expr(n_) if h is not None for y in ast.walk(h)):
                        gn = n_
                        break
                gt = {ast.unparse(fc[2].ast) for fc in (facts.get(gn.id, frozenset()) if gn is not None else ()) if fc[1] and 'isinstance' in ast.unparse(fc[2].ast)}
                if gt and gt <= tests_here:
                    cand.append(g)
            if len(cand) != 1:
                continue
            g = cand[0]
            lam = g.args[1]
            px, py = lam.args.args[0].arg, lam.args.args[1].arg
            xvar = lc.generators[0].target.id
            single = who_other = other if who == me else me
            # the single value of the operand that is not iterated: any of its one-value spellings, all mapped to one token
            tok = ast.Name(id='__single__', ctx=ast.Load())

            class _One(ast.NodeTransformer):
                def visit_Attribute(self, a):
                    self.generic_visit(a)
                    if isinstance(a.value, ast.Name) and a.value.id == single and a.attr in SINGLE_ATTRS:
                        return copy.deepcopy(tok)
                    return a

                def visit_Subscript(self, a):
                    self.generic_visit(a)
                    if isinstance(a.value, ast.Attribute) and isinstance(a.value.value, ast.Name) and a.value.value.id == single and \
                            a.value.attr == 'data' and isinstance(a.slice, ast.Constant) and a.slice.value == 0:
                        return copy.deepcopy(tok)
                    return a
            elt = _One().visit(copy.deepcopy(lc.elt))
            elt = _Sub({xvar: ast.Name(id='__elem__', ctx=ast.Load())}).visit(elt)
            if who == me:
                want = _Sub({px: ast.Name(id='__elem__', ctx=ast.Load()), py: tok}).visit(copy.deepcopy(lam.body))
            else:
                want = _Sub({px: tok, py: ast.Name(id='__elem__', ctx=ast.Load())}).visit(copy.deepcopy(lam.body))
            ge = ast.unparse(canon(fi, elt, inline=False))
            we = ast.unparse(canon(fi, want, inline=False))
            n += 1
            construct = 'specialised arm ' + src(r.value, 60)
            if ge == we:
                run.holds(rule, f.key, construct, 'element = the broadcasting helper\'s operation applied to (element, single value): ' + we[:80], f=f, node=r)
            elif any(ast.unparse(canon(fi, sv, inline=False)) == ge for sv in _swap_variants(want)):
                run.violation(rule, f.key, construct, 'the arm computes %s for each element, but the general arm of the same operator defines the element as %s: '
                              'the operands of a non-commutative product are exchanged, so for several values on the %s the result is not the '
                              'element-by-element result' % (ge.replace('__elem__', 'x[i]').replace('__single__', 'y'),
                                                             we.replace('__elem__', 'x[i]').replace('__single__', 'y'),
                                                             'left' if who == me else 'right'), f=f, node=r)
            else:
                run.error('%s: %s: specialised arm %s is not the element operation of the general arm (%s) in a recognised spelling' %
                          (rule, f.key, ge[:80], we[:80]))
    return n


# ------------------------------------------------------------------------------------- a list-valued accessor used as a truth value
def _list_valued_properties(prog):
    """properties (and zero-argument methods) of the classes that return a list built over the receiver's values when it holds
    several: [g(x) for x in self] / self.data / self.A"""
    out = {}
    for f in prog.analysed_functions():
        if f.cls is None or f.selfname is None or f.module.short.startswith(('base/', 'stdlib/')):
            continue
        if len(f.params) != 1:
            continue
        for r in own_walk(f.node):
            if isinstance(r, ast.Return) and isinstance(r.value, ast.ListComp):
                it = r.value.generators[0].iter
                b = it.value if isinstance(it, ast.Attribute) and it.attr in ('data', 'A', '_A') else it
                if isinstance(b, ast.Name) and b.id == f.selfname:
                    out[f.key] = f
    return out


def check_list_truth(run, funcs, rule='R8t'):
    """An accessor that answers for one value with a bool and for several values with a LIST of bools (isprismatic, isunit ...)
    has, for a receiver holding several values, a truth value that says nothing about the elements: a non-empty list is true.
    Used as a condition that selects what is computed or returned, it must be reached only where len(self) == 1 is established.
    (A condition that only guards a diagnostic print / warning does not affect any value and is left alone.)"""
    prog = run.prog
    lv = _list_valued_properties(prog)
    n = 0
    for f in funcs:
        if f.cls is None or f.selfname is None:
            continue
        fi = FuncInfo.of(f)
        selfs = fi.self_names()
        hits = []
        parents = {}
        for x in own_walk(f.node):
            for ch in ast.iter_child_nodes(x):
                parents[id(ch)] = x
        for x in own_walk(f.node):
            if not (isinstance(x, ast.Attribute) and isinstance(x.value, ast.Name) and x.value.id in selfs and isinstance(x.ctx, ast.Load)):
                continue
            k, mem = prog.lookup_member(f.cls, x.attr)
            if not (isinstance(mem, Function) and mem.key in lv and mem.kind == 'property'):
                continue
            # is x used as a truth value?  climb through not / and / or to the test of an if / while / conditional expression / assert
            c, p = x, parents.get(id(x))
            while isinstance(p, (ast.BoolOp, ast.UnaryOp)) and (isinstance(p, ast.BoolOp) or isinstance(p.op, ast.Not)):
                c, p = p, parents.get(id(p))
            if isinstance(p, (ast.If, ast.While, ast.IfExp, ast.Assert)) and p.test is c:
                hits.append((x, p, mem))
        if not hits:
            continue
        cfg = CFG(f.node)
        facts = must_facts(cfg)
        for (x, p, mem) in hits:
            n += 1
            construct = 'truth value of %s' % src(x, 30)
            st = p
            while st is not None and cfg.node_of(st) is None:
                st = parents.get(id(st))
            node = cfg.node_of(st) if st is not None else None
            fs = facts.get(node.id, frozenset()) if node is not None else frozenset()
            # facts established by earlier operands of the same `and` chain count too: len(self) == 1 and self.isprismatic
            same_test = False
            if isinstance(p, (ast.If, ast.While, ast.IfExp, ast.Assert)) and isinstance(p.test, ast.BoolOp) and isinstance(p.test.op, ast.And):
                for v in p.test.values:
                    if v is x or any(y is x for y in ast.walk(v)):
                        break
                    if any(matches(pt % s_, canon(fi, v, inline=False)) is not None for s_ in selfs for pt in ('len(%s) == 1', 'len(%s.data) == 1')):
                        same_test = True
            if len1(fs, selfs, True) or same_test:
                run.holds(rule, f.key, construct, 'reached only with len(self) == 1: the accessor answers with a single bool', f=f, node=x)
                continue
            if isinstance(p, ast.If) and not p.orelse and all(
                    isinstance(b, ast.Expr) and isinstance(b.value, ast.Call) and
                    getattr(b.value.func, 'id', getattr(b.value.func, 'attr', None)) in ('print', 'warn', 'warning', 'info', 'debug') for b in p.body):
                run.holds(rule, f.key, construct, 'guards a diagnostic message only: no value depends on it', f=f, node=x, nontrivial=False)
                continue
            run.violation(rule, f.key, construct, '%s.%s is a list (one answer per value) when the receiver holds several values, and a non-empty list is '
                          'true whatever it contains; the condition %s selects what is returned, and no len(%s) == 1 test dominates it: for a '
                          'multi-valued receiver the arm is taken regardless of the elements' %
                          (x.value.id, x.attr, src(p.test, 50), x.value.id), f=f, node=x)
    return n
