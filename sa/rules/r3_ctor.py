"""R3 -- constructors define their state on every normal exit.

On every CFG path from the entry of __init__ to a normal exit, the value attribute(s)
(`data`; for DualQuaternion `real` and `dual`) have been assigned by repository code
(UserList.__init__'s `self.data = []` does not count: that is the silently-empty state),
where a call of `arghandler` counts as an assignment exactly on the edge where its result
is tested true, and a call of a repository super().__init__ that itself satisfies R3 counts."""
import ast

from ..model import Function
from ..cfg import CFG, forward, _split
from ..scope import FuncInfo

STATE = {
    'DualQuaternion': ('real', 'dual'),
    'UnitDualQuaternion': ('real', 'dual'),
}

CTOR_CLASSES = ['SO2', 'SE2', 'SO3', 'SE3', 'Quaternion', 'UnitQuaternion', 'Twist2', 'Twist3', 'Plucker',
                'SpatialVector', 'SpatialVelocity', 'SpatialAcceleration', 'SpatialForce', 'SpatialMomentum',
                'SpatialInertia', 'DualQuaternion', 'UnitDualQuaternion']


def _is_arghandler_call(e, selfname):
    if isinstance(e, ast.Call) and isinstance(e.func, ast.Attribute) and e.func.attr == 'arghandler':
        v = e.func.value
        if isinstance(v, ast.Name) and v.id == selfname:
            return True
        if isinstance(v, ast.Call) and isinstance(v.func, ast.Name) and v.func.id == 'super':
            return True
    return False


def _super_init_call(e, fi):
    """Call super().__init__(...) resolving to a repository constructor -> that Function."""
    if isinstance(e, ast.Call) and isinstance(e.func, ast.Attribute) and e.func.attr == '__init__':
        t = fi.resolve(e.func)
        if t.kind == 'method' and isinstance(t.obj, Function) and t.obj.module.short != 'stdlib/collections':
            return t.obj
    return None


def ctor_summary(run, f, attrs, _memo, _stack=()):
    """Returns (ok, witness) -- ok: all normal exits have attrs assigned."""
    if f.key in _memo:
        return _memo[f.key]
    if f.key in _stack:
        return (False, 'recursive constructor chain')
    fi = FuncInfo.of(f)
    s = f.selfname
    cfg = CFG(f.node)
    need = frozenset(attrs)

    def stmt_assigned(node):
        got = set()
        a = node.ast
        if node.kind == 'stmt' and isinstance(a, (ast.Assign, ast.AugAssign, ast.AnnAssign)):
            tg = a.targets if isinstance(a, ast.Assign) else [a.target]
            for t in tg:
                for x in ast.walk(t):
                    if isinstance(x, ast.Attribute) and isinstance(x.value, ast.Name) and x.value.id == s \
                            and isinstance(x.ctx, ast.Store) and x.attr in need:
                        got.add(x.attr)
        if node.kind == 'stmt' and isinstance(a, ast.Expr):
            g = _super_init_call(a.value, fi)
            if g is not None:
                ok, _ = ctor_summary(run, g, attrs, _memo, _stack + (f.key,))
                if ok:
                    got.update(need)
        return got

    def transfer(node, inv):
        if inv is None:
            return None
        g = stmt_assigned(node)
        return inv | frozenset(g) if g else inv

    def edge(src, label, v):
        if v is None or label is None or not isinstance(label[0], ast.AST):
            return v
        for (t, p) in _split(label[0], label[1]):
            if p and _is_arghandler_call(t, s) and 'data' in need:
                v = v | frozenset(['data'])
        return v

    def join(vals):
        vs = [x for x in vals if x is not None]
        if not vs:
            return None
        r = vs[0]
        for x in vs[1:]:
            r = r & x
        return r

    IN, OUT = forward(cfg, frozenset(), transfer, join, edge_transfer=edge)
    reach = cfg.reachable()
    bad = None
    for (p, label) in cfg.pred[cfg.exit.id]:
        if p not in reach or p not in OUT:
            continue
        v = edge(cfg.nodes[p], label, OUT[p])
        if v is None:
            continue
        if not need <= v:
            pn = cfg.nodes[p]
            if pn.kind == 'falloff':
                # describe the statements that lead to the fall-through
                srcs = []
                for (pp, ll) in cfg.pred[pn.id]:
                    if pp in reach and pp in OUT:
                        vv = edge(cfg.nodes[pp], ll, OUT[pp])
                        if vv is not None and not need <= vv:
                            c = ''
                            if ll is not None and isinstance(ll[0], ast.AST):
                                c = (' when ' + ('' if ll[1] else 'not (') + ast.unparse(ll[0])[:70] + ('' if ll[1] else ')'))
                            srcs.append('line %d%s' % (cfg.nodes[pp].lineno, c))
                bad = 'falls off the end without assigning %s (%s)' % (', '.join(sorted(need - v)), '; '.join(srcs[:3]))
            else:
                bad = 'returns at line %d without assigning %s' % (pn.lineno, ', '.join(sorted(need - v)))
            break
    res = (bad is None, bad)
    _memo[f.key] = res
    return res


def run_r3(run, classes=None, rule='R3'):
    prog = run.prog
    memo = {}
    n = 0
    for cn in (classes or CTOR_CLASSES):
        c = prog.classes.get(cn)
        if c is None:
            run.error('R3: class %s not found' % cn)
            continue
        k, init = prog.lookup_member(c, '__init__')
        if not isinstance(init, Function) or init.module.short == 'stdlib/collections':
            run.error('R3: %s has no repository constructor' % cn)
            continue
        attrs = STATE.get(cn, ('data',))
        ok, why = ctor_summary(run, init, attrs, memo)
        n += 1
        subj = '%s (ctor %s)' % (cn, init.key)
        if ok:
            run.holds(rule, subj, 'state ' + ','.join(attrs),
                      'every normal exit of the constructor has assigned %s' % ', '.join(attrs), f=init)
        else:
            run.violation(rule, subj, 'state ' + ','.join(attrs),
                          'constructor %s; the object is left silently empty/partial instead of raising' % why, f=init)
    return n
