"""R4 -- predicate shapes: each membership/unit/zero/skew predicate contains the atoms that make it the
mathematical predicate it is named for."""
import ast

from ..callgraph import own_walk

from ..model import AnalysisError
from ..scope import FuncInfo
from ..astutil import body_nodoc, src
from ..pattern import canon, parse_pat, match, matches, conjuncts, disjuncts, find_all, dump
from .r2_none import own_returns


def _ret_expr(run, f):
    """Canonical expression of a single-return predicate; None if the body is not of that shape."""
    fi = FuncInfo.of(f)
    rets = own_returns(f.node)
    body = body_nodoc(f.node)
    if len(rets) == 1 and isinstance(body[-1], ast.Return) and len(body) == 1:
        return fi, canon(fi, rets[0].value)
    # early-exit chains, named intermediate results: fold the body into the one expression it computes
    from ..boolfold import predicate_expr
    e = predicate_expr(f.node)
    if e is not None:
        return fi, canon(fi, e)
    return fi, None


def _has(pat, e):
    return len(find_all(pat, e)) > 0


def check_isR(run, f, rule='R4'):
    fi, e = _ret_expr(run, f)
    subj = f.key
    if e is None:
        run.error('R4: %s is not a single boolean expression' % f.key)
        return
    R = f.params[0]
    cs = conjuncts(e)
    # orthogonality residual
    orth = None
    for c in cs:
        for pat in ('norm(_R @ _R.T - eye(__)) < __', 'norm(_R.T @ _R - eye(__)) < __',
                    'norm(eye(__) - _R @ _R.T) < __', 'allclose(_R @ _R.T, eye(__), *_X)'):
            b = matches(pat, c)
            if b is not None and isinstance(b['_R'], ast.Name) and b['_R'].id == R:
                orth = c
    if orth is not None:
        run.holds(rule, subj, 'orthogonality atom', 'norm(R R^T - I) compared with a tolerance', f=f)
    else:
        run.violation(rule, subj, 'orthogonality atom', 'isR lacks an orthogonality residual test on its argument: '
                      'non-orthonormal arrays are accepted', f=f)
    # determinant sign
    dets = find_all('det(_X)', e)
    good = False
    bad = None
    for (n, b) in dets:
        x = b['_X']
        base_ = x
        while isinstance(base_, ast.Subscript):
            base_ = base_.value
        if isinstance(base_, ast.Name) and base_.id == R:
            good = True
        elif isinstance(x, ast.BinOp) and isinstance(x.op, ast.MatMult):
            bad = x
    det_cmp = None
    for c in cs:
        for pat in ('det(_X) > 0', 'abs(det(_X) - 1) < __', 'isclose(det(_X), 1, *_Y)', 'det(_X) > __'):
            if matches(pat, c) is not None:
                det_cmp = c
    if good and det_cmp is not None:
        run.holds(rule, subj, 'determinant atom', 'sign of det(R) itself is tested', f=f)
    elif bad is not None and not good:
        run.violation(rule, subj, 'determinant atom',
                      'determinant is taken of the Gram product %s, which is >= 0 for every real matrix: reflections '
                      '(det = -1) pass the membership test' % src(bad), f=f)
    else:
        run.violation(rule, subj, 'determinant atom', 'isR has no test of the sign of det(R): reflections are accepted',
                      f=f)


def check_ishom(run, f, n, rule='R4'):
    fi, e = _ret_expr(run, f)
    subj = f.key
    if e is None:
        run.error('R4: %s is not a single boolean expression' % f.key)
        return
    T = f.params[0]
    cs = conjuncts(e)
    ok_inst = any(matches('isinstance(%s, ndarray)' % T, c) is not None for c in cs)
    shp = '(%s)' % ', '.join([str(n + 1)] * 2)
    ok_shape = any(matches('%s.shape == %s' % (T, shp), c) is not None for c in cs)
    (run.holds if ok_inst else run.violation)(rule, subj, 'ndarray atom', 'argument type is tested' if ok_inst else
                                              'no isinstance(T, ndarray) conjunct', f=f)
    (run.holds if ok_shape else run.violation)(rule, subj, 'shape atom', 'shape == %s' % shp if ok_shape else
                                               'no shape == %s conjunct' % shp, f=f)
    deep = None
    for c in cs:
        ds = disjuncts(c)
        if len(ds) == 2 and any(matches('not check', d) is not None for d in ds):
            deep = [d for d in ds if matches('not check', d) is None][0]
    if deep is None:
        run.violation(rule, subj, 'check switch', 'deep test is not of the form `not check or (...)`', f=f)
        return
    dcs = conjuncts(deep)
    okR = False
    for d in dcs:
        b = matches('isR(%s[:%d, :%d], *_X)' % (T, n, n), d)
        if b is not None:
            okR = True
    (run.holds if okR else run.violation)(rule, subj, 'rotation-block atom',
                                          'isR applied to T[:%d,:%d]' % (n, n) if okR else
                                          'rotation block T[:%d,:%d] is not passed to isR under check' % (n, n), f=f)
    row = '[' + ', '.join(['0'] * n + ['1']) + ']'
    okrow = False
    for d in dcs:
        for pat in ('all(%s[%d, :] == array(%s))' % (T, n, row), 'all(%s[-1, :] == array(%s))' % (T, row),
                    'array_equal(%s[%d, :], array(%s))' % (T, n, row), 'all(%s[%d, :] == %s)' % (T, n, row),
                    'allclose(%s[%d, :], array(%s))' % (T, n, row), 'allclose(%s[%d, :], %s)' % (T, n, row)):
            if matches(pat, d) is not None:
                okrow = True
    (run.holds if okrow else run.violation)(rule, subj, 'last-row atom', 'last row compared with %s' % row if okrow else
                                            'last row is not compared with %s under check: a wrong last row is accepted'
                                            % row, f=f)


def check_isrot(run, f, n, rule='R4'):
    fi, e = _ret_expr(run, f)
    subj = f.key
    if e is None:
        run.error('R4: %s is not a single boolean expression' % f.key)
        return
    R = f.params[0]
    cs = conjuncts(e)
    ok_inst = any(matches('isinstance(%s, ndarray)' % R, c) is not None for c in cs)
    shp = '(%d, %d)' % (n, n)
    ok_shape = any(matches('%s.shape == %s' % (R, shp), c) is not None for c in cs)
    okR = False
    for c in cs:
        ds = disjuncts(c)
        if len(ds) == 2 and any(matches('not check', d) is not None for d in ds):
            deep = [d for d in ds if matches('not check', d) is None][0]
            if any(matches('isR(%s, *_X)' % R, d) is not None for d in conjuncts(deep)):
                okR = True
    for nm, ok, msg in (('ndarray atom', ok_inst, 'isinstance(R, ndarray)'), ('shape atom', ok_shape, 'shape == ' + shp),
                        ('isR atom', okR, '`not check or isR(R)`')):
        (run.holds if ok else run.violation)(rule, subj, nm, msg + (' present' if ok else ' missing'), f=f)


SIMPLE = {
    # key: (list of accepted patterns over the canonical return expression, description)
    'base/transformsNd:isskew': (['norm(_S + _S.T) < __'], 'norm(S + S^T) < tol'),
    'base/vectors:isunitvec': (['abs(norm(_V) - 1) < __', 'abs(1 - norm(_V)) < __'], '|norm(v) - 1| < tol'),
    'base/vectors:iszerovec': (['norm(_V) < __'], 'norm(v) < tol'),
    'base/vectors:iszero': (['abs(_V) < __'], '|v| < tol'),
}


def check_simple(run, f, rule='R4'):
    pats, desc = SIMPLE[f.key]
    fi, e = _ret_expr(run, f)
    if e is None:
        run.error('R4: %s is not a single boolean expression' % f.key)
        return
    P = f.params[0]
    ok = False
    for p in pats:
        b = matches(p, e)
        if b is not None:
            v = [x for k, x in b.items()][0] if b else None
            if v is None or (isinstance(v, ast.Name) and v.id == P):
                ok = True
    if ok:
        run.holds(rule, f.key, 'definition', desc, f=f)
        return
    # the same test written on squares: |v|^2 < tol^2 -- equivalent when BOTH sides are squared
    if f.key == 'base/vectors:iszerovec':
        for p in ('dot(_V, _V) < _T', 'sum(_V ** 2) < _T', 'sum(_V * _V) < _T', 'normsq(_V) < _T', 'norm(_V) ** 2 < _T', '_V @ _V < _T'):
            b = matches(p, e)
            if b is not None and isinstance(b['_V'], ast.Name) and b['_V'].id == P:
                t = b['_T']
                squared = isinstance(t, ast.BinOp) and (isinstance(t.op, ast.Pow) and isinstance(t.right, ast.Constant) and t.right.value == 2 or
                                                        isinstance(t.op, ast.Mult) and ast.dump(t.left) == ast.dump(t.right))
                if squared:
                    run.holds(rule, f.key, 'definition', 'squared norm against the squared tolerance', f=f)
                else:
                    run.violation(rule, f.key, 'definition', 'the SQUARED norm of the argument is compared with the unsquared tolerance %s: the zero threshold on '
                                  'the length becomes sqrt(tol eps) ~ 5e-8 instead of tol eps ~ 2e-15, so short non-zero vectors (a slow rotation, a '
                                  'small twist) are taken for zero' % src(t, 30), f=f)
                return
    run.violation(rule, f.key, 'definition', 'predicate is not of the form %s on its argument: %s'
                  % (desc, src(e)), f=f)


def check_isskewa(run, f, rule='R4'):
    fi, e = _ret_expr(run, f)
    if e is None:
        run.error('R4: isskewa is not a single boolean expression')
        return
    S = f.params[0]
    cs = conjuncts(e)
    blk = '%s[0:-1, 0:-1]' % S
    ok1 = any(matches('norm(%s + %s.T) < __' % (blk, blk), c) is not None or
              matches('norm(%s[:-1, :-1] + %s[:-1, :-1].T) < __' % (S, S), c) is not None for c in cs)
    ok2 = any(matches('all(%s[-1, :] == 0)' % S, c) is not None or matches('iszerovec(%s[-1, :], *_X)' % S, c) is not None
              or matches('norm(%s[-1, :]) < __' % S, c) is not None for c in cs)
    (run.holds if ok1 else run.violation)(rule, f.key, 'skew-block atom', 'skew test on S[:-1,:-1]' if ok1 else
                                          'no skew-symmetry test of the rotational block', f=f)
    (run.holds if ok2 else run.violation)(rule, f.key, 'zero-last-row atom', 'last row tested zero' if ok2 else
                                          'last row is not tested to be zero', f=f)


def check_iseye(run, f, rule='R4'):
    fi = FuncInfo.of(f)
    rets = own_returns(f.node)
    S = f.params[0]
    ok_norm = False
    ok_sq = False
    for r in rets:
        e = canon(fi, r.value)
        if matches('norm(%s - eye(__)) < __' % S, e) is not None or matches('norm(eye(__) - %s) < __' % S, e) is not None:
            ok_norm = True
    for n in ast.walk(f.node):
        if isinstance(n, ast.If):
            t = canon(fi, n.test)
            if _has('__ != __', t) and any(isinstance(x, ast.Return) and isinstance(x.value, ast.Constant)
                                           and x.value.value is False for x in n.body):
                ok_sq = True
    (run.holds if ok_norm else run.violation)(rule, f.key, 'identity atom', 'norm(S - I) < tol' if ok_norm else
                                              'no norm(S - eye) < tol return', f=f)
    (run.holds if ok_sq else run.violation)(rule, f.key, 'square atom', 'non-square input answered False' if ok_sq else
                                            'no square-matrix guard', f=f)


def check_isunit_q(run, f, rule='R4'):
    fi, e = _ret_expr(run, f)
    if e is None:
        run.error('R4: quaternions.isunit is not a single expression')
        return
    q = f.params[0]
    if matches('isunitvec(%s, *_X)' % q, e) is not None or matches('isunitvec(%s, tol=__)' % q, e) is not None \
            or matches('abs(norm(%s) - 1) < __' % q, e) is not None:
        run.holds(rule, f.key, 'definition', 'reduces to the unit-norm atom', f=f)
    elif _has('iszerovec(*_X)', e) or matches('norm(%s) < __' % q, e) is not None:
        run.violation(rule, f.key, 'definition', 'isunit delegates to the zero-vector test, not the unit-norm test: %s'
                      % src(e), f=f)
    else:
        run.violation(rule, f.key, 'definition', 'isunit does not reduce to |norm(q) - 1| < tol: %s' % src(e), f=f)


def check_isunittwist(run, f, k0, k1, scalar_w, rule='R4'):
    """isunitvec(w) or (w == 0 and isunitvec(v)), as a boolean function of its atomic tests (whatever the control flow); the zero
    test may be spelt norm(w) < tol * eps, abs(w) < tol * eps, iszerovec(w, tol=..) or iszero(w, tol=..)"""
    import itertools
    from ..boolfold import predicate_expr
    fi = FuncInfo.of(f)
    e = predicate_expr(f.node)
    if e is None:
        run.error('%s: %s does not fold into one boolean expression' % (rule, f.key))
        return
    P = f.params[0]

    class Norm(ast.NodeTransformer):
        def visit_Call(self2, n):
            self2.generic_visit(n)
            if isinstance(n.func, ast.Name) and n.func.id == 'getvector' and n.args and isinstance(n.args[0], ast.Name):
                return n.args[0]
            # zero tests -> ZERO(x);  unit tests -> UNIT(x)   (the tolerance argument is R10's business: options are threaded)
            if isinstance(n.func, ast.Name) and n.func.id in ('iszerovec', 'iszero') and n.args:
                return ast.Call(func=ast.Name(id='ZERO', ctx=ast.Load()), args=[n.args[0]], keywords=[])
            if isinstance(n.func, ast.Name) and n.func.id == 'isunitvec' and n.args:
                return ast.Call(func=ast.Name(id='UNIT', ctx=ast.Load()), args=[n.args[0]], keywords=[])
            return n

        def visit_Compare(self2, n):
            self2.generic_visit(n)
            if len(n.ops) == 1 and isinstance(n.ops[0], (ast.Lt, ast.LtE)) and isinstance(n.left, ast.Call) and isinstance(n.left.func, ast.Name) \
                    and n.left.func.id in ('norm', 'abs') and n.left.args:
                return ast.Call(func=ast.Name(id='ZERO', ctx=ast.Load()), args=[n.left.args[0]], keywords=[])
            return n
    e = Norm().visit(canon(fi, e, inline=False))
    w = '%s[%s]' % (P, k1)
    v = '%s[%s]' % (P, k0)
    ref = ast.parse('UNIT(%s) or (ZERO(%s) and UNIT(%s))' % (w, w, v), mode='eval').body
    # slice spelling: v[0:3] == v[:3]
    def key(x):
        return ast.unparse(x).replace('[0:', '[:')
    a1, a2 = set(), set()
    f1 = _atoms_and_eval(e, a1)
    f2 = _atoms_and_eval(ref, a2)
    ren = {k: key(ast.parse(k, mode='eval').body) for k in a1 | a2}
    if {ren[k] for k in a1} != {ren[k] for k in a2}:
        extra = sorted({ren[k] for k in a1} ^ {ren[k] for k in a2})
        # a predicate over other tests: a known wrong shape when the SAME part is tested twice, otherwise unrecognised
        if len(a1) <= 3 and all(x.startswith(('UNIT(', 'ZERO(')) for x in {ren[k] for k in a1}):
            run.violation(rule, f.key, 'definition', 'not of the form isunitvec(w) or (w == 0 and isunitvec(v)): the parts tested are %s, the definition tests %s'
                          % (sorted({ren[k] for k in a1}), sorted({ren[k] for k in a2})), f=f)
        else:
            run.error('%s: %s: the predicate is written over other atomic tests than the definition (%s)' % (rule, f.key, '; '.join(extra)[:200]))
        return
    names1 = sorted(a1)
    canon_names = sorted({ren[k] for k in a1})
    for vals in itertools.product((False, True), repeat=len(canon_names)):
        cenv = dict(zip(canon_names, vals))
        env1 = {k: cenv[ren[k]] for k in a1}
        env2 = {k: cenv[ren[k]] for k in a2}
        if bool(f1(env1)) != bool(f2(env2)):
            run.violation(rule, f.key, 'definition', 'not of the form isunitvec(w) or (w == 0 and isunitvec(v)): differs from the definition when [%s]'
                          % ', '.join('%s%s' % ('' if b else 'not ', k) for k, b in cenv.items()), f=f)
            return
    run.holds(rule, f.key, 'definition', 'unit rotational part, or zero rotational and unit translational part', f=f)


def check_class_isvalid(run, rule='R4'):
    prog = run.prog
    table = {'SO3': ('isrot', None), 'SE3': ('ishom', None), 'SO2': ('isrot2', 'not check'), 'SE2': ('ishom2', 'not check')}
    for cn, (pred, _) in table.items():
        f = prog.functions.get('%s:%s.isvalid' % (prog.cls(cn).module.short, cn))
        if f is None:
            run.error('R4: %s.isvalid not defined in the class itself' % cn)
            continue
        fi, e = _ret_expr(run, f)
        if e is None:
            run.error('R4: %s.isvalid is not a single expression' % cn)
            continue
        x = f.params[0]
        hits = find_all('%s(%s, check=_C)' % (pred, x), e) + find_all('%s(%s, _C)' % (pred, x), e)
        if not hits:
            run.violation(rule, f.key, 'delegation', '%s.isvalid does not call %s on its argument: %s' % (cn, pred, src(e)), f=f)
            continue
        c = hits[0][1]['_C']
        deep = (isinstance(c, ast.Constant) and c.value is True) or (isinstance(c, ast.Name) and c.id == 'check')
        if deep:
            run.holds(rule, f.key, 'delegation', '%s.isvalid -> %s with the deep check reachable when check is true'
                      % (cn, pred), f=f)
        else:
            run.violation(rule, f.key, 'delegation', '%s.isvalid calls %s with check=%s: the numeric membership test '
                          'is never performed' % (cn, pred, src(c)), f=f)
    # UnitQuaternion
    f = prog.functions.get('quaternion:UnitQuaternion.isvalid')
    if f is None:
        run.error('R4: UnitQuaternion.isvalid missing')
    else:
        fi, e = _ret_expr(run, f)
        x = f.params[0]
        cs = conjuncts(e) if e is not None else []
        ok_shape = any(matches('%s.shape == (4,)' % x, c) is not None for c in cs)
        ok_unit = False
        for c in cs:
            ds = disjuncts(c)
            if len(ds) == 2 and any(matches('not check', d) is not None for d in ds):
                deep = [d for d in ds if matches('not check', d) is None][0]
                if matches('isunitvec(%s, *_X)' % x, deep) is not None or matches('isunit(%s, *_X)' % x, deep) is not None:
                    ok_unit = True
        (run.holds if ok_shape else run.violation)(rule, f.key, 'shape atom', 'shape == (4,)' if ok_shape else 'shape is not tested', f=f)
        (run.holds if ok_unit else run.violation)(rule, f.key, 'unit atom', '`not check or isunitvec(x)`' if ok_unit else
                                                  'unit norm is not tested under check', f=f)
    # twists
    for cn, vlen, msz, last in (('Twist3', 6, 4, 3), ('Twist2', 3, 3, 2)):
        f = prog.functions.get('twist:%s.isvalid' % cn)
        if f is None:
            run.error('R4: %s.isvalid missing' % cn)
            continue
        fi = FuncInfo.of(f)
        v = f.params[0]
        tests = [canon(fi, n.test) for n in ast.walk(f.node) if isinstance(n, ast.If)]
        has_vec = any(matches('isvector(%s, %d)' % (v, vlen), t) is not None for t in tests)
        has_mat = any(matches('ismatrix(%s, (%d, %d))' % (v, msz, msz), t) is not None for t in tests)
        has_diag = any(_has('iszerovec(%s.diagonal())' % v, t) for t in tests)
        has_row = any(_has('iszerovec(%s[%d, :])' % (v, last), t) or _has('iszerovec(%s[-1, :])' % v, t) for t in tests)
        has_skew = any(_has('isskew(%s[:%d, :%d])' % (v, last, last), t) and _has('check', t) for t in tests)
        ends_false = isinstance(body_nodoc(f.node)[-1], ast.Return) and isinstance(body_nodoc(f.node)[-1].value, ast.Constant) \
            and body_nodoc(f.node)[-1].value.value is False
        for nm, ok, msg in (('vector form', has_vec, 'isvector(v, %d)' % vlen), ('matrix form', has_mat, 'ismatrix(v, (%d,%d))' % (msz, msz)),
                            ('zero diagonal', has_diag, 'diagonal tested zero'), ('zero last row', has_row, 'last row tested zero'),
                            ('skew block', has_skew, 'isskew of the rotation block under check'),
                            ('default reject', ends_false, 'anything else answers False')):
            (run.holds if ok else run.violation)(rule, f.key, nm, msg + (' present' if ok else ' MISSING: a non-algebra-form '
                                                                         'array is accepted'), f=f)


def run_vector_predicates(run, rule='R4'):
    """the zero / unit predicates that the normalisation and screw functions branch on"""
    prog = run.prog
    for k in ('base/vectors:isunitvec', 'base/vectors:iszerovec', 'base/vectors:iszero'):
        check_simple(run, prog.func(k), rule=rule)
    check_isunittwist(run, prog.func('base/vectors:isunittwist'), '0:3', '3:6', False, rule=rule)
    check_isunittwist(run, prog.func('base/vectors:isunittwist2'), '0:2', '2', True, rule=rule)


def run_r4(run, rule='R4'):
    prog = run.prog
    check_isR(run, prog.func('base/transformsNd:isR'))
    check_ishom(run, prog.func('base/transforms3d:ishom'), 3)
    check_ishom(run, prog.func('base/transforms2d:ishom2'), 2)
    check_isrot(run, prog.func('base/transforms3d:isrot'), 3)
    check_isrot(run, prog.func('base/transforms2d:isrot2'), 2)
    for k in SIMPLE:
        check_simple(run, prog.func(k))
    check_isskewa(run, prog.func('base/transformsNd:isskewa'))
    check_iseye(run, prog.func('base/transformsNd:iseye'))
    check_isunit_q(run, prog.func('base/quaternions:isunit'))
    check_isunittwist(run, prog.func('base/vectors:isunittwist'), '0:3', '3:6', False)
    check_isunittwist(run, prog.func('base/vectors:isunittwist2'), '0:2', '2', True)
    check_class_isvalid(run)


# ---------------------------------------------------------------------------------------------------------------- formula equivalence
def _atoms_and_eval(e, atoms):
    """compile a boolean expression into a function of an assignment of its atoms; atoms are canonical texts"""
    comp = {ast.NotEq: ast.Eq, ast.IsNot: ast.Is, ast.NotIn: ast.In, ast.LtE: ast.Gt, ast.GtE: ast.Lt}

    def atom(x):
        if isinstance(x, ast.Compare) and len(x.ops) == 1 and type(x.ops[0]) in comp:
            pos = ast.Compare(left=x.left, ops=[comp[type(x.ops[0])]()], comparators=x.comparators)
            k = ast.unparse(pos)
            atoms.add(k)
            return lambda env, k=k: not env[k]
        k = ast.unparse(x)
        atoms.add(k)
        return lambda env, k=k: env[k]

    def build(x):
        if isinstance(x, ast.BoolOp):
            fs = [build(v) for v in x.values]
            if isinstance(x.op, ast.And):
                return lambda env: all(f(env) for f in fs)
            return lambda env: any(f(env) for f in fs)
        if isinstance(x, ast.UnaryOp) and isinstance(x.op, ast.Not):
            f = build(x.operand)
            return lambda env: not f(env)
        if isinstance(x, ast.IfExp):
            c, a, b = build(x.test), build(x.body), build(x.orelse)
            return lambda env: a(env) if c(env) else b(env)
        if isinstance(x, ast.Constant) and isinstance(x.value, bool):
            return lambda env, v=x.value: v
        if isinstance(x, ast.Compare) and len(x.ops) > 1:
            # a < b < c  ->  a < b and b < c
            parts = []
            left = x.left
            for op, right in zip(x.ops, x.comparators):
                parts.append(ast.Compare(left=left, ops=[op], comparators=[right]))
                left = right
            return build(ast.BoolOp(op=ast.And(), values=parts))
        return atom(x)
    return build(e)


def check_formula(run, key, reference, what, rule='R4'):
    """The predicate, folded into one expression over its atomic tests (whatever its control flow: early returns, nested ifs,
    temporaries), is the same BOOLEAN FUNCTION of those tests as the reference formula -- decided by the truth table.  A predicate
    that uses other atomic tests than the reference is UNRECOGNISED."""
    import itertools
    from ..boolfold import predicate_expr
    f = run.prog.func(key)
    fi = FuncInfo.of(f)
    e = predicate_expr(f.node)
    if e is None:
        run.error('%s: %s does not fold into one boolean expression' % (rule, key))
        return
    e = canon(fi, e, inline=False)
    ref = canon(fi, ast.parse(reference, mode='eval').body, inline=False)
    a1, a2 = set(), set()
    f1 = _atoms_and_eval(e, a1)
    f2 = _atoms_and_eval(ref, a2)
    if a1 != a2:
        extra = a1 - a2
        # an extra test of the ELEMENT TYPE of the argument (dtype) is independent of every shape / container test of the definition: if the
        # answer depends on it, the predicate differs from the definition for some array the definition accepts or rejects
        if a2 <= a1 and extra and all('.dtype' in k for k in extra):
            pass
        else:
            run.error('%s: %s: the predicate is written over other atomic tests than the reference (%s)' % (
                rule, key, '; '.join(sorted(a1 ^ a2))[:200]))
            return
    names = sorted(a1 | a2)
    if len(names) > 16:
        run.error('%s: %s: too many atomic tests (%d)' % (rule, key, len(names)))
        return
    for vals in itertools.product((False, True), repeat=len(names)):
        env = dict(zip(names, vals))
        if bool(f1(env)) != bool(f2(env)):
            tr = ', '.join('%s%s' % ('' if v else 'not ', k) for k, v in env.items() if True)
            run.violation(rule, key, 'definition', '%s: as a function of its atomic tests the predicate differs from the definition, e.g. it answers %s where the '
                          'definition answers %s when [%s]' % (what, bool(f1(env)), bool(f2(env)), tr[:400]), f=f)
            return
    run.holds(rule, key, 'definition', '%s (truth table over %d atomic tests)' % (what, len(names)), f=f)


ISVECTOR_REF = (
    "(isinstance(v, (list, tuple)) and (dim is None or len(v) == dim) and all(map(lambda x: isinstance(x, _scalartypes), v))) or "
    "((isinstance(v, np.ndarray) and ((len(v.shape) == 1 and v.shape[0] > 0 or (v.shape[0] == 1 and v.shape[1] > 0) or (v.shape[0] > 0 and v.shape[1] == 1)) "
    "if dim is None else (v.shape == (dim,) or v.shape == (1, dim) or v.shape == (dim, 1)))) "
    "if isinstance(v, np.ndarray) else ((dim is None or dim == 1) and isinstance(v, _scalartypes)))")


def check_isvector(run, rule='R4'):
    # a shape test on the SQUEEZED array: squeeze() removes every axis of length 1, also the only axis of a one-element vector
    # ((1,), (1,1) -> ()), so np.array([x]) is no longer a vector while [x] is
    f_ = run.prog.func('base/argcheck:isvector')
    for y in own_walk(f_.node):
        if isinstance(y, ast.Attribute) and y.attr in ('shape', 'ndim') and isinstance(y.value, ast.Call) and isinstance(y.value.func, ast.Attribute) \
                and y.value.func.attr == 'squeeze' and not y.value.args:
            run.violation(rule, f_.key, 'definition', 'the shape test is made on the squeezed array (%s): squeeze() also removes the only axis of a one-element vector, '
                          'so a 1-vector given as np.array([x]) or np.array([[x]]) is not a vector while the list [x] is' % src(y, 40), f=f_, node=y)
            return
    check_formula(run, 'base/argcheck:isvector', ISVECTOR_REF,
                  'a vector is a list/tuple of scalars of the asked length, an array of shape (n,), (1,n) or (n,1) with n > 0 (n = dim when given), or a scalar when dim is None or 1', rule=rule)
