"""R4 -- predicate shapes: each membership/unit/zero/skew predicate contains the atoms that make it the
mathematical predicate it is named for."""
import ast

from ..model import AnalysisError
from ..scope import FuncInfo
from ..astutil import body_nodoc, src
from ..pattern import canon, parse_pat, match, matches, conjuncts, disjuncts, find_all, dump
from .r2_none import own_returns


def _ret_expr(run, f):
    """Canonical expression of a single-return predicate; None if the body is not of that shape."""
    fi = FuncInfo.of(f)
    rets = own_returns(f.node)
    body = body_nodoc(f.node)
    if len(rets) == 1 and isinstance(body[-1], ast.Return) and len(body) == 1:
        return fi, canon(fi, rets[0].value)
    # early-exit chains, named intermediate results: fold the body into the one expression it computes
    from ..boolfold import predicate_expr
    e = predicate_expr(f.node)
    if e is not None:
        return fi, canon(fi, e)
    return fi, None


def _has(pat, e):
    return len(find_all(pat, e)) > 0


def check_isR(run, f, rule='R4'):
    fi, e = _ret_expr(run, f)
    subj = f.key
    if e is None:
        run.error('R4: %s is not a single boolean expression' % f.key)
        return
    R = f.params[0]
    cs = conjuncts(e)
    # orthogonality residual
    orth = None
    for c in cs:
        for pat in ('norm(_R @ _R.T - eye(__)) < __', 'norm(_R.T @ _R - eye(__)) < __',
                    'norm(eye(__) - _R @ _R.T) < __', 'allclose(_R @ _R.T, eye(__), *_X)'):
            b = matches(pat, c)
            if b is not None and isinstance(b['_R'], ast.Name) and b['_R'].id == R:
                orth = c
    if orth is not None:
        run.holds(rule, subj, 'orthogonality atom', 'norm(R R^T - I) compared with a tolerance', f=f)
    else:
        run.violation(rule, subj, 'orthogonality atom', 'isR lacks an orthogonality residual test on its argument: '
                      'non-orthonormal arrays are accepted', f=f)
    # determinant sign
    dets = find_all('det(_X)', e)
    good = False
    bad = None
    for (n, b) in dets:
        x = b['_X']
        base_ = x
        while isinstance(base_, ast.Subscript):
            base_ = base_.value
        if isinstance(base_, ast.Name) and base_.id == R:
            good = True
        elif isinstance(x, ast.BinOp) and isinstance(x.op, ast.MatMult):
            bad = x
    det_cmp = None
    for c in cs:
        for pat in ('det(_X) > 0', 'abs(det(_X) - 1) < __', 'isclose(det(_X), 1, *_Y)', 'det(_X) > __'):
            if matches(pat, c) is not None:
                det_cmp = c
    if good and det_cmp is not None:
        run.holds(rule, subj, 'determinant atom', 'sign of det(R) itself is tested', f=f)
    elif bad is not None and not good:
        run.violation(rule, subj, 'determinant atom',
                      'determinant is taken of the Gram product %s, which is >= 0 for every real matrix: reflections '
                      '(det = -1) pass the membership test' % src(bad), f=f)
    else:
        run.violation(rule, subj, 'determinant atom', 'isR has no test of the sign of det(R): reflections are accepted',
                      f=f)


def check_ishom(run, f, n, rule='R4'):
    fi, e = _ret_expr(run, f)
    subj = f.key
    if e is None:
        run.error('R4: %s is not a single boolean expression' % f.key)
        return
    T = f.params[0]
    cs = conjuncts(e)
    ok_inst = any(matches('isinstance(%s, ndarray)' % T, c) is not None for c in cs)
    shp = '(%s)' % ', '.join([str(n + 1)] * 2)
    ok_shape = any(matches('%s.shape == %s' % (T, shp), c) is not None for c in cs)
    (run.holds if ok_inst else run.violation)(rule, subj, 'ndarray atom', 'argument type is tested' if ok_inst else
                                              'no isinstance(T, ndarray) conjunct', f=f)
    (run.holds if ok_shape else run.violation)(rule, subj, 'shape atom', 'shape == %s' % shp if ok_shape else
                                               'no shape == %s conjunct' % shp, f=f)
    deep = None
    for c in cs:
        ds = disjuncts(c)
        if len(ds) == 2 and any(matches('not check', d) is not None for d in ds):
            deep = [d for d in ds if matches('not check', d) is None][0]
    if deep is None:
        run.violation(rule, subj, 'check switch', 'deep test is not of the form `not check or (...)`', f=f)
        return
    dcs = conjuncts(deep)
    okR = False
    for d in dcs:
        b = matches('isR(%s[:%d, :%d], *_X)' % (T, n, n), d)
        if b is not None:
            okR = True
    (run.holds if okR else run.violation)(rule, subj, 'rotation-block atom',
                                          'isR applied to T[:%d,:%d]' % (n, n) if okR else
                                          'rotation block T[:%d,:%d] is not passed to isR under check' % (n, n), f=f)
    row = '[' + ', '.join(['0'] * n + ['1']) + ']'
    okrow = False
    for d in dcs:
        for pat in ('all(%s[%d, :] == array(%s))' % (T, n, row), 'all(%s[-1, :] == array(%s))' % (T, row),
                    'array_equal(%s[%d, :], array(%s))' % (T, n, row), 'all(%s[%d, :] == %s)' % (T, n, row),
                    'allclose(%s[%d, :], array(%s))' % (T, n, row), 'allclose(%s[%d, :], %s)' % (T, n, row)):
            if matches(pat, d) is not None:
                okrow = True
    (run.holds if okrow else run.violation)(rule, subj, 'last-row atom', 'last row compared with %s' % row if okrow else
                                            'last row is not compared with %s under check: a wrong last row is accepted'
                                            % row, f=f)


def check_isrot(run, f, n, rule='R4'):
    fi, e = _ret_expr(run, f)
    subj = f.key
    if e is None:
        run.error('R4: %s is not a single boolean expression' % f.key)
        return
    R = f.params[0]
    cs = conjuncts(e)
    ok_inst = any(matches('isinstance(%s, ndarray)' % R, c) is not None for c in cs)
    shp = '(%d, %d)' % (n, n)
    ok_shape = any(matches('%s.shape == %s' % (R, shp), c) is not None for c in cs)
    okR = False
    for c in cs:
        ds = disjuncts(c)
        if len(ds) == 2 and any(matches('not check', d) is not None for d in ds):
            deep = [d for d in ds if matches('not check', d) is None][0]
            if any(matches('isR(%s, *_X)' % R, d) is not None for d in conjuncts(deep)):
                okR = True
    for nm, ok, msg in (('ndarray atom', ok_inst, 'isinstance(R, ndarray)'), ('shape atom', ok_shape, 'shape == ' + shp),
                        ('isR atom', okR, '`not check or isR(R)`')):
        (run.holds if ok else run.violation)(rule, subj, nm, msg + (' present' if ok else ' missing'), f=f)


SIMPLE = {
    # key: (list of accepted patterns over the canonical return expression, description)
    'base/transformsNd:isskew': (['norm(_S + _S.T) < __'], 'norm(S + S^T) < tol'),
    'base/vectors:isunitvec': (['abs(norm(_V) - 1) < __', 'abs(1 - norm(_V)) < __'], '|norm(v) - 1| < tol'),
    'base/vectors:iszerovec': (['norm(_V) < __'], 'norm(v) < tol'),
    'base/vectors:iszero': (['abs(_V) < __'], '|v| < tol'),
}


def check_simple(run, f, rule='R4'):
    pats, desc = SIMPLE[f.key]
    fi, e = _ret_expr(run, f)
    if e is None:
        run.error('R4: %s is not a single boolean expression' % f.key)
        return
    P = f.params[0]
    ok = False
    for p in pats:
        b = matches(p, e)
        if b is not None:
            v = [x for k, x in b.items()][0] if b else None
            if v is None or (isinstance(v, ast.Name) and v.id == P):
                ok = True
    if ok:
        run.holds(rule, f.key, 'definition', desc, f=f)
        return
    # the same test written on squares: |v|^2 < tol^2 -- equivalent when BOTH sides are squared
    if f.key == 'base/vectors:iszerovec':
        for p in ('dot(_V, _V) < _T', 'sum(_V ** 2) < _T', 'sum(_V * _V) < _T', 'normsq(_V) < _T', 'norm(_V) ** 2 < _T', '_V @ _V < _T'):
            b = matches(p, e)
            if b is not None and isinstance(b['_V'], ast.Name) and b['_V'].id == P:
                t = b['_T']
                squared = isinstance(t, ast.BinOp) and (isinstance(t.op, ast.Pow) and isinstance(t.right, ast.Constant) and t.right.value == 2 or
                                                        isinstance(t.op, ast.Mult) and ast.dump(t.left) == ast.dump(t.right))
                if squared:
                    run.holds(rule, f.key, 'definition', 'squared norm against the squared tolerance', f=f)
                else:
                    run.violation(rule, f.key, 'definition', 'the SQUARED norm of the argument is compared with the unsquared tolerance %s: the zero threshold on '
                                  'the length becomes sqrt(tol eps) ~ 5e-8 instead of tol eps ~ 2e-15, so short non-zero vectors (a slow rotation, a '
                                  'small twist) are taken for zero' % src(t, 30), f=f)
                return
    run.violation(rule, f.key, 'definition', 'predicate is not of the form %s on its argument: %s'
                  % (desc, src(e)), f=f)


def check_isskewa(run, f, rule='R4'):
    fi, e = _ret_expr(run, f)
    if e is None:
        run.error('R4: isskewa is not a single boolean expression')
        return
    S = f.params[0]
    cs = conjuncts(e)
    blk = '%s[0:-1, 0:-1]' % S
    ok1 = any(matches('norm(%s + %s.T) < __' % (blk, blk), c) is not None or
              matches('norm(%s[:-1, :-1] + %s[:-1, :-1].T) < __' % (S, S), c) is not None for c in cs)
    ok2 = any(matches('all(%s[-1, :] == 0)' % S, c) is not None or matches('iszerovec(%s[-1, :], *_X)' % S, c) is not None
              or matches('norm(%s[-1, :]) < __' % S, c) is not None for c in cs)
    (run.holds if ok1 else run.violation)(rule, f.key, 'skew-block atom', 'skew test on S[:-1,:-1]' if ok1 else
                                          'no skew-symmetry test of the rotational block', f=f)
    (run.holds if ok2 else run.violation)(rule, f.key, 'zero-last-row atom', 'last row tested zero' if ok2 else
                                          'last row is not tested to be zero', f=f)


def check_iseye(run, f, rule='R4'):
    fi = FuncInfo.of(f)
    rets = own_returns(f.node)
    S = f.params[0]
    ok_norm = False
    ok_sq = False
    for r in rets:
        e = canon(fi, r.value)
        if matches('norm(%s - eye(__)) < __' % S, e) is not None or matches('norm(eye(__) - %s) < __' % S, e) is not None:
            ok_norm = True
    for n in ast.walk(f.node):
        if isinstance(n, ast.If):
            t = canon(fi, n.test)
            if _has('__ != __', t) and any(isinstance(x, ast.Return) and isinstance(x.value, ast.Constant)
                                           and x.value.value is False for x in n.body):
                ok_sq = True
    (run.holds if ok_norm else run.violation)(rule, f.key, 'identity atom', 'norm(S - I) < tol' if ok_norm else
                                              'no norm(S - eye) < tol return', f=f)
    (run.holds if ok_sq else run.violation)(rule, f.key, 'square atom', 'non-square input answered False' if ok_sq else
                                            'no square-matrix guard', f=f)


def check_isunit_q(run, f, rule='R4'):
    fi, e = _ret_expr(run, f)
    if e is None:
        run.error('R4: quaternions.isunit is not a single expression')
        return
    q = f.params[0]
    if matches('isunitvec(%s, *_X)' % q, e) is not None or matches('isunitvec(%s, tol=__)' % q, e) is not None \
            or matches('abs(norm(%s) - 1) < __' % q, e) is not None:
        run.holds(rule, f.key, 'definition', 'reduces to the unit-norm atom', f=f)
    elif _has('iszerovec(*_X)', e) or matches('norm(%s) < __' % q, e) is not None:
        run.violation(rule, f.key, 'definition', 'isunit delegates to the zero-vector test, not the unit-norm test: %s'
                      % src(e), f=f)
    else:
        run.violation(rule, f.key, 'definition', 'isunit does not reduce to |norm(q) - 1| < tol: %s' % src(e), f=f)


def check_isunittwist(run, f, k0, k1, scalar_w, rule='R4'):
    """return isunitvec(w) or (norm(w) < tol and isunitvec(v))"""
    fi = FuncInfo.of(f)
    rets = [r for r in own_returns(f.node) if r.value is not None]
    ok = False
    for r in rets:
        e = canon(fi, r.value)
        ds = disjuncts(e)
        if len(ds) != 2:
            continue
        w = 'v[%s]' % k1
        v = 'v[%s]' % k0
        a = [d for d in ds if matches('isunitvec(%s, *_X)' % w, d) is not None or matches('isunitvec(%s, tol=__)' % w, d) is not None]
        rest = [d for d in ds if d not in a]
        if len(a) == 1 and len(rest) == 1:
            cs = conjuncts(rest[0])
            z = any(matches('norm(%s) < __' % w, c) is not None or matches('abs(%s) < __' % w, c) is not None or
                    matches('iszerovec(%s, *_X)' % w, c) is not None or matches('iszero(%s, *_X)' % w, c) is not None
                    for c in cs)
            u = any(matches('isunitvec(%s, *_X)' % v, c) is not None or matches('isunitvec(%s, tol=__)' % v, c) is not None
                    for c in cs)
            if z and u:
                ok = True
    if ok:
        run.holds(rule, f.key, 'definition', 'unit rotational part, or zero rotational and unit translational part', f=f)
    else:
        run.violation(rule, f.key, 'definition', 'not of the form isunitvec(w) or (w == 0 and isunitvec(v))', f=f)


def check_class_isvalid(run, rule='R4'):
    prog = run.prog
    table = {'SO3': ('isrot', None), 'SE3': ('ishom', None), 'SO2': ('isrot2', 'not check'), 'SE2': ('ishom2', 'not check')}
    for cn, (pred, _) in table.items():
        f = prog.functions.get('%s:%s.isvalid' % (prog.cls(cn).module.short, cn))
        if f is None:
            run.error('R4: %s.isvalid not defined in the class itself' % cn)
            continue
        fi, e = _ret_expr(run, f)
        if e is None:
            run.error('R4: %s.isvalid is not a single expression' % cn)
            continue
        x = f.params[0]
        hits = find_all('%s(%s, check=_C)' % (pred, x), e) + find_all('%s(%s, _C)' % (pred, x), e)
        if not hits:
            run.violation(rule, f.key, 'delegation', '%s.isvalid does not call %s on its argument: %s' % (cn, pred, src(e)), f=f)
            continue
        c = hits[0][1]['_C']
        deep = (isinstance(c, ast.Constant) and c.value is True) or (isinstance(c, ast.Name) and c.id == 'check')
        if deep:
            run.holds(rule, f.key, 'delegation', '%s.isvalid -> %s with the deep check reachable when check is true'
                      % (cn, pred), f=f)
        else:
            run.violation(rule, f.key, 'delegation', '%s.isvalid calls %s with check=%s: the numeric membership test '
                          'is never performed' % (cn, pred, src(c)), f=f)
    # UnitQuaternion
    f = prog.functions.get('quaternion:UnitQuaternion.isvalid')
    if f is None:
        run.error('R4: UnitQuaternion.isvalid missing')
    else:
        fi, e = _ret_expr(run, f)
        x = f.params[0]
        cs = conjuncts(e) if e is not None else []
        ok_shape = any(matches('%s.shape == (4,)' % x, c) is not None for c in cs)
        ok_unit = False
        for c in cs:
            ds = disjuncts(c)
            if len(ds) == 2 and any(matches('not check', d) is not None for d in ds):
                deep = [d for d in ds if matches('not check', d) is None][0]
                if matches('isunitvec(%s, *_X)' % x, deep) is not None or matches('isunit(%s, *_X)' % x, deep) is not None:
                    ok_unit = True
        (run.holds if ok_shape else run.violation)(rule, f.key, 'shape atom', 'shape == (4,)' if ok_shape else 'shape is not tested', f=f)
        (run.holds if ok_unit else run.violation)(rule, f.key, 'unit atom', '`not check or isunitvec(x)`' if ok_unit else
                                                  'unit norm is not tested under check', f=f)
    # twists
    for cn, vlen, msz, last in (('Twist3', 6, 4, 3), ('Twist2', 3, 3, 2)):
        f = prog.functions.get('twist:%s.isvalid' % cn)
        if f is None:
            run.error('R4: %s.isvalid missing' % cn)
            continue
        fi = FuncInfo.of(f)
        v = f.params[0]
        tests = [canon(fi, n.test) for n in ast.walk(f.node) if isinstance(n, ast.If)]
        has_vec = any(matches('isvector(%s, %d)' % (v, vlen), t) is not None for t in tests)
        has_mat = any(matches('ismatrix(%s, (%d, %d))' % (v, msz, msz), t) is not None for t in tests)
        has_diag = any(_has('iszerovec(%s.diagonal())' % v, t) for t in tests)
        has_row = any(_has('iszerovec(%s[%d, :])' % (v, last), t) or _has('iszerovec(%s[-1, :])' % v, t) for t in tests)
        has_skew = any(_has('isskew(%s[:%d, :%d])' % (v, last, last), t) and _has('check', t) for t in tests)
        ends_false = isinstance(body_nodoc(f.node)[-1], ast.Return) and isinstance(body_nodoc(f.node)[-1].value, ast.Constant) \
            and body_nodoc(f.node)[-1].value.value is False
        for nm, ok, msg in (('vector form', has_vec, 'isvector(v, %d)' % vlen), ('matrix form', has_mat, 'ismatrix(v, (%d,%d))' % (msz, msz)),
                            ('zero diagonal', has_diag, 'diagonal tested zero'), ('zero last row', has_row, 'last row tested zero'),
                            ('skew block', has_skew, 'isskew of the rotation block under check'),
                            ('default reject', ends_false, 'anything else answers False')):
            (run.holds if ok else run.violation)(rule, f.key, nm, msg + (' present' if ok else ' MISSING: a non-algebra-form '
                                                                         'array is accepted'), f=f)


def run_vector_predicates(run, rule='R4'):
    """the zero / unit predicates that the normalisation and screw functions branch on"""
    prog = run.prog
    for k in ('base/vectors:isunitvec', 'base/vectors:iszerovec', 'base/vectors:iszero'):
        check_simple(run, prog.func(k), rule=rule)
    check_isunittwist(run, prog.func('base/vectors:isunittwist'), '0:3', '3:6', False, rule=rule)
    check_isunittwist(run, prog.func('base/vectors:isunittwist2'), '0:2', '2', True, rule=rule)


def run_r4(run, rule='R4'):
    prog = run.prog
    check_isR(run, prog.func('base/transformsNd:isR'))
    check_ishom(run, prog.func('base/transforms3d:ishom'), 3)
    check_ishom(run, prog.func('base/transforms2d:ishom2'), 2)
    check_isrot(run, prog.func('base/transforms3d:isrot'), 3)
    check_isrot(run, prog.func('base/transforms2d:isrot2'), 2)
    for k in SIMPLE:
        check_simple(run, prog.func(k))
    check_isskewa(run, prog.func('base/transformsNd:isskewa'))
    check_iseye(run, prog.func('base/transformsNd:iseye'))
    check_isunit_q(run, prog.func('base/quaternions:isunit'))
    check_isunittwist(run, prog.func('base/vectors:isunittwist'), '0:3', '3:6', False)
    check_isunittwist(run, prog.func('base/vectors:isunittwist2'), '0:2', '2', True)
    check_class_isvalid(run)
