"""R2 -- (a) a value-returning function never silently returns None;
(b) an exception object is never built-and-dropped or returned."""
import ast
import builtins

from ..cfg import CFG
from ..callgraph import own_walk

EXC_NAMES = {n for n in dir(builtins)
             if isinstance(getattr(builtins, n), type) and issubclass(getattr(builtins, n), BaseException)}

# frozen optional-result table: one named symbol, one reason each
OPTIONAL_RESULT = {
    'base/vectors:unitvec': 'documented: returns None for a zero-magnitude vector',
    'base/vectors:unitvec_norm': 'documented: returns None for a zero-magnitude vector',
    'base/vectors:unittwist': 'documented: returns None for a zero twist',
    'geom3d:Plucker.intersects': 'documented: None = lines do not intersect',
    'geom3d:Plucker.commonperp': 'documented: None = lines are parallel',
    'geom3d:Plucker.intersect_plane': 'documented: None = no intersection',
    'base/quaternions:qprint': 'returns the string only when file=None, otherwise writes it',
    'base/transforms3d:trplot': 'graphics',
    'base/transforms3d:tranimate': 'graphics',
    'base/transforms2d:trplot2': 'graphics',
    'base/transforms2d:tranimate2': 'graphics',
    'smuserlist:SMUserList._import': 'None = invalid value; every caller is checked by R5',
    'quaternion:UnitQuaternion.animate': 'graphics',
}


def own_returns(fnode):
    return [n for n in own_walk(fnode) if isinstance(n, ast.Return)]


def is_none_value(e):
    return e is None or (isinstance(e, ast.Constant) and e.value is None)


def is_generator(fnode):
    return any(isinstance(n, (ast.Yield, ast.YieldFrom)) for n in own_walk(fnode))


def _infeasible_fallthrough(run, f):
    """SMPose.det / SMPose.interp: the if/elif chain over the concrete subclasses (by name or by N)
    is exhaustive iff the concrete SMPose subclasses are exactly {SO2,SE2,SO3,SE3} and N returns 2 or 3."""
    prog = run.prog
    if f.key not in ('super_pose:SMPose.det', 'super_pose:SMPose.interp'):
        return False
    smp = prog.classes.get('SMPose')
    if smp is None:
        return False
    names = {c.name for c in prog.subclasses(smp, strict=True)}
    if names != {'SO2', 'SE2', 'SO3', 'SE3'}:
        return False
    body = [s for s in f.node.body if not (isinstance(s, ast.Expr) and isinstance(s.value, ast.Constant))]
    last = body[-1] if body else None
    if not isinstance(last, ast.If):
        return False
    tests = []
    node = last
    while True:
        tests.append(node.test)
        if len(node.orelse) == 1 and isinstance(node.orelse[0], ast.If):
            node = node.orelse[0]
        elif not node.orelse:
            break
        else:
            return False
    if f.name == 'det':
        covered = set()
        for t in tests:
            # `type(self).__name__ in ('SO3', 'SE3')`, or its normal form `... == 'SO3' or ... == 'SE3'`
            parts = t.values if (isinstance(t, ast.BoolOp) and isinstance(t.op, ast.Or)) else [t]
            for q in parts:
                if isinstance(q, ast.Compare) and len(q.ops) == 1 and ast.unparse(q.left) in ('type(self).__name__', 'self.__class__.__name__'):
                    if isinstance(q.ops[0], ast.In) and isinstance(q.comparators[0], (ast.Tuple, ast.List)):
                        covered |= {e.value for e in q.comparators[0].elts if isinstance(e, ast.Constant)}
                        continue
                    if isinstance(q.ops[0], ast.Eq) and isinstance(q.comparators[0], ast.Constant):
                        covered.add(q.comparators[0].value)
                        continue
                return False
        return covered == names
    else:
        vals = set()
        for t in tests:
            if isinstance(t, ast.Compare) and len(t.ops) == 1 and isinstance(t.ops[0], ast.Eq) \
                    and ast.unparse(t.left) == 'self.N' and isinstance(t.comparators[0], ast.Constant):
                vals.add(t.comparators[0].value)
            else:
                return False
        # N must only be able to return 2 or 3
        nf = prog.functions.get('super_pose:SMPose.N')
        if nf is None:
            return False
        rv = set()
        for r in own_returns(nf.node):
            if isinstance(r.value, ast.Constant):
                rv.add(r.value.value)
            else:
                return False
        return rv == {2, 3} and vals == {2, 3}


def _n_values(prog):
    nf = prog.functions.get('super_pose:SMPose.N')
    if nf is None:
        return None
    rv = set()
    for r in own_returns(nf.node):
        if isinstance(r.value, ast.Constant):
            rv.add(r.value.value)
        else:
            return None
    return rv


def _infeasible_by_facts(run, f, fs):
    """The point whose must-facts are fs cannot be reached: the facts exclude every value self.N can take, or every concrete
    pose class name (class model)."""
    prog = run.prog
    smp = prog.classes.get('SMPose')
    if smp is None or f.cls is None or smp not in f.cls.mro:
        return False
    not_n, not_name = set(), set()
    for fc in fs:
        t = fc[2].ast
        if fc[1] or not (isinstance(t, ast.Compare) and len(t.ops) == 1 and isinstance(t.ops[0], ast.Eq) and isinstance(t.comparators[0], ast.Constant)):
            continue
        if ast.unparse(t.left) == '%s.N' % f.selfname:
            not_n.add(t.comparators[0].value)
        elif ast.unparse(t.left) in ('type(%s).__name__' % f.selfname, '%s.__class__.__name__' % f.selfname):
            not_name.add(t.comparators[0].value)
    rv = _n_values(prog)
    if rv and rv <= not_n:
        return True
    names = {c.name for c in prog.subclasses(smp, strict=True)}
    return bool(names) and names <= not_name


def check_a(run, f, rule='R2a'):
    if is_generator(f.node):
        return
    rets = own_returns(f.node)
    valued = [r for r in rets if not is_none_value(r.value)]
    if not valued:
        return
    subj = f.key
    if f.name == '_import' and f.cls is not None and f.key not in OPTIONAL_RESULT:
        run.info(rule, subj, 'optional-result', '_import protocol: None = invalid value; callers are checked by R5', f=f)
        return
    if f.key in OPTIONAL_RESULT:
        run.info(rule, subj, 'optional-result', 'in the optional-result table: ' + OPTIONAL_RESULT[f.key], f=f)
        return
    if f.name == '__init__':
        return
    cfg = CFG(f.node)
    reach = cfg.reachable()
    bad = []
    if cfg.falloff.id in reach:
        from ..cfg import must_facts as _mf
        if _infeasible_fallthrough(run, f) or _infeasible_by_facts(run, f, _mf(cfg).get(cfg.falloff.id, frozenset())):
            run.holds(rule, subj, 'fall-through', 'if/elif chain is exhaustive over the concrete subclasses '
                      '(checked against the class model)', f=f)
        else:
            preds = [cfg.nodes[p] for (p, _) in cfg.pred[cfg.falloff.id] if p in reach]
            ln = preds[0].lineno if preds else f.node.lineno
            lab = [l for (p, l) in cfg.pred[cfg.falloff.id] if p in reach]
            conds = []
            for l in lab:
                if l is not None and isinstance(l[0], ast.AST):
                    conds.append(('not ' if not l[1] else '') + ast.unparse(l[0])[:80])
            bad.append(('falls off the end (implicit None)' +
                        (' when ' + ' / '.join(conds) if conds else ''), preds[0].ast if preds else f.node))
    facts = None
    for r in rets:
        if is_none_value(r.value):
            n = cfg.node_of(r)
            if n is not None and n.id in reach:
                if facts is None:
                    from ..cfg import must_facts
                    facts = must_facts(cfg)
                if _infeasible_by_facts(run, f, facts.get(n.id, frozenset())):
                    run.holds(rule, subj, 'return None on an excluded case', 'the guards on every path to this return exclude every value of N / '
                              'every concrete pose class (class model): not reachable', f=f, node=r)
                    continue
                bad.append(('explicit return of None', r))
    if bad:
        for msg, node in bad:
            run.violation(rule, subj, msg.split(' when ')[0],
                          'function returns a value on %d path(s) but %s' % (len(valued), msg), f=f, node=node)
    else:
        run.holds(rule, subj, 'returns', 'all %d normal exits return a value; no fall-through' % len(valued), f=f)


def _exc_expr(e):
    """Is e an exception class or a call constructing one?"""
    if isinstance(e, ast.Name) and e.id in EXC_NAMES:
        return e.id
    if isinstance(e, ast.Call) and isinstance(e.func, ast.Name) and e.func.id in EXC_NAMES:
        return e.func.id
    return None


def check_b(run, f, rule='R2b'):
    subj = f.key
    n = 0
    found = False
    for st in own_walk(f.node):
        if isinstance(st, ast.Expr):
            n += 1
            x = _exc_expr(st.value)
            if x:
                found = True
                run.violation(rule, subj, 'dropped ' + ast.unparse(st.value),
                              '%s is constructed but not raised (the error path continues silently)' % x,
                              f=f, node=st)
        elif isinstance(st, ast.Return) and st.value is not None:
            n += 1
            x = _exc_expr(st.value)
            if x:
                found = True
                run.violation(rule, subj, 'returned ' + ast.unparse(st.value),
                              'exception %s is returned as a value instead of being raised' % x, f=f, node=st)
    if not found:
        run.holds(rule, subj, 'exceptions', '%d expression/return statements: no exception object dropped or '
                  'returned' % n, f=f, nontrivial=n > 0)


def run_r2(run, funcs, a=True, b=True):
    for f in funcs:
        if f.module.short == 'stdlib/collections':
            continue
        if a:
            check_a(run, f)
        if b:
            check_b(run, f)
